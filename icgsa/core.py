"""icgsa.core -- loader and name resolution for the IncompleteCooperative repository.

Static only: every module is parsed with ``ast``; nothing from the repository is imported
or executed.  All rules query the :class:`Program` built here.
"""
from __future__ import annotations

import ast
import copy
import hashlib
import os
from pathlib import Path
from typing import Callable, Iterable, Iterator

PKG = "incomplete_cooperative"
DEFAULT_REPO = "/repo"


class AnalysisError(Exception):
    """The analysis itself cannot proceed (vanished anchor, unparsable unit, unknown idiom).

    Mapped to ``ANALYSIS-ERROR`` / exit 2 by the report layer: never a pass, never a
    violation.
    """


class AnchorMissing(AnalysisError):
    """A function / class / registry the rule binds to is no longer there."""


def repo_root() -> Path:
    return Path(os.environ.get("ICG_REPO", DEFAULT_REPO))


# --------------------------------------------------------------------------------------
# modules
# --------------------------------------------------------------------------------------

class Module:
    """One parsed source unit."""

    def __init__(self, name: str, path: Path, source: str, tree: ast.Module, primary: bool) -> None:
        self.name = name
        self.path = path
        self.source = source
        self.tree = tree
        self.primary = primary
        self.is_package = path.name == "__init__.py"
        self.imports: dict[str, str] = {}
        self.defs: dict[str, ast.AST] = {}
        self.assigns: dict[str, ast.expr] = {}
        self.assign_nodes: dict[str, ast.stmt] = {}
        self._index()
        self.constants: dict[str, object] = self._constants()

    # the package a relative import is relative to
    def _package(self) -> str:
        return self.name if self.is_package else self.name.rpartition(".")[0]

    def _index(self) -> None:
        for node in self._toplevel(self.tree.body):
            if isinstance(node, ast.Import):
                for a in node.names:
                    if a.asname:
                        self.imports[a.asname] = a.name
                    else:
                        self.imports[a.name.split(".")[0]] = a.name.split(".")[0]
            elif isinstance(node, ast.ImportFrom):
                base = node.module or ""
                if node.level:
                    pkg = self._package().split(".")
                    if node.level > 1:
                        pkg = pkg[: -(node.level - 1)]
                    base = ".".join(pkg + ([base] if base else []))
                for a in node.names:
                    self.imports[a.asname or a.name] = f"{base}.{a.name}"
            elif isinstance(node, (ast.FunctionDef, ast.AsyncFunctionDef, ast.ClassDef)):
                self.defs[node.name] = node
            elif isinstance(node, ast.Assign):
                for t in node.targets:
                    if isinstance(t, ast.Name):
                        self.assigns[t.id] = node.value
                        self.assign_nodes[t.id] = node
            elif isinstance(node, ast.AnnAssign) and isinstance(node.target, ast.Name) and node.value is not None:
                self.assigns[node.target.id] = node.value
                self.assign_nodes[node.target.id] = node

    def _constants(self) -> dict[str, object]:
        """Module-level names bound exactly once, to a scalar literal, and never declared ``global`` in the module: named constants."""
        bound: dict[str, int] = {}
        for node in ast.walk(self.tree):
            if isinstance(node, ast.Global):
                for n in node.names:
                    bound[n] = bound.get(n, 0) + 2
        def module_level(nodes):
            """Every node executed at import time: the whole module except the bodies of functions, classes and lambdas."""
            for n in nodes:
                yield n
                if isinstance(n, (ast.FunctionDef, ast.AsyncFunctionDef, ast.ClassDef, ast.Lambda)):
                    continue
                yield from module_level(ast.iter_child_nodes(n))
        for sub in module_level(self.tree.body):
            names = []
            if isinstance(sub, (ast.FunctionDef, ast.AsyncFunctionDef, ast.ClassDef)):
                names = [sub.name]
            elif isinstance(sub, ast.Name) and isinstance(sub.ctx, (ast.Store, ast.Del)):
                names = [sub.id]
            elif isinstance(sub, ast.alias):
                names = [(sub.asname or sub.name).split(".")[0]]
            for n in names:
                bound[n] = bound.get(n, 0) + 1
        out: dict[str, object] = {}
        for name, v in self.assigns.items():
            if bound.get(name) != 1:
                continue
            if isinstance(v, ast.Constant) and (v.value is None or isinstance(v.value, (bool, int, float, str))):
                out[name] = v.value
            elif isinstance(v, ast.UnaryOp) and isinstance(v.op, ast.USub) and isinstance(v.operand, ast.Constant) \
                    and isinstance(v.operand.value, (int, float)) and not isinstance(v.operand.value, bool):
                out[name] = -v.operand.value
            elif isinstance(v, ast.Call) and not v.keywords and len(v.args) == 1 and isinstance(v.args[0], ast.Constant) and dotted(v.func) \
                    and self._imported_qual(dotted(v.func)) in ("operator.attrgetter", "operator.itemgetter"):
                out[name] = (self, v)           # a closed constructor of a pure accessor: _coalition_id = attrgetter("id")
            elif isinstance(v, ast.Call) and isinstance(v.func, ast.Name) and v.func.id == "slice" and not v.keywords and 1 <= len(v.args) <= 3 \
                    and "slice" not in self.defs and "slice" not in self.imports and all(_closed_int(a) for a in v.args):
                out[name] = (self, v)           # a named slice of constants: _BOUNDS = slice(_Column.LOWER, _Column.UPPER + 1), _ALL_ROWS = slice(None)
            elif isinstance(v, ast.Tuple) and v.elts and all(
                    isinstance(x, ast.Tuple) and x.elts and all(isinstance(y, ast.Constant) and (y.value is None or isinstance(y.value, (bool, int, float, str))) for y in x.elts)
                    for x in v.elts):
                out[name] = (self, v)           # an immutable table of scalar rows: _STEM_ESCAPES = (("%", "%25"), ("/", "%2F"))
            elif isinstance(v, ast.Tuple) and v.elts and all(isinstance(x, ast.Constant) and (x.value is None or isinstance(x.value, (bool, int, float, str)))
                                                             for x in v.elts):
                out[name] = (self, v)           # an immutable tuple of scalar literals: RECORD_FIELDS = ("data", "actions", "metadata")
        return out

    def _imported_qual(self, d: str) -> str:
        """`attrgetter` / `operator.attrgetter` / `op.attrgetter` -> the imported qualified name."""
        head, _, rest = d.partition(".")
        base = self.imports.get(head, head)
        return base + ("." + rest if rest else "")

    def _toplevel(self, body: list[ast.stmt]) -> Iterator[ast.stmt]:
        """Top-level statements, looking through ``if``/``try`` used for version switches."""
        for node in body:
            if isinstance(node, ast.If):
                yield from self._toplevel(node.body)
                yield from self._toplevel(node.orelse)
            elif isinstance(node, ast.Try):
                yield from self._toplevel(node.body)
            else:
                yield node

    def rel(self) -> str:
        try:
            return str(self.path.relative_to(repo_root()))
        except ValueError:
            return str(self.path)


class FuncRef:
    """A function or method together with the module (and class) it lives in."""

    def __init__(self, module: Module, node: ast.FunctionDef, cls: ast.ClassDef | None = None) -> None:
        self.module = module
        self.node = node
        self.cls = cls

    @property
    def qual(self) -> str:
        if self.cls is not None:
            return f"{self.module.name}.{self.cls.name}.{self.node.name}"
        return f"{self.module.name}.{self.node.name}"

    @property
    def short(self) -> str:
        q = self.qual
        return q[len(PKG) + 1:] if q.startswith(PKG + ".") else q

    def where(self, node: ast.AST | None = None) -> str:
        n = node if node is not None and hasattr(node, "lineno") else self.node
        return f"{self.module.rel()}:{n.lineno}"

    def params(self) -> list[str]:
        a = self.node.args
        return [x.arg for x in a.posonlyargs + a.args] + ([a.vararg.arg] if a.vararg else []) \
            + [x.arg for x in a.kwonlyargs] + ([a.kwarg.arg] if a.kwarg else [])

    def positional_params(self) -> list[str]:
        a = self.node.args
        return [x.arg for x in a.posonlyargs + a.args]

    def is_property(self) -> bool:
        return any(isinstance(d, ast.Name) and d.id == "property" for d in self.node.decorator_list)

    def decorators(self) -> list[str]:
        return [dotted(d) or "" for d in self.node.decorator_list]


class Program:
    """All parsed units of the repository plus resolution helpers."""

    def __init__(self, root: Path | None = None, overrides: dict[str, ast.Module] | None = None) -> None:
        self.root = Path(root) if root is not None else repo_root()
        self.modules: dict[str, Module] = {}
        self.units: list[str] = []
        self.digest = hashlib.sha256()
        overrides = overrides or {}
        pkg_dir = self.root / PKG
        if not pkg_dir.is_dir():
            raise AnchorMissing(f"package directory {pkg_dir} not found")
        files = sorted(p for p in pkg_dir.rglob("*.py") if "tests" not in p.relative_to(pkg_dir).parts)
        if not files:
            raise AnchorMissing(f"no python units under {pkg_dir}")
        for p in files:
            rel = p.relative_to(self.root)
            parts = list(rel.with_suffix("").parts)
            if parts[-1] == "__init__":
                parts = parts[:-1]
            name = ".".join(parts)
            key = str(rel)
            try:
                src = p.read_text()
            except OSError as e:  # pragma: no cover
                raise AnalysisError(f"cannot read {p}: {e}")
            self.digest.update(key.encode() + b"\0" + src.encode() + b"\0")
            if key in overrides:
                tree = overrides[key]
            else:
                try:
                    tree = ast.parse(src, filename=str(p))
                except SyntaxError as e:
                    raise AnalysisError(f"unit {key} does not parse: {e}")
            from .desugar import desugar
            self.modules[name] = Module(name, p, src, desugar(tree), primary=True)
            self.units.append(key)

    # ---------------------------------------------------------------- lookup
    def module(self, name: str) -> Module:
        full = name if name.startswith(PKG) else f"{PKG}.{name}"
        if full not in self.modules:
            raise AnchorMissing(f"module {full} not found")
        return self.modules[full]

    def has_module(self, name: str) -> bool:
        full = name if name.startswith(PKG) else f"{PKG}.{name}"
        return full in self.modules

    def func(self, qual: str) -> FuncRef:
        """``bounds.compute_bounds_superadditive`` or ``game.IncompleteCooperativeGame.set_value``."""
        r = self.find_func(qual)
        if r is None:
            raise AnchorMissing(f"function {qual} not found")
        return r

    def find_func(self, qual: str) -> FuncRef | None:
        full = qual if qual.startswith(PKG + ".") else f"{PKG}.{qual}"
        target = self.chase(full)
        parts = target.split(".")
        for cut in range(len(parts) - 1, 0, -1):
            mod = ".".join(parts[:cut])
            if mod in self.modules:
                rest = parts[cut:]
                m = self.modules[mod]
                if len(rest) == 1 and isinstance(m.defs.get(rest[0]), ast.FunctionDef):
                    return FuncRef(m, m.defs[rest[0]])  # type: ignore[arg-type]
                if len(rest) == 2 and isinstance(m.defs.get(rest[0]), ast.ClassDef):
                    c = m.defs[rest[0]]
                    for n in c.body:  # type: ignore[attr-defined]
                        if isinstance(n, ast.FunctionDef) and n.name == rest[1]:
                            return FuncRef(m, n, c)  # type: ignore[arg-type]
                return None
        return None

    def cls(self, qual: str) -> tuple[Module, ast.ClassDef]:
        full = qual if qual.startswith(PKG + ".") else f"{PKG}.{qual}"
        target = self.chase(full)
        mod, _, name = target.rpartition(".")
        if mod in self.modules and isinstance(self.modules[mod].defs.get(name), ast.ClassDef):
            return self.modules[mod], self.modules[mod].defs[name]  # type: ignore[return-value]
        raise AnchorMissing(f"class {qual} not found")

    def methods(self, qual: str) -> dict[str, FuncRef]:
        m, c = self.cls(qual)
        return {n.name: FuncRef(m, n, c) for n in c.body if isinstance(n, ast.FunctionDef)}

    def call_signature(self, f) -> list[str] | None:
        """Positional parameter names of the callee of a call whose function term is ``f`` - when the callee is certain:
        a plain package function, a package class (its __init__), or a method name defined by exactly one package class.
        Used to record keyword arguments in positional form (so that f(a, b) and f(x=a, y=b) are the same term)."""
        cache = self.__dict__.setdefault("_sig_cache", {})
        if "__methods__" not in cache:
            meths: dict[str, list] = {}
            for m in self.modules.values():
                if "/tests/" in m.rel():
                    continue
                for d in m.defs.values():
                    if isinstance(d, ast.ClassDef) and not any(isinstance(b, ast.Name) and b.id == "Protocol" or isinstance(b, ast.Attribute) and b.attr == "Protocol" for b in d.bases):
                        for n in d.body:
                            if isinstance(n, ast.FunctionDef):
                                meths.setdefault(n.name, []).append(n)
            cache["__methods__"] = meths
        node = None
        drop_self = False
        if isinstance(f, tuple) and f[0] == "global" and f[1].startswith(PKG + "."):
            key = f[1]
            if key in cache:
                return cache[key]
            r = self.find_func(f[1])
            if r is not None:
                node, drop_self = r.node, r.cls is not None and not any(isinstance(d, ast.Name) and d.id == "staticmethod" for d in r.node.decorator_list)
            else:
                try:
                    _m, c = self.cls(f[1])
                    for n in c.body:
                        if isinstance(n, ast.FunctionDef) and n.name == "__init__":
                            node, drop_self = n, True
                except Exception:
                    node = None
            sig = None
            if node is not None and not node.args.vararg and not any(isinstance(d, ast.Name) and d.id in ("property",) for d in node.decorator_list):
                sig = [a.arg for a in node.args.posonlyargs + node.args.args]
                if drop_self and sig:
                    sig = sig[1:]
            cache[key] = sig
            return sig
        if isinstance(f, tuple) and f[0] == "attr" and isinstance(f[2], str):
            ds = cache["__methods__"].get(f[2])
            if ds and len(ds) == 1 and not ds[0].args.vararg and not ds[0].decorator_list and not f[2].startswith("__"):
                sig = [a.arg for a in ds[0].args.posonlyargs + ds[0].args.args]
                return sig[1:] if sig and sig[0] in ("self", "cls") else None
        return None

    PKG = PKG

    def vocabulary(self) -> set[str]:
        """Every identifier that occurs in the rule sources: what the rules know by name."""
        cache = self.__dict__.setdefault("_inl_cache", {})
        if "__vocab__" not in cache:
            import re
            here = Path(__file__).resolve().parent
            text = "\n".join(p.read_text() for p in list((here / "rules").glob("*.py")) + [here / "bounds_domain.py", here / "bitalg.py"])
            cache["__vocab__"] = set(re.findall(r"[A-Za-z_][A-Za-z_0-9]*", text))
        return cache["__vocab__"]

    def named_constant(self, qual: str) -> tuple[bool, object]:
        """(True, value) when ``qual`` is a package module-level named constant (bound once to a scalar literal, never declared global,
        never stored through a module attribute anywhere in the package) that no rule knows by name: the term layer reads it through."""
        cache = self.__dict__.setdefault("_const_cache", {})
        if qual in cache:
            return cache[qual]
        res: tuple[bool, object] = (False, None)
        q = self.chase(qual)
        mod, _, name = q.rpartition(".")
        m = self.modules.get(mod)
        if m is None and mod.rpartition(".")[0] in self.modules:
            # Class.MEMBER of a package IntEnum: the member IS its integer value (compares, indexes and converts like it)
            members = self.int_enum_members(mod)
            if members is not None and name in members:
                cache[qual] = (True, members[name])
                return cache[qual]
        if m is not None and name in m.constants and name not in self.vocabulary() and not name.startswith("__"):
            if "__attr_stores__" not in cache:
                cache["__attr_stores__"] = {n.attr for mm in self.modules.values() for n in ast.walk(mm.tree)
                                            if isinstance(n, ast.Attribute) and isinstance(n.ctx, (ast.Store, ast.Del))}
            if name not in cache["__attr_stores__"]:
                res = (True, m.constants[name])
        cache[qual] = res
        return res

    def int_enum_members(self, class_qual: str) -> dict[str, int] | None:
        """{member: value} of a package class derived from enum.IntEnum whose members are integer literals (None for anything else)."""
        cache = self.__dict__.setdefault("_enum_cache", {})
        if class_qual in cache:
            return cache[class_qual]
        res = None
        mod, _, cname = class_qual.rpartition(".")
        m = self.modules.get(mod)
        d = m.defs.get(cname) if m is not None else None
        if isinstance(d, ast.ClassDef) and any(self.resolve(m, b) in ("enum.IntEnum",) for b in d.bases) and cname not in self.vocabulary():
            out: dict[str, int] = {}
            ok = True
            for st in d.body:
                if isinstance(st, ast.Assign) and len(st.targets) == 1 and isinstance(st.targets[0], ast.Name):
                    try:
                        v = const_value(st.value)
                    except ValueError:
                        ok = False
                        break
                    if type(v) is not int:
                        ok = False
                        break
                    out[st.targets[0].id] = v
            if ok and out:
                res = out
        cache[class_qual] = res
        return res

    def namedtuple_fields(self, qual: str | None) -> list[str] | None:
        """Field names, in order, of a package class derived from typing.NamedTuple (None for anything else)."""
        if not qual:
            return None
        cache = self.__dict__.setdefault("_nt_cache", {})
        if qual in cache:
            return cache[qual]
        res = None
        q = self.chase(qual)
        mod, _, name = q.rpartition(".")
        m = self.modules.get(mod)
        d = m.defs.get(name) if m is not None else None
        if isinstance(d, ast.ClassDef) and any(self.resolve(m, b) in ("typing.NamedTuple", "typing_extensions.NamedTuple") for b in d.bases):
            res = [st.target.id for st in d.body if isinstance(st, ast.AnnAssign) and isinstance(st.target, ast.Name)]
        elif isinstance(d, ast.ClassDef) and not d.bases and not d.keywords:
            # a FROZEN dataclass without a hand-written constructor is a record of its fields in declaration order, like a NamedTuple
            frozen = False
            for dec in d.decorator_list:
                if isinstance(dec, ast.Call) and self.resolve(m, dec.func) == "dataclasses.dataclass" \
                        and any(k.arg == "frozen" and isinstance(k.value, ast.Constant) and k.value.value is True for k in dec.keywords):
                    frozen = True
            own = {st.name for st in d.body if isinstance(st, ast.FunctionDef)}
            if frozen and not own & {"__init__", "__post_init__", "__new__", "__getattr__", "__getattribute__"}:
                fields = [st for st in d.body if isinstance(st, ast.AnnAssign) and isinstance(st.target, ast.Name)]
                if fields and all(st.value is None for st in fields) and not any("ClassVar" in ast.unparse(st.annotation) for st in fields):
                    res = [st.target.id for st in fields]
        cache[qual] = res
        return res

    def returned_namedtuple(self, func_qual: str) -> list[str] | None:
        """Fields of the NamedTuple class a package function is annotated to return."""
        r = self.find_func(func_qual)
        if r is None or r.node.returns is None:
            return None
        ann = r.node.returns
        if isinstance(ann, ast.Constant) and isinstance(ann.value, str):
            try:
                ann = ast.parse(ann.value, mode="eval").body
            except SyntaxError:
                return None
        return self.namedtuple_fields(self.resolve(r.module, ann)) if isinstance(ann, (ast.Name, ast.Attribute)) else None

    def returned_record_class(self, func_qual: str) -> str | None:
        """Qualified name of the record class (NamedTuple / frozen dataclass) a package function is annotated to return."""
        r = self.find_func(func_qual)
        if r is None or r.node.returns is None:
            return None
        ann = r.node.returns
        if isinstance(ann, ast.Constant) and isinstance(ann.value, str):
            try:
                ann = ast.parse(ann.value, mode="eval").body
            except SyntaxError:
                return None
        if not isinstance(ann, (ast.Name, ast.Attribute)):
            return None
        q = self.resolve(r.module, ann)
        return self.chase(q) if q and self.namedtuple_fields(q) is not None else None

    def inlinable(self, ref: "FuncRef", allow_decorated: bool = False) -> bool:
        """A package function that NO rule knows by name (its name occurs nowhere in the rule sources), is not a generator and is short:
        the term layer reads such helpers through.  The vocabulary is computed once from the text of icgsa/rules and icgsa/bounds_domain."""
        cache = self.__dict__.setdefault("_inl_cache", {})
        if (ref.qual, allow_decorated) in cache:
            return cache[(ref.qual, allow_decorated)]
        n = ref.node
        # a member of a record class (frozen dataclass / NamedTuple) whose CLASS no rule knows is private to that record, whatever its name
        record_member = ref.cls is not None and ref.cls.name not in self.vocabulary() and self.namedtuple_fields(f"{ref.module.name}.{ref.cls.name}") is not None
        ok = (n.name not in self.vocabulary() or record_member) and not n.name.startswith("__") and (allow_decorated or not n.decorator_list) and \
            not any(isinstance(x, (ast.Yield, ast.YieldFrom, ast.Global, ast.Nonlocal, ast.AsyncFunctionDef, ast.ClassDef, ast.Lambda and ast.FunctionDef)) for x in ast.walk(n) if x is not n) \
            and sum(1 for x in ast.walk(n) if isinstance(x, ast.stmt)) <= 25
        cache[(ref.qual, allow_decorated)] = ok
        return ok

    def all_functions(self) -> Iterator[FuncRef]:
        for m in self.modules.values():
            for d in m.defs.values():
                if isinstance(d, ast.FunctionDef):
                    yield FuncRef(m, d)
                elif isinstance(d, ast.ClassDef):
                    for n in d.body:
                        if isinstance(n, ast.FunctionDef):
                            yield FuncRef(m, n, d)

    # ---------------------------------------------------------------- resolution
    def chase(self, qual: str, depth: int = 8) -> str:
        """Follow re-exports: ``pkg.solvers.GreedySolver`` -> ``pkg.solvers.greedy.GreedySolver``."""
        for _ in range(depth):
            parts = qual.split(".")
            moved = False
            for cut in range(len(parts) - 1, 0, -1):
                mod = ".".join(parts[:cut])
                if mod in self.modules:
                    m = self.modules[mod]
                    head = parts[cut]
                    if head in m.defs or head in m.assigns:
                        return qual
                    if head in m.imports:
                        qual = ".".join([m.imports[head]] + parts[cut + 1:])
                        moved = True
                    break
            if not moved:
                return qual
        return qual

    def resolve(self, module: Module, expr: ast.AST, local_names: Iterable[str] = ()) -> str | None:
        """Qualified dotted name of a Name/Attribute chain, through the module's imports."""
        d = dotted(expr)
        if d is None:
            return None
        head, _, rest = d.partition(".")
        if head in local_names:
            return None
        if head in module.imports:
            q = module.imports[head] + ("." + rest if rest else "")
        elif head in module.defs or head in module.assigns:
            q = f"{module.name}.{d}"
        else:
            q = d  # builtin or unknown global
        return self.chase(q)

    def global_value(self, qual: str) -> tuple[Module, ast.expr] | None:
        """The expression assigned to a module-level name (``norms.l2_norm`` -> ``partial(...)``)."""
        q = self.chase(qual)
        mod, _, name = q.rpartition(".")
        if mod in self.modules and name in self.modules[mod].assigns:
            return self.modules[mod], self.modules[mod].assigns[name]
        return None

    def fingerprint(self) -> str:
        return self.digest.hexdigest()[:16]


# --------------------------------------------------------------------------------------
# small AST helpers
# --------------------------------------------------------------------------------------

def dotted(expr: ast.AST) -> str | None:
    if isinstance(expr, ast.Name):
        return expr.id
    if isinstance(expr, ast.Attribute):
        b = dotted(expr.value)
        return None if b is None else f"{b}.{expr.attr}"
    return None


def src(node: ast.AST | None) -> str:
    """Normalised source text of a node (used in finding keys; independent of layout)."""
    if node is None:
        return ""
    try:
        return ast.unparse(node)
    except Exception:  # pragma: no cover
        return ast.dump(node)


def _closed_int(e: ast.expr) -> bool:
    """An expression built from integer literals, None and dotted names (enum members, other constants) with + and -: nothing that runs code."""
    if isinstance(e, ast.Constant):
        return e.value is None or type(e.value) is int
    if isinstance(e, ast.Name):
        return True
    if isinstance(e, ast.Attribute):
        return _closed_int(e.value)
    if isinstance(e, ast.BinOp) and isinstance(e.op, (ast.Add, ast.Sub)):
        return _closed_int(e.left) and _closed_int(e.right)
    if isinstance(e, ast.UnaryOp) and isinstance(e.op, ast.USub):
        return _closed_int(e.operand)
    return False


def const_value(expr: ast.AST):
    """Python value of a literal expression, or raise ValueError."""
    if isinstance(expr, ast.Constant):
        return expr.value
    if isinstance(expr, ast.UnaryOp) and isinstance(expr.op, ast.USub):
        return -const_value(expr.operand)
    if isinstance(expr, (ast.List, ast.Tuple)):
        return [const_value(e) for e in expr.elts]
    raise ValueError(src(expr))


def walk_no_nested(node: ast.AST) -> Iterator[ast.AST]:
    """ast.walk that does not descend into nested function/class definitions (lambdas are kept)."""
    todo = [node]
    first = True
    while todo:
        n = todo.pop()
        if not first and isinstance(n, (ast.FunctionDef, ast.AsyncFunctionDef, ast.ClassDef)):
            continue
        first = False
        yield n
        todo.extend(reversed(list(ast.iter_child_nodes(n))))


def calls_in(node: ast.AST) -> list[ast.Call]:
    """Calls below ``node`` in evaluation order (arguments before the call they feed)."""
    out: list[ast.Call] = []

    def rec(n: ast.AST) -> None:
        if isinstance(n, (ast.FunctionDef, ast.AsyncFunctionDef, ast.ClassDef)) and n is not node:
            return
        for c in ast.iter_child_nodes(n):
            rec(c)
        if isinstance(n, ast.Call):
            out.append(n)
    rec(node)
    return out


def call_name(call: ast.Call) -> str | None:
    """Last attribute / name of the callee: ``game.set_value(..)`` -> ``set_value``."""
    f = call.func
    if isinstance(f, ast.Attribute):
        return f.attr
    if isinstance(f, ast.Name):
        return f.id
    return None


def clone(tree: ast.AST) -> ast.AST:
    return copy.deepcopy(tree)


def bound_names(func: ast.FunctionDef | ast.Lambda) -> set[str]:
    """Names bound inside a function: parameters, assignment/loop/with/except targets, comprehensions."""
    names: set[str] = set()
    a = func.args
    for x in a.posonlyargs + a.args + a.kwonlyargs:
        names.add(x.arg)
    if a.vararg:
        names.add(a.vararg.arg)
    if a.kwarg:
        names.add(a.kwarg.arg)
    body = func.body if isinstance(func.body, list) else [func.body]
    for stmt in body:
        for n in walk_no_nested(stmt):
            if isinstance(n, ast.Name) and isinstance(n.ctx, (ast.Store, ast.Del)):
                names.add(n.id)
            elif isinstance(n, ast.ExceptHandler) and n.name:
                names.add(n.name)
            elif isinstance(n, (ast.FunctionDef, ast.ClassDef)):
                names.add(n.name)
            elif isinstance(n, (ast.Import, ast.ImportFrom)):
                for al in n.names:
                    names.add((al.asname or al.name).split(".")[0])
    # ``global x`` declarations un-bind
    for stmt in body:
        for n in walk_no_nested(stmt):
            if isinstance(n, ast.Global):
                names.difference_update(n.names)
    return names


# --------------------------------------------------------------------------------------
# registries: dict literals with ``**{comprehension over literals}`` and ``partial``
# --------------------------------------------------------------------------------------

class Partial:
    """``functools.partial(target, *args, **kwargs)`` (possibly nested), statically unwrapped."""

    def __init__(self, target: ast.expr, args: list[ast.expr], kwargs: dict[str, ast.expr],
                 module: Module, env: dict[str, object] | None = None) -> None:
        self.target = target
        self.args = args
        self.kwargs = kwargs
        self.module = module
        self.env = env or {}

    def __repr__(self) -> str:  # pragma: no cover
        return f"Partial({src(self.target)}, {[src(a) for a in self.args]}, { {k: src(v) for k, v in self.kwargs.items()} })"


class RegistryEntry:
    def __init__(self, key: object, value: ast.expr, module: Module, env: dict[str, object], node: ast.AST) -> None:
        self.key = key
        self.value = value
        self.module = module
        self.env = env          # comprehension variable bindings (constant-folded)
        self.node = node


def _fold(expr: ast.expr, env: dict[str, object]):
    """Constant-fold a key expression under comprehension bindings."""
    if isinstance(expr, ast.Constant):
        return expr.value
    if isinstance(expr, ast.Name) and expr.id in env:
        v = env[expr.id]
        if isinstance(v, ast.AST):
            raise ValueError(src(expr))
        return v
    if isinstance(expr, ast.JoinedStr):
        out = ""
        for v in expr.values:
            if isinstance(v, ast.Constant):
                out += str(v.value)
            elif isinstance(v, ast.FormattedValue) and v.format_spec is None and v.conversion == -1:
                out += str(_fold(v.value, env))
            else:
                raise ValueError(src(expr))
        return out
    if isinstance(expr, ast.UnaryOp) and isinstance(expr.op, ast.USub):
        return -_fold(expr.operand, env)
    raise ValueError(src(expr))


def _literal_iter(expr: ast.expr, env: dict[str, object]) -> list[object]:
    """Elements of a literal iterable: list/tuple literal, ``range`` of constants, ``{...}.items()``."""
    if isinstance(expr, (ast.List, ast.Tuple, ast.Set)):
        out = []
        for e in expr.elts:
            try:
                out.append(_fold(e, env))
            except ValueError:
                out.append(e)
        return out
    if isinstance(expr, ast.Call) and isinstance(expr.func, ast.Name) and expr.func.id == "range" and not expr.keywords:
        return list(range(*[_fold(a, env) for a in expr.args]))
    if isinstance(expr, ast.Call) and isinstance(expr.func, ast.Attribute) and expr.func.attr == "items" \
            and isinstance(expr.func.value, ast.Dict) and not expr.args:
        d = expr.func.value
        items = []
        for k, v in zip(d.keys, d.values):
            if k is None:
                raise ValueError("** inside literal items()")
            items.append((_fold(k, env), v))
        return items
    # a table built earlier (local of a table-building helper, or a module-level dict display named once): keys, .items(), .values()
    tab_expr, view = expr, "keys"
    if isinstance(expr, ast.Call) and isinstance(expr.func, ast.Attribute) and expr.func.attr in ("items", "keys", "values") \
            and not expr.args and not expr.keywords:
        tab_expr, view = expr.func.value, expr.func.attr
    if isinstance(tab_expr, ast.Name):
        table = _table_named(tab_expr.id, env)
        if table is not None:
            return [(e.key, e) if view == "items" else e.key if view == "keys" else e for e in table]
    if isinstance(expr, ast.Name) and isinstance(env.get("__module__"), Module):
        # a module-level tuple / list literal named once (_SAM_APX_REPETITIONS = (1, 10, 100, 1000))
        m = env["__module__"]
        v = m.assigns.get(expr.id)
        if isinstance(v, (ast.Tuple, ast.List)) and expr.id not in {n for n in env if n != "__module__"}:
            return _literal_iter(v, env)
    raise ValueError(f"not a literal iterable: {src(expr)}")


_ENV_INTERNAL = ("__module__", "__tables__", "__busy__")


def _table_named(name: str, env: dict[str, object]) -> "list[RegistryEntry] | None":
    """The entries of a table a name stands for: a local of the table-building helper being read, or a module-level name
    bound once to something ``expand_dict`` can read (and never modified at import time)."""
    tables = env.get("__tables__")
    if isinstance(tables, dict) and name in tables:
        return list(tables[name])
    if name in {n for n in env if n not in _ENV_INTERNAL}:
        return None
    m = env.get("__module__")
    if not isinstance(m, Module):
        return None
    v = m.assigns.get(name)
    busy = env.get("__busy__") or ()
    if v is None or name in busy or not isinstance(v, (ast.Dict, ast.DictComp, ast.Call, ast.BinOp)):
        return None
    stores = sum(1 for n in ast.walk(m.tree) if isinstance(n, ast.Name) and n.id == name and isinstance(n.ctx, (ast.Store, ast.Del)))
    touched = any(isinstance(n, ast.Subscript) and isinstance(n.ctx, (ast.Store, ast.Del)) and isinstance(n.value, ast.Name) and n.value.id == name
                  for n in ast.walk(m.tree)) or \
        any(isinstance(n, ast.Call) and isinstance(n.func, ast.Attribute) and isinstance(n.func.value, ast.Name) and n.func.value.id == name
            and n.func.attr in ("update", "pop", "popitem", "clear", "setdefault", "__setitem__", "__delitem__") for n in ast.walk(m.tree))
    if stores != 1 or touched:
        return None
    try:
        return expand_dict(v, m, {"__module__": m, "__busy__": tuple(busy) + (name,)})
    except AnalysisError:
        return None


def _bind(e2: dict[str, object], name: str, el: object) -> None:
    """Bind a comprehension / loop variable; an element that is a table entry brings the bindings its value was written under."""
    if isinstance(el, RegistryEntry):
        for k, v in el.env.items():
            if k in _ENV_INTERNAL or k == name:
                continue
            if k in e2 and e2[k] is not v and e2[k] != v:
                raise AnalysisError(f"table entry {el.key!r} was written under a binding of {k} that differs from the reader's")
            e2[k] = v
        e2[name] = el.value
    else:
        e2[name] = el


def _put(table: "list[RegistryEntry]", entry: RegistryEntry) -> None:
    for i, e in enumerate(table):
        if e.key == entry.key:
            table[i] = entry
            return
    table.append(entry)


def _resolve_lookups(value: ast.expr, env: dict[str, object]) -> tuple[ast.expr, dict[str, object]]:
    """``TABLE[key]`` inside a registry value, with TABLE a readable table and key statically known, is the value stored there."""
    extra: dict[str, object] = {}

    class T(ast.NodeTransformer):
        def visit_Subscript(self, node: ast.Subscript):
            self.generic_visit(node)
            if isinstance(node.ctx, ast.Load) and isinstance(node.value, ast.Name):
                table = _table_named(node.value.id, env)
                if table is not None:
                    try:
                        key = _fold(node.slice, env)
                    except ValueError:
                        return node
                    hit = [e for e in table if e.key == key]
                    if len(hit) == 1:
                        for k, v in hit[0].env.items():
                            if k in _ENV_INTERNAL:
                                continue
                            if (k in env and env[k] != v) or (k in extra and extra[k] != v):
                                return node
                            extra[k] = v
                        return hit[0].value
            return node
    if not any(isinstance(n, ast.Subscript) for n in ast.walk(value)):
        return value, extra
    import copy
    new = T().visit(copy.deepcopy(value))
    return new, extra


def _eval_table_function(fn: ast.FunctionDef, module: Module, env: dict[str, object]) -> list[RegistryEntry]:
    """Read a parameterless helper that builds and returns a table: dict displays, ``d[k] = v``, ``for`` loops over literal
    iterables, one final ``return`` of a display / comprehension / local table.  Constant folding only; anything else is refused."""
    tables: dict[str, list[RegistryEntry]] = {}
    base = {k: v for k, v in env.items() if k in ("__module__", "__busy__")}
    base["__tables__"] = tables
    result: list[list[RegistryEntry]] = []

    def run(stmts: list[ast.stmt], env: dict[str, object], top: bool) -> None:
        for st in stmts:
            if result:
                raise AnalysisError(f"table helper {fn.name}: statements after the return")
            if isinstance(st, ast.Expr) and isinstance(st.value, ast.Constant) and isinstance(st.value.value, str):
                continue
            if isinstance(st, ast.Pass):
                continue
            tgt = st.targets[0] if isinstance(st, ast.Assign) and len(st.targets) == 1 else st.target if isinstance(st, ast.AnnAssign) else None
            val = getattr(st, "value", None)
            if isinstance(tgt, ast.Name) and val is not None and isinstance(st, (ast.Assign, ast.AnnAssign)):
                tables[tgt.id] = expand_dict(val, module, env)
            elif isinstance(tgt, ast.Subscript) and isinstance(tgt.value, ast.Name) and tgt.value.id in tables and val is not None:
                try:
                    key = _fold(tgt.slice, env)
                except ValueError:
                    raise AnalysisError(f"table helper {fn.name}: key is not statically known: {src(tgt.slice)}")
                v2, extra = _resolve_lookups(val, env)
                _put(tables[tgt.value.id], RegistryEntry(key, v2, module, {**env, **extra}, tgt.slice))
            elif isinstance(st, ast.For) and not st.orelse:
                try:
                    elems = _literal_iter(st.iter, env)
                except ValueError as e:
                    raise AnalysisError(f"table helper {fn.name}: loop over a non-literal iterable: {e}")
                for el in elems:
                    e2 = dict(env)
                    if isinstance(st.target, ast.Name):
                        _bind(e2, st.target.id, el)
                    elif isinstance(st.target, ast.Tuple) and isinstance(el, tuple) and len(el) == len(st.target.elts) \
                            and all(isinstance(t, ast.Name) for t in st.target.elts):
                        for t, x in zip(st.target.elts, el):
                            _bind(e2, t.id, x)
                    else:
                        raise AnalysisError(f"table helper {fn.name}: unsupported loop target {src(st.target)}")
                    run(st.body, e2, False)
            elif isinstance(st, ast.Return) and top and st.value is not None:
                result.append(expand_dict(st.value, module, env))
            else:
                raise AnalysisError(f"table helper {fn.name}: statement not understood ({module.rel()}:{st.lineno}): {src(st)[:60]}")
    run(fn.body, base, True)
    if not result:
        raise AnalysisError(f"table helper {fn.name} does not end in a return")
    return result[0]


def expand_dict(expr: ast.expr, module: Module, env: dict[str, object] | None = None) -> list[RegistryEntry]:
    """Entries of a dict display, expanding ``**{k: v for ... in <literal>}`` statically."""
    env = dict(env or {})
    env.setdefault("__module__", module)
    out: list[RegistryEntry] = []
    # {..} | {..}: the union of two tables, the right one winning on equal keys (dict semantics)
    if isinstance(expr, ast.BinOp) and isinstance(expr.op, ast.BitOr):
        merged: list[RegistryEntry] = []
        for part in (expr.left, expr.right):
            for e in expand_dict(part, module, env):
                _put(merged, e)
        return merged
    # a table named earlier (local of a table helper / module-level display), possibly copied: d, dict(d), d.copy()
    inner = expr
    if isinstance(inner, ast.Call) and isinstance(inner.func, ast.Name) and inner.func.id == "dict" and len(inner.args) == 1 and not inner.keywords \
            and isinstance(inner.args[0], ast.Name):
        inner = inner.args[0]
    if isinstance(inner, ast.Call) and isinstance(inner.func, ast.Attribute) and inner.func.attr == "copy" and not inner.args and not inner.keywords \
            and isinstance(inner.func.value, ast.Name):
        inner = inner.func.value
    if isinstance(inner, ast.Name):
        table = _table_named(inner.id, env)
        if table is not None:
            return [RegistryEntry(e.key, e.value, e.module, dict(e.env), e.node) for e in table]
    # a parameterless helper of the same module that builds the table
    if isinstance(expr, ast.Call) and isinstance(expr.func, ast.Name) and not expr.args and not expr.keywords:
        fn = module.defs.get(expr.func.id)
        busy = env.get("__busy__") or ()
        if isinstance(fn, ast.FunctionDef) and not fn.decorator_list and not (fn.args.args or fn.args.posonlyargs or fn.args.kwonlyargs
                                                                                or fn.args.vararg or fn.args.kwarg) \
                and ("fn:" + fn.name) not in busy:
            return _eval_table_function(fn, module, {**env, "__busy__": tuple(busy) + ("fn:" + fn.name,)})
    # dict(zip(NAMES, VALUES)) over literal sequences (given in place or named at module level)
    if isinstance(expr, ast.Call) and isinstance(expr.func, ast.Name) and expr.func.id == "dict" and len(expr.args) == 1 and not expr.keywords \
            and isinstance(expr.args[0], ast.Call) and isinstance(expr.args[0].func, ast.Name) and expr.args[0].func.id == "zip" \
            and len(expr.args[0].args) == 2 and not expr.args[0].keywords:
        def seq(e):
            if isinstance(e, ast.Name) and isinstance(module.assigns.get(e.id), (ast.Tuple, ast.List)):
                e = module.assigns[e.id]
            if isinstance(e, (ast.Tuple, ast.List)):
                return list(e.elts)
            raise AnalysisError(f"registry built from a non-literal sequence: {src(e)[:60]}")
        ks, vs = seq(expr.args[0].args[0]), seq(expr.args[0].args[1])
        for k, v in zip(ks, vs):
            try:
                key = _fold(k, env)
            except ValueError:
                raise AnalysisError(f"registry key is not statically known: {src(k)}")
            out.append(RegistryEntry(key, v, module, dict(env), k))
        return out
    if isinstance(expr, (ast.GeneratorExp, ast.ListComp)) and isinstance(expr.elt, ast.Tuple) and len(expr.elt.elts) == 2:
        # an iterable of (key, value) pairs, as accepted by dict(...) and dict.update(...)
        dc = ast.DictComp(key=expr.elt.elts[0], value=expr.elt.elts[1], generators=expr.generators)
        ast.copy_location(dc, expr)
        return expand_dict(dc, module, env)
    if isinstance(expr, ast.Dict):
        for k, v in zip(expr.keys, expr.values):
            if k is None:
                out.extend(expand_dict(v, module, env))
            else:
                try:
                    key = _fold(k, env)
                except ValueError:
                    # a key that is a module-level constant (DATA_FILE_NAME = "data.json")
                    cv = module.assigns.get(k.id) if isinstance(k, ast.Name) else None
                    if isinstance(cv, ast.Constant) and isinstance(cv.value, (str, int)):
                        key = cv.value
                    else:
                        raise AnalysisError(f"registry key is not statically known: {src(k)} ({module.rel()}:{k.lineno})")
                out.append(RegistryEntry(key, v, module, dict(env), k))
        return out
    if isinstance(expr, ast.DictComp):
        def rec(gens: list[ast.comprehension], env: dict[str, object]) -> None:
            if not gens:
                try:
                    key = _fold(expr.key, env)
                except ValueError:
                    raise AnalysisError(f"registry key is not statically known: {src(expr.key)}")
                v2, extra = _resolve_lookups(expr.value, env)
                out.append(RegistryEntry(key, v2, module, {**env, **extra}, expr.key))
                return
            g = gens[0]
            if g.ifs:
                raise AnalysisError(f"registry comprehension with a filter is not supported: {src(expr)}")
            try:
                elems = _literal_iter(g.iter, env)
            except ValueError as e:
                raise AnalysisError(f"registry comprehension over a non-literal iterable: {e}")
            for el in elems:
                e2 = dict(env)
                if isinstance(g.target, ast.Name):
                    _bind(e2, g.target.id, el)
                elif isinstance(g.target, ast.Tuple) and isinstance(el, tuple) and len(el) == len(g.target.elts):
                    for t, x in zip(g.target.elts, el):
                        if not isinstance(t, ast.Name):
                            raise AnalysisError(f"unsupported comprehension target {src(g.target)}")
                        _bind(e2, t.id, x)
                else:
                    raise AnalysisError(f"unsupported comprehension target {src(g.target)}")
                rec(gens[1:], e2)
        rec(list(expr.generators), env)
        return out
    raise AnalysisError(f"registry is not a dict display: {src(expr)[:80]}")


def registry(prog: Program, qual: str) -> list[RegistryEntry]:
    gv = prog.global_value(qual if qual.startswith(PKG) else f"{PKG}.{qual}")
    if gv is None:
        raise AnchorMissing(f"registry {qual} not found")
    module, expr = gv
    entries = expand_dict(expr, module)
    # growth of the registry at import time, after its definition: R.update({...} | pairs), R[k] = v, `for x in <literal>: R[k(x)] = v(x)`
    name = (qual if qual.startswith(PKG) else f"{PKG}.{qual}").rpartition(".")[2]
    definition = module.assign_nodes.get(name)
    after = False
    for st in module.tree.body:
        if st is definition:
            after = True
            continue
        if not after:
            continue

        def is_reg(e) -> bool:
            return isinstance(e, ast.Name) and e.id == name
        if isinstance(st, ast.Expr) and isinstance(st.value, ast.Call) and isinstance(st.value.func, ast.Attribute) and st.value.func.attr == "update" \
                and is_reg(st.value.func.value):
            if len(st.value.args) == 1 and not st.value.keywords:
                entries.extend(expand_dict(st.value.args[0], module))
            else:
                raise AnalysisError(f"registry {name} grown by an update() that is not statically known ({module.rel()}:{st.lineno})")
        elif isinstance(st, ast.Assign) and len(st.targets) == 1 and isinstance(st.targets[0], ast.Subscript) and is_reg(st.targets[0].value):
            d = ast.Dict(keys=[st.targets[0].slice], values=[st.value])
            ast.copy_location(d, st)
            entries.extend(expand_dict(d, module))
        elif isinstance(st, ast.For) and not st.orelse and len(st.body) == 1 and isinstance(st.body[0], ast.Assign) and len(st.body[0].targets) == 1 \
                and isinstance(st.body[0].targets[0], ast.Subscript) and is_reg(st.body[0].targets[0].value):
            dc = ast.DictComp(key=st.body[0].targets[0].slice, value=st.body[0].value,
                              generators=[ast.comprehension(target=st.target, iter=st.iter, ifs=[], is_async=0)])
            ast.copy_location(dc, st)
            entries.extend(expand_dict(dc, module))
        elif any(is_reg(n) and isinstance(n.ctx, (ast.Store, ast.Del)) for n in ast.walk(st)) or \
                any(isinstance(n, ast.Call) and isinstance(n.func, ast.Attribute) and is_reg(n.func.value)
                    and n.func.attr in ("update", "pop", "popitem", "clear", "setdefault", "__setitem__", "__delitem__") for n in ast.walk(st)):
            raise AnalysisError(f"registry {name} is modified at import time in a way that is not statically known ({module.rel()}:{st.lineno})")
    # later entries replace earlier ones with the same key (dict semantics), keeping the first position
    seen: dict[object, int] = {}
    out: list[RegistryEntry] = []
    for e in entries:
        if e.key in seen and definition is not None and e.node.lineno > getattr(definition, "end_lineno", 0):
            out[seen[e.key]] = e
        else:
            seen.setdefault(e.key, len(out))
            out.append(e)
    return out


def unwrap_partial(prog: Program, module: Module, expr: ast.expr, env: dict[str, object] | None = None,
                   depth: int = 6) -> tuple[ast.expr, list[ast.expr], dict[str, ast.expr], Module, dict[str, object]]:
    """Peel ``partial(f, *a, **kw)`` layers and module-level aliases.

    Returns (callee expression, positional args bound, keyword args bound, module of callee expr, env).
    Keyword values that are comprehension variables are substituted from ``env`` when they are ASTs.
    """
    env = dict(env or {})
    args: list[ast.expr] = []
    kwargs: dict[str, ast.expr] = {}
    for _ in range(depth):
        if isinstance(expr, ast.Name) and isinstance(env.get(expr.id), ast.AST):
            expr = env[expr.id]  # type: ignore[assignment]
            continue
        if isinstance(expr, ast.Call) and prog.resolve(module, expr.func) == "functools.partial" and expr.args:
            inner_args = list(expr.args[1:])
            inner_kw = {k.arg: k.value for k in expr.keywords if k.arg is not None}
            # outer partial's args come after the inner's
            args = inner_args + args
            for k, v in inner_kw.items():
                kwargs.setdefault(k, v)
            expr = expr.args[0]
            continue
        q = prog.resolve(module, expr)
        if q is not None:
            gv = prog.global_value(q)
            if gv is not None and isinstance(gv[1], (ast.Call, ast.Name, ast.Attribute)):
                m2, e2 = gv
                if isinstance(e2, ast.Call) and prog.resolve(m2, e2.func) != "functools.partial":
                    break
                module, expr = m2, e2
                continue
        break
    return expr, args, kwargs, module, env
