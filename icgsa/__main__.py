"""icgsa driver: ``python -m icgsa <ID> --tier quick|thorough`` (cwd /verif)."""
from __future__ import annotations

import argparse
import json
import sys
import time
import traceback
from pathlib import Path

from .core import AnalysisError, Program
from .report import Collector, finish


def run_rules(prog: Program, pid: str, col: Collector) -> list[str]:
    from .rules import PROPERTIES
    errors: list[str] = []
    for fn in PROPERTIES[pid]["rules"]:
        try:
            fn(prog, col)
        except AnalysisError as e:
            errors.append(f"{fn.__name__}: {e}")
        except Exception as e:  # internal error of the analysis: never a pass, never a violation
            tb = traceback.format_exc(limit=4).strip().splitlines()
            errors.append(f"{fn.__name__}: internal error {type(e).__name__}: {e} | {' / '.join(tb[-4:])}")
    return errors


def main(argv: list[str] | None = None) -> int:
    ap = argparse.ArgumentParser(prog="check")
    ap.add_argument("property", nargs="?")
    ap.add_argument("--tier", default=None, choices=["quick", "thorough"])
    ap.add_argument("--repo", default=None, help="analyse this tree instead of /repo (self-tests only)")
    ap.add_argument("--replay", default=None, help="re-evaluate the finding stored in this replay file")
    ap.add_argument("--no-evidence", action="store_true")
    ap.add_argument("--list", action="store_true")
    args = ap.parse_args(argv)
    import os
    tier = args.tier or os.environ.get("VERIF_TIER") or "quick"
    if tier not in ("quick", "thorough"):
        tier = "quick"
    from .rules import PROPERTIES
    if args.list:
        for k, v in PROPERTIES.items():
            print(k, v["title"])
        return 0
    replay_key = None
    pid = args.property
    if args.replay:
        data = json.loads(Path(args.replay).read_text())
        pid = data["property"]
        replay_key = data["key"]
    if pid not in PROPERTIES:
        print(f"ANALYSIS-ERROR unknown property {pid}")
        return 2
    if args.repo:
        os.environ["ICG_REPO"] = args.repo
    t0 = time.time()
    col = Collector(pid)
    errors: list[str] = []
    prog = None
    try:
        prog = Program(Path(args.repo) if args.repo else None)
    except AnalysisError as e:
        errors.append(f"loader: {e}")
    if prog is not None:
        errors += run_rules(prog, pid, col)
    extra = {"units_parsed": prog.units if prog else [], "tree_fingerprint": prog.fingerprint() if prog else ""}
    if replay_key is not None:
        hit = [f for f in col.findings if f.key == replay_key]
        for f in hit:
            print(f"VIOLATION property={pid} replay={args.replay} rule={f.rule} at {f.where}: {f.message}")
        if not hit:
            print(f"[{pid}] replayed finding no longer present on this tree")
        return 1 if hit else (2 if errors else 0)
    if tier == "thorough" and prog is not None:
        from .mutate import self_validate
        try:
            extra.update(self_validate(prog, pid, col, errors))
        except AnalysisError as e:
            errors.append(f"self-validation: {e}")
    spec = PROPERTIES[pid]
    return finish(col, tier, t0, spec["explanation"], spec["rule"], extra, errors,
                  write_evidence=not args.no_evidence)


if __name__ == "__main__":
    try:
        rc = main()
    except SystemExit:
        raise
    except BaseException as e:  # pragma: no cover
        print(f"ANALYSIS-ERROR internal: {type(e).__name__}: {e}")
        traceback.print_exc()
        rc = 2
    sys.stdout.flush()
    sys.exit(rc)
