"""Differential test for refactoring 2 (icg_gym.py: `reset` split in two, restructured `None` guard of `done`, Optional typing).

Run with cwd=/tmp/wt12/W08.  The ORIGINAL package is exported from git HEAD into a temporary directory; the same
scenario script (this file, `worker` mode) is executed once against the original and once against the working tree,
each in its own interpreter, and the pickled traces are compared exactly.
"""
import os
import pickle
import subprocess
import sys
import tempfile
from pathlib import Path

import numpy as np

WORKTREE = Path.cwd()
PYTHON = sys.executable


# --------------------------------------------------------------------------------------------------------------------
# worker: produce a trace
# --------------------------------------------------------------------------------------------------------------------
def _exc(e: BaseException):
    return ("EXC", type(e).__name__, str(e))


def _call(fn, *args, **kwargs):
    try:
        return fn(*args, **kwargs)
    except Exception as e:  # noqa
        return _exc(e)


def _norm(x):
    """Turn a result into something picklable and comparable without the package classes."""
    if isinstance(x, dict):
        return {"__dict__": [(k, _norm(v)) for k, v in x.items()]}
    if isinstance(x, tuple):
        return ("__tuple__", type(x).__name__, [_norm(v) for v in x])
    if isinstance(x, list):
        return [_norm(v) for v in x]
    if isinstance(x, np.ndarray):
        return ("__nd__", str(x.dtype), x.shape, x.copy())
    if isinstance(x, (np.generic,)):
        return ("__np__", type(x).__name__, x.item() if not np.isnan(x) else "nan")
    if isinstance(x, (bool, int, float, str, type(None))):
        return (type(x).__name__, x if not (isinstance(x, float) and x != x) else "nan")
    if hasattr(x, "get_values"):  # a game
        return ("__game__", type(x).__name__, _norm(np.asarray(x.get_values())))
    return ("__obj__", type(x).__name__, repr(x))


def _gym_fingerprint(env):
    """Everything observable about an `ICG_Gym`."""
    ig = env.incomplete_game
    return _norm([
        env.steps_taken, env.done_after_n_actions,
        np.asarray(ig.are_values_known()),
        np.asarray(ig.get_upper_bounds()), np.asarray(ig.get_lower_bounds()),
        np.asarray(env.full_game.get_values()), np.asarray(env.normalized_game.get_values()),
        _call(lambda: env.state), _call(lambda: env.reward), _call(lambda: env.done), _call(env.action_masks),
        [c.id for c in env.explorable_coalitions], [c.id for c in env.initially_known_coalitions],
        repr(env.observation_space), repr(env.action_space),
        None if env._np_random is None else env._np_random.bit_generator.state["state"]["state"],
    ])


def worker(out_path: str, expected_root: str) -> None:
    import incomplete_cooperative
    assert Path(incomplete_cooperative.__file__).resolve().is_relative_to(Path(expected_root).resolve()), \
        (incomplete_cooperative.__file__, expected_root)
    import incomplete_cooperative.generators as generators_module
    from incomplete_cooperative.bounds import BOUNDS, compute_bounds_superadditive
    from incomplete_cooperative.coalitions import Coalition
    from incomplete_cooperative.exploitability import compute_exploitability
    from incomplete_cooperative.game import IncompleteCooperativeGame
    from incomplete_cooperative.generators import GENERATORS
    from incomplete_cooperative.icg_gym import ICG_Gym, compute_reward
    from incomplete_cooperative.norms import l1_norm, l2_norm, linf_norm
    from incomplete_cooperative.run.model import ModelInstance

    # the graph generators draw from an unseeded module-level generator: pin its state so both runs see the same games
    generators_module._gen.bit_generator.state = np.random.default_rng(20240917).bit_generator.state

    trace = []
    cases = 0

    def episode(env, driver: np.random.Generator, tag, resets=2, bad_prob=0.12):
        nonlocal cases
        m = len(env.explorable_coalitions)
        trace.append((tag, "init", _gym_fingerprint(env)))
        for r in range(resets):
            if r == 0:
                res = _call(env.reset)
            elif r == 1:
                res = _call(env.reset, seed=int(driver.integers(1000)))
            else:
                res = _call(lambda: env.reset(seed=None, options={"x": 1}))
            trace.append((tag, "reset", r, _norm(res), _gym_fingerprint(env)))
            taken = []
            for t in range(2 * m + 3):
                mask = env.action_masks()
                u = driver.random()
                if u < bad_prob / 2:
                    action = int(driver.choice([-1, m, m + 2, -m - 1]))  # wrap-around or IndexError
                    kind = "step"
                elif u < bad_prob:
                    action = int(driver.integers(max(m, 1)))  # anything, maybe already known: assertion in the game
                    kind = "step" if driver.random() < 0.5 else "unstep"
                elif taken and u < bad_prob + 0.25:
                    action = taken[int(driver.integers(len(taken)))]
                    kind = "unstep"
                elif mask.any():
                    action = int(driver.choice(np.flatnonzero(mask)))
                    kind = "step"
                else:
                    action = int(driver.integers(max(m, 1)))
                    kind = "unstep"
                if driver.random() < 0.3:
                    action = np.int64(action)
                res = _call(getattr(env, kind), action)
                if not (isinstance(res, tuple) and len(res) == 3 and isinstance(res[0], str) and res[0] == "EXC"):
                    if kind == "step":
                        taken.append(int(action) % m)
                    elif int(action) % m in taken:
                        taken.remove(int(action) % m)
                trace.append((tag, kind, r, t, _norm(action), _norm(res), _gym_fingerprint(env)))
                cases += 1
                if env.done and driver.random() < 0.3:
                    break

    # (A) the environments the package itself builds
    generators = ["factory", "factory_fixed", "noisy_factory", "factory_cheerleader", "graph", "graph_poiss_1",
                  "predictible_factory", "noisy_factory_square", "factory_one"]
    gaps = ["exploitability", "l1_norm", "l2_norm", "linf_norm"]
    for gi, gen in enumerate(generators):
        for n in (3, 4, 5):
            for seed in (1, 7):
                for limit in (None, 0, 2, 100):
                    inst = ModelInstance(number_of_players=n, game_generator=gen, seed=seed, linear=False,
                                         run_steps_limit=limit, gap_function=gaps[(gi + n + seed) % 4],
                                         game_class="superadditive" if seed == 1 else "superadditive_cached")
                    env = _call(inst.get_env)
                    if isinstance(env, tuple):
                        trace.append((("A", gen, n, seed, limit), "build", env))
                        continue
                    episode(env, np.random.default_rng([gi, n, seed, 999 if limit is None else limit]),
                            ("A", gen, n, seed, limit), resets=3 if limit is None else 2)

    # (B) hand-built environments: odd known sets, numpy step limits (the type of `done` is observable), duplicate ids
    def build(n, known, seed, gap, limit):
        incomplete = IncompleteCooperativeGame(n, compute_bounds_superadditive)
        rng = np.random.default_rng(seed)
        gen = lambda: GENERATORS["noisy_factory"](n, rng)  # noqa
        return ICG_Gym(incomplete, gen, known, gap, limit) if seed % 2 else \
            ICG_Gym(incomplete, gen, known, gap, done_after_n_actions=limit)

    limits = [None, np.int64(2), np.int64(0), 1, 1.5, np.float64(3), True, -1]
    for n in (2, 3, 4, 5):
        ids = list(range(2 ** n))
        for seed in range(8):
            drv = np.random.default_rng([77, n, seed])
            if seed == 0:
                known = [Coalition(i) for i in ids]
            elif seed == 1:
                known = []
            elif seed == 2:
                known = (Coalition(i) for i in ids if i % 3 == 0 or bin(i).count("1") == 1)  # a one-shot iterable
            else:
                known = [Coalition(i) for i in ids if drv.random() < 0.4 or bin(i).count("1") == 1] * 2
            env = _call(build, n, known, seed, [compute_exploitability, l1_norm, l2_norm, linf_norm][seed % 4],
                        limits[(seed + n) % len(limits)])
            if isinstance(env, tuple):
                trace.append((("B", n, seed), "build", env))
                continue
            _call(episode, env, drv, ("B", n, seed), 3, 0.2)

    # (C) failing generators / gap functions: same exceptions, same partial effects
    class Boom(Exception):
        pass

    def failing_generator_factory(n, ok_calls):
        rng = np.random.default_rng(3)
        count = [0]

        def gen():
            count[0] += 1
            if count[0] > ok_calls:
                raise Boom(f"generator call {count[0]}")
            return GENERATORS["noisy_factory"](n, rng)
        return gen, count

    for ok_calls in range(0, 5):
        gen, count = failing_generator_factory(4, ok_calls)
        incomplete = IncompleteCooperativeGame(4, compute_bounds_superadditive)
        env = _call(ICG_Gym, incomplete, gen, [Coalition(1), Coalition(2), Coalition(4), Coalition(8)],
                    compute_exploitability, 3)
        entry = [("C", ok_calls), _norm(env) if isinstance(env, tuple) else "built", count[0],
                 _norm(np.asarray(incomplete.are_values_known()))]
        if not isinstance(env, tuple):
            for _ in range(3):
                entry.append(_norm(_call(env.step, 0)))
                entry.append(_norm(_call(env.reset)))
                entry.append(_gym_fingerprint(env))
                entry.append(count[0])
        trace.append(tuple(entry))
        cases += 1

    def bad_gap(game):
        raise Boom("gap")

    incomplete = IncompleteCooperativeGame(3, compute_bounds_superadditive)
    rng = np.random.default_rng(0)
    env = ICG_Gym(incomplete, lambda: GENERATORS["factory"](3, rng), [Coalition(1), Coalition(2), Coalition(4)], bad_gap,
                  np.int64(1))
    trace.append(("C2", _norm(_call(env.step, 0)), _norm(_call(lambda: env.done)), _norm(_call(lambda: env.reward)),
                  env.steps_taken, _norm(_call(env.unstep, 0)), env.steps_taken, _norm(_call(env.reset)),
                  _norm(_call(compute_reward, incomplete, l1_norm))))

    # (D) API surface
    trace.append(("D", [type(vars(ICG_Gym)[k]).__name__ for k in ("state", "done", "reward", "step", "unstep", "reset",
                                                                   "action_masks")],
                  ICG_Gym.__mro__[1].__name__, ICG_Gym.__doc__, ICG_Gym.reset.__doc__, ICG_Gym.done.__doc__))

    with open(out_path, "wb") as f:
        pickle.dump({"trace": trace, "cases": cases}, f)


# --------------------------------------------------------------------------------------------------------------------
# driver: compare the traces
# --------------------------------------------------------------------------------------------------------------------
def same(a, b, path=()):
    """Return None if identical, else the path of the first difference."""
    if type(a) is not type(b):
        return path, a, b
    if isinstance(a, np.ndarray):
        if a.dtype != b.dtype or a.shape != b.shape:
            return path, a, b
        ok = np.array_equal(a, b, equal_nan=True) if a.dtype.kind in "fc" else np.array_equal(a, b)
        return None if ok else (path, a, b)
    if isinstance(a, (list, tuple)):
        for i, (x, y) in enumerate(zip(a, b)):
            d = same(x, y, path + (i,))
            if d is not None:
                return d
        if len(a) != len(b):
            return path + ("len",), len(a), len(b)
        return None
    if isinstance(a, dict):
        if list(a.keys()) != list(b.keys()):
            return path + ("keys",), list(a), list(b)
        for k in a:
            d = same(a[k], b[k], path + (k,))
            if d is not None:
                return d
        return None
    return None if a == b else (path, a, b)


def run_worker(root: Path, out: Path) -> None:
    env = dict(os.environ, PYTHONPATH=str(root), OMP_NUM_THREADS="1", MKL_NUM_THREADS="1", PYTHONHASHSEED="0", PYTHONDONTWRITEBYTECODE="1")
    subprocess.run([PYTHON, str(Path(__file__).resolve()), "worker", str(out), str(root)],
                   cwd=str(root), env=env, check=True)


def main() -> int:
    with tempfile.TemporaryDirectory(prefix="equiv_orig_") as tmp:
        tmp_path = Path(tmp)
        orig_root = tmp_path / "orig"
        orig_root.mkdir()
        archive = subprocess.run(["git", "-C", str(WORKTREE), "archive", "HEAD", "incomplete_cooperative"],
                                 check=True, capture_output=True).stdout
        subprocess.run(["tar", "-x", "-C", str(orig_root)], input=archive, check=True)
        changed = subprocess.run(["git", "-C", str(WORKTREE), "diff", "--stat", "HEAD"], check=True,
                                 capture_output=True, text=True).stdout
        print("working tree differs from HEAD in:\n" + (changed or "  (nothing!)\n"), end="")
        run_worker(orig_root, tmp_path / "orig.pkl")
        run_worker(WORKTREE, tmp_path / "new.pkl")
        with open(tmp_path / "orig.pkl", "rb") as f:
            orig = pickle.load(f)
        with open(tmp_path / "new.pkl", "rb") as f:
            new = pickle.load(f)
    print(f"cases: {orig['cases']} (orig) / {new['cases']} (refactored); trace entries: {len(orig['trace'])}")
    diff = same(orig, new)
    if diff is None and orig["cases"] >= 300:
        print("EQUIVALENT")
        return 0
    print("DIFFERENT")
    if diff is not None:
        path, a, b = diff
        print("first difference at", path)
        if len(path) >= 2 and path[0] == "trace" and isinstance(path[1], int):
            print("entry (orig):", orig["trace"][path[1]][:5])
        print("orig:", a)
        print("new :", b)
    return 1


if __name__ == "__main__":
    if len(sys.argv) > 1 and sys.argv[1] == "worker":
        worker(sys.argv[2], sys.argv[3])
    else:
        sys.exit(main())
