"""Differential test for refactoring 3 (run/greedy.get_greedy_rewards: mean gap named once, np.flatnonzero for the ties).

Run with cwd=/tmp/wt10/U08.  The ORIGINAL package is taken from `git archive HEAD` into a temporary directory and
run in its own interpreter; the refactored working tree is run in another one; the pickled results are compared exactly.
"""
import os
import pickle
import subprocess
import sys
import tempfile

WORKTREE = "/tmp/wt10/U08"


# ----------------------------------------------------------------------------------------------------------------------
# worker: runs inside one of the two source trees
# ----------------------------------------------------------------------------------------------------------------------
def _freeze(obj):
    """Turn a result into something picklable and exactly comparable."""
    import numpy as np
    if isinstance(obj, np.ndarray):
        return ("nd", str(obj.dtype), obj.shape, obj.tobytes())
    if isinstance(obj, (np.generic,)):
        return ("npscalar", str(obj.dtype), obj.tobytes())
    if isinstance(obj, dict):
        return ("dict", tuple((k, _freeze(v)) for k, v in obj.items()))
    if isinstance(obj, (list, tuple)):
        return (type(obj).__name__, tuple(_freeze(x) for x in obj))
    return ("py", type(obj).__name__, repr(obj))


def _call(fn):
    try:
        return ("ok", _freeze(fn()))
    except BaseException as e:  # noqa
        return ("exc", type(e).__name__, str(e))


def worker(root: str, out: str) -> None:
    sys.path.insert(0, root)
    os.chdir(root)
    import warnings
    from argparse import Namespace
    from multiprocessing.pool import ThreadPool
    from random import Random

    import numpy as np

    import incomplete_cooperative
    assert os.path.realpath(incomplete_cooperative.__file__).startswith(os.path.realpath(root) + os.sep), \
        (incomplete_cooperative.__file__, root)
    import incomplete_cooperative.gameplay as gameplay
    import incomplete_cooperative.generators as generators_module
    import incomplete_cooperative.run.greedy as greedy
    from incomplete_cooperative.coalitions import Coalition
    from incomplete_cooperative.run.model import ModelInstance

    results = []
    warnings.simplefilter("always")

    def run_real(gen_name, n, seed, repetitions, max_steps, randomize):
        instance = ModelInstance(number_of_players=n, game_generator=gen_name, seed=seed, run_steps_limit=max_steps)
        env = instance.get_env()
        # the graph-weight family draws from the module level generator: seed it
        generators_module._gen.bit_generator.state = np.random.default_rng(seed + 5).bit_generator.state
        rng = Random(seed) if randomize else None
        with warnings.catch_warnings(record=True) as caught:
            warnings.simplefilter("always")
            exploitability, actions = greedy.get_greedy_rewards(env, max_steps, repetitions,
                                                                instance.gap_function_callable, 1, rng)
        return (exploitability, actions, [type(a).__name__ for a in actions], rng.getstate() if rng else None,
                env.incomplete_game._values.copy(), env.np_random.bit_generator.state,
                instance.game_generator_rng.bit_generator.state,
                sorted(str(w.message) for w in caught))

    # 1. a few runs with the real process pool ------------------------------------------------------------------------
    for gen_name, n, seed, repetitions, max_steps, randomize in [
            ("factory", 3, 0, 1, 8, False), ("factory", 3, 1, 2, 8, True), ("xos", 3, 2, 2, 2, True),
            ("graph_cycle", 4, 3, 1, 3, True), ("noisy_factory", 4, 4, 2, 2, False)]:
        results.append((("real_pool", gen_name, n, seed, repetitions, max_steps, randomize),
                        _call(lambda: run_real(gen_name, n, seed, repetitions, max_steps, randomize))))

    # 2. many runs with an in-process pool (same code path in `run/greedy.py`) -------------------------------------------
    gameplay.Pool = ThreadPool
    generators = ["factory", "factory_fixed", "factory_one", "noisy_factory", "factory_cheerleader",
                  "factory_cheerleader_next", "graph_cycle", "graph_random", "graph_ws_connected", "xos", "xos2", "xs",
                  "xs3", "oxs", "k_budget_generator", "covg_fn_generator", "predictible_factory", "graph"]
    for gen_i, gen_name in enumerate(generators):
        for n in (3, 4):
            for seed in range(2):
                for repetitions in (1, 3):
                    for max_steps in ((0, 1, 2**n) if n == 3 else (2, 2**n)):
                        for randomize in (False, True):
                            if n == 4 and max_steps == 2**n and (seed or repetitions == 3) and gen_i % 3:
                                continue
                            results.append((("thread_pool", gen_name, n, seed, repetitions, max_steps, randomize), _call(
                                lambda: run_real(gen_name, n, seed + 31 * gen_i, repetitions, max_steps, randomize))))

    # 3. `greedy_func` end to end: what is handed to `save` -------------------------------------------------------------
    saved = []
    greedy.save = lambda model_dir, unique_name, output: saved.append(
        (str(model_dir), unique_name, output.data.copy(), output.actions.copy(), output.data_list, output.actions_list))
    for gen_name in ("factory", "xos", "graph_cycle", "k_budget_generator"):
        for seed in range(3):
            for randomize in (False, True):
                for limit in (None, 0, 3):
                    instance = ModelInstance(number_of_players=3, game_generator=gen_name, seed=seed,
                                             run_steps_limit=limit, unique_name="u", parallel_environments=1)
                    args = Namespace(sampling_repetitions=2, func="greedy")
                    del saved[:]
                    results.append((("greedy_func", gen_name, seed, randomize, limit),
                                    (_call(lambda: greedy.greedy_func(instance, args, randomize)), _freeze(list(saved)),
                                     instance.run_steps_limit)))

    # 4. synthetic gap matrices: ties, near-ties inside EPSILON, NaN, inf -------------------------------------------------
    class FakeEnv:
        def __init__(self, n_coalitions):
            self.explorable_coalitions = [Coalition(i + 1) for i in range(n_coalitions)]
            self.incomplete_game = object()
            self.generated = 0

        def get_wrapper_attr(self, name):
            return getattr(self, name)

        def generator(self):
            self.generated += 1
            return self.generated

    case_rng = np.random.default_rng(2024)
    calls = []

    def make_fakes(kind, repetitions):
        def fake_single(game, games, sequence, gap_func, processes=1):
            calls.append(("single", len(list(games)), [c.id for c in sequence], processes))
            return iter(case_rng.integers(0, 3, repetitions).astype(float))

        def fake_stacked(game, games, sequences, gap_func, processes=1):
            sequences = list(sequences)
            calls.append(("stacked", len(games), [[c.id for c in s] for s in sequences], processes))
            for _ in sequences:
                if kind == 0:
                    row = case_rng.integers(0, 2, repetitions).astype(float)  # exact ties
                elif kind == 1:
                    row = 1.0 + case_rng.integers(0, 4, repetitions) * 4e-7  # around EPSILON
                elif kind == 2:
                    row = case_rng.random(repetitions)
                elif kind == 3:
                    row = case_rng.integers(0, 2, repetitions).astype(float)
                    if case_rng.random() < 0.15:
                        row[0] = np.nan
                elif kind == 4:
                    row = case_rng.choice([0.0, 1.0, np.inf, -np.inf], repetitions)
                else:
                    row = case_rng.integers(0, 2, repetitions)  # integer gaps
                yield row
        return fake_single, fake_stacked

    for case in range(600):
        kind = case % 6
        n_coalitions = int(case_rng.integers(0, 9))
        repetitions = int(case_rng.integers(1, 4))
        max_steps = int(case_rng.integers(0, n_coalitions + 3))
        randomize = case % 4 != 0
        processes = int(case_rng.integers(1, 3))
        greedy.get_exploitabilities_of_action_sequence, greedy.get_stacked_exploitabilities_of_action_sequences = \
            make_fakes(kind, repetitions)
        # the set of explorable coalitions is iterated: its order is a function of the ids only (hash(id)), the same in
        # both interpreters
        env = FakeEnv(n_coalitions)
        rng = Random(case) if randomize else None
        del calls[:]

        def run():
            with warnings.catch_warnings(record=True) as caught:
                warnings.simplefilter("always")
                res = greedy.get_greedy_rewards(env, max_steps, repetitions, None, processes, rng)
            return res, [type(a).__name__ for a in res[1]], sorted(str(w.message) for w in caught)
        results.append((("synthetic", case, kind, n_coalitions, repetitions, max_steps, randomize),
                        (_call(run), _freeze(list(calls)), env.generated,
                         _freeze(rng.getstate()) if rng else None, _freeze(case_rng.bit_generator.state))))

    with open(out, "wb") as f:
        pickle.dump(results, f)


# ----------------------------------------------------------------------------------------------------------------------
# driver
# ----------------------------------------------------------------------------------------------------------------------
def main() -> int:
    env = dict(os.environ, OMP_NUM_THREADS="1", MKL_NUM_THREADS="1", PYTHONDONTWRITEBYTECODE="1", PYTHONHASHSEED="0")
    env.pop("PYTHONPATH", None)
    with tempfile.TemporaryDirectory(prefix="equiv_U08_") as tmp:
        orig_root = os.path.join(tmp, "orig")
        os.mkdir(orig_root)
        archive = subprocess.run(["git", "-C", WORKTREE, "archive", "HEAD", "incomplete_cooperative"],
                                 check=True, capture_output=True).stdout
        subprocess.run(["tar", "-x", "-C", orig_root], input=archive, check=True)
        outs = {}
        for label, root in (("orig", orig_root), ("new", WORKTREE)):
            out = os.path.join(tmp, f"{label}.pkl")
            subprocess.run([sys.executable, os.path.abspath(__file__), "--worker", root, out], check=True, env=env,
                           cwd=root)
            with open(out, "rb") as f:
                outs[label] = pickle.load(f)
    orig, new = outs["orig"], outs["new"]
    if len(orig) != len(new):
        print("DIFFERENT: number of cases", len(orig), len(new))
        return 1
    for (key_o, res_o), (key_n, res_n) in zip(orig, new):
        if key_o != key_n or res_o != res_n:
            print("DIFFERENT", key_o, key_n)
            print(" original  :", repr(res_o)[:600])
            print(" refactored:", repr(res_n)[:600])
            return 1
    kinds = {}
    for key, res in orig:
        kinds[key[0]] = kinds.get(key[0], 0) + 1
    n_exc = sum(1 for _, res in orig if (res[0] if isinstance(res[0], str) else res[0][0]) == "exc")
    print(f"{len(orig)} cases compared {kinds}, {n_exc} of them identical exceptions")
    print("EQUIVALENT")
    return 0


if __name__ == "__main__":
    if len(sys.argv) > 1 and sys.argv[1] == "--worker":
        worker(sys.argv[2], sys.argv[3])
    else:
        sys.exit(main())
