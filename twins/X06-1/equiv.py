#!/venv/bin/python
"""Differential equivalence check for patch_1 (match statements in coalitions.py / normalize.py).

Runs the same deterministic driver against the ORIGINAL sources (git HEAD, extracted into a temporary
directory) and against the refactored worktree, each in its own interpreter, and compares the pickled
outcomes byte for byte.  Exit status 0 iff identical.
"""
import os
import pickle
import subprocess
import sys
import tempfile

WORKTREE = os.environ.get("X06_WORKTREE", "/tmp/wt_x4_X06")
GIT_TREE = os.environ.get("X06_GIT_TREE", "/tmp/wt_x4_X06")  # where `git archive HEAD` finds the original sources
PYTHON = sys.executable if os.path.exists(sys.executable) else "/venv/bin/python"

DRIVER = r'''
import itertools, os, pickle, sys, types
import numpy as np

import incomplete_cooperative
from incomplete_cooperative import coalitions as C
from incomplete_cooperative.coalitions import (Coalition, all_coalitions, disjoint_coalitions, exclude_coalition,
                                               get_known_coalitions, get_sub_coalitions, get_super_coalitions,
                                               grand_coalition, minimal_game_coalitions, player_to_coalition)
from incomplete_cooperative.game import IncompleteCooperativeGame
from incomplete_cooperative.graph_game import GraphCooperativeGame
from incomplete_cooperative.normalize import denormalize_game, normalize_game
from incomplete_cooperative.protocols import Game
from incomplete_cooperative.shapley import compute_shapley_value, compute_shapley_value_for_player
from incomplete_cooperative.bounds import compute_bounds_superadditive
from incomplete_cooperative.exploitability import compute_exploitability
from incomplete_cooperative.icg_gym import ICG_Gym


def canon(x):
    """Turn an outcome into plain picklable data, exactly (arrays as dtype/shape/bytes)."""
    if isinstance(x, Coalition):
        return ("Coalition", canon(x.id))
    if isinstance(x, np.ndarray):
        if x.dtype == object:
            return ("objarray", x.shape, [canon(i) for i in x.ravel().tolist()])
        return ("ndarray", x.dtype.str, x.shape, np.ascontiguousarray(x).tobytes())
    if isinstance(x, np.generic):
        return ("npscalar", x.dtype.str, x.tobytes())
    if isinstance(x, (bool, int, float, str, bytes, type(None))):
        return (type(x).__name__, repr(x))
    if isinstance(x, (list, tuple)):
        return (type(x).__name__, [canon(i) for i in x])
    if isinstance(x, dict):
        return ("dict", [(canon(k), canon(v)) for k, v in x.items()])
    if isinstance(x, IncompleteCooperativeGame):
        return ("ICG", x.number_of_players, canon(x._values))
    if isinstance(x, GraphCooperativeGame):
        return ("Graph", x.number_of_players, canon(x._graph_matrix))
    if isinstance(x, (types.GeneratorType, map, filter, itertools.chain)):
        return ("iter:" + type(x).__name__, attempt(lambda: [canon(i) for i in x]))
    return ("other", type(x).__module__, type(x).__qualname__)


def attempt(thunk):
    try:
        return ("ok", canon(thunk()))
    except BaseException as exc:  # noqa
        return ("raised", type(exc).__module__, type(exc).__qualname__, str(exc))


OUT = []


def rec(label, thunk):
    OUT.append((label, attempt(thunk)))


class IntSub(int):
    pass


class CoalSub(Coalition):
    pass


class Reflecting:
    """Its reflected comparison is observable when Coalition.__eq__ declines."""

    def __init__(self, payload):
        self.payload = payload

    def __eq__(self, other):
        return ("reflected", type(self.payload).__name__)

    __hash__ = None


class OnlyCount:
    """Has a number of players but is not a Game."""
    number_of_players = 3


class WrappedGame:
    """A Game (by protocol) that is neither of the two normalizable classes."""

    def __init__(self, inner):
        self._inner = inner

    @property
    def number_of_players(self):
        return self._inner.number_of_players

    def get_values(self, coalitions=None):
        return self._inner.get_values(coalitions)

    def get_value(self, coalition):
        return self._inner.get_value(coalition)

    def copy(self):
        return WrappedGame(self._inner.copy())

    def __add__(self, other):
        return WrappedGame(self._inner + other._inner)


def icg(n, rng, kind="random", bounds=None):
    game = IncompleteCooperativeGame(n, bounds) if bounds is not None else IncompleteCooperativeGame(n)
    if kind == "random":
        vals = rng.normal(size=2**n) * 10
    elif kind == "ints":
        vals = rng.integers(-5, 6, size=2**n).astype(float)
    elif kind == "additive":
        w = rng.normal(size=n)
        vals = np.array([sum(w[i] for i in Coalition(c).players) for c in range(2**n)], dtype=float)
    elif kind == "additive_exact":
        w = rng.integers(1, 9, size=n).astype(float)
        vals = np.array([sum(w[i] for i in Coalition(c).players) for c in range(2**n)], dtype=float)
    elif kind == "zero":
        vals = np.zeros(2**n)
    elif kind == "convex":
        vals = np.array([len(Coalition(c))**2 for c in range(2**n)], dtype=float)
    vals[0] = 0
    game.set_values(vals)
    return game


# ---------------------------------------------------------------- Coalition operators
weird = [True, False, IntSub(2), IntSub(0), np.int64(1), np.int32(3), np.uint8(2), 1.0, 2.5, "1", None, (1,), [0],
         -1, -3, 70, CoalSub(5), CoalSub(0), object, b"a", 1j]
ids = list(range(0, 40)) + [63, 64, 127, 255, 2**20 + 5, 2**70 + 3]
others = [Coalition(i) for i in (0, 1, 2, 3, 5, 6, 7, 12, 31, 63, 64, 2**70 + 1)] + list(range(0, 9)) + weird

for cid in ids:
    c = Coalition(cid)
    rec(("len", cid), lambda: len(c))
    rec(("players", cid), lambda: list(c.players))
    rec(("hash", cid), lambda: hash(c))
    for k, o in enumerate(others):
        rec(("contains", cid, k), lambda: o in c)
        rec(("and", cid, k), lambda: c & o)
        rec(("or", cid, k), lambda: c | o)
        rec(("eq", cid, k), lambda: c == o)
        rec(("ne", cid, k), lambda: c != o)
        rec(("eq-direct", cid, k), lambda: c.__eq__(o))
        rec(("eq-reflected", cid, k), lambda: c == Reflecting(o))
        rec(("req", cid, k), lambda: o == c)
        rec(("sub", cid, k), lambda: c - o)
        rec(("add", cid, k), lambda: c + o)
    rec(("inverted", cid), lambda: [c.inverted(n) for n in range(0, 8)])
    rec(("in-list", cid), lambda: c in [Coalition(3), 5, Coalition(cid)])
    rec(("index", cid), lambda: [Coalition(1), Coalition(cid), 7].index(c))
    rec(("disjoint", cid), lambda: [disjoint_coalitions(c, Coalition(j)) for j in range(16)])

# coalitions with odd ids
for odd in [np.int64(5), True, 2.0, "3", None, -1, -6]:
    c = Coalition(odd)
    for k, o in enumerate([Coalition(1), Coalition(odd), 0, 1, True, np.int64(0), "x"]):
        rec(("odd-contains", repr(odd), k), lambda: o in c)
        rec(("odd-and", repr(odd), k), lambda: c & o)
        rec(("odd-or", repr(odd), k), lambda: c | o)
        rec(("odd-eq", repr(odd), k), lambda: c == o)
        rec(("odd-sub", repr(odd), k), lambda: c - o)

rec("set-ops", lambda: sorted(x.id for x in set(map(Coalition, [1, 2, 2, 3, 1])) | {Coalition(3), Coalition(9)}))
rec("dict-key", lambda: {Coalition(4): 1, Coalition(4): 2}[Coalition(4)])

# ---------------------------------------------------------------- enumeration helpers
rng = np.random.default_rng(20240601)
games = {n: icg(n, rng) for n in range(0, 8)}
graph_games = {n: GraphCooperativeGame(rng.random((n, n))) for n in range(1, 6)}
player_args = list(range(0, 9)) + [True, False, IntSub(3), np.int64(3), np.int32(2), 2.0, 2.5, "2", None, -1, -2,
                                   OnlyCount(), OnlyCount, [2], Coalition(3), WrappedGame(games[3]), WrappedGame]
player_args += list(games.values()) + list(graph_games.values())
for k, p in enumerate(player_args):
    rec(("grand", k), lambda: grand_coalition(p))
    rec(("all", k), lambda: all_coalitions(p))
    rec(("all-type", k), lambda: type(all_coalitions(p)).__name__)
    rec(("minimal", k), lambda: minimal_game_coalitions(p))
    rec(("minimal-first", k), lambda: next(iter(minimal_game_coalitions(p))))
    for ex in (0, 1, 2, 5, 6):
        rec(("exclude", k, ex), lambda: exclude_coalition(Coalition(ex), all_coalitions(p)))
for n in range(0, 7):
    for cid in range(2**n):
        rec(("super", n, cid), lambda: get_super_coalitions(Coalition(cid), n))
        rec(("subs", n, cid), lambda: get_sub_coalitions(Coalition(cid)))

# known coalitions of partially known games
for n in range(2, 6):
    for seed in range(5):
        r = np.random.default_rng(1000 * n + seed)
        g = IncompleteCooperativeGame(n, compute_bounds_superadditive)
        full = icg(n, r, "convex")
        known = sorted(set(np.flatnonzero(r.random(2**n) < 0.5).tolist()) | {0, 2**n - 1} | {2**i for i in range(n)})
        known = [Coalition(int(i)) for i in known]
        g.set_known_values(full.get_values(known), known)
        g.compute_bounds()
        rec(("known", n, seed), lambda: get_known_coalitions(g))
        rec(("exploitability", n, seed), lambda: compute_exploitability(g))

# ---------------------------------------------------------------- Shapley value on top of the enumeration
for n in range(1, 8):
    for seed in range(6):
        r = np.random.default_rng(77 * n + seed)
        for kind in ("random", "ints", "additive", "convex"):
            g = icg(n, r, kind)
            rec(("shapley", n, seed, kind), lambda: list(compute_shapley_value(g)))
            rec(("shapley1", n, seed, kind), lambda: [compute_shapley_value_for_player(i, g) for i in range(n)])
    rec(("shapley-bad-player", n), lambda: compute_shapley_value_for_player(n + 1, games[n]))
    rec(("shapley-str-player", n), lambda: compute_shapley_value_for_player("a", games[n]))
for n, g in graph_games.items():
    rec(("shapley-graph", n), lambda: list(compute_shapley_value(g)))
rec("shapley-none", lambda: list(compute_shapley_value(None)))
rec("shapley-unknown", lambda: list(compute_shapley_value(IncompleteCooperativeGame(3))))
rec("shapley-lazy", lambda: type(compute_shapley_value(None)).__name__)

# ---------------------------------------------------------------- normalisation
for n in range(2, 7):
    for seed in range(8):
        r = np.random.default_rng(31 * n + seed)
        for kind in ("random", "ints", "additive", "additive_exact", "zero", "convex"):
            g = icg(n, r, kind)

            def run(g=g):
                info = normalize_game(g)
                snapshot = canon(g)
                denormalize_game(g, info)
                return info, snapshot, g
            rec(("normalize-icg", n, seed, kind), run)
            w = WrappedGame(icg(n, r, kind))
            rec(("normalize-wrapped", n, seed, kind), lambda: (normalize_game(w), w._inner))
            rec(("denormalize-wrapped", n, seed, kind), lambda: (denormalize_game(w, (2.0, np.ones(n))), w._inner))
        m = r.random((n, n)) * (seed % 3)  # seed % 3 == 0: empty graph, grand coalition value 0
        gg = GraphCooperativeGame(m)

        def run_graph(gg=gg):
            info = normalize_game(gg)
            snapshot = canon(gg)
            denormalize_game(gg, info)
            return info, snapshot, gg
        rec(("normalize-graph", n, seed), run_graph)
        part = IncompleteCooperativeGame(n)
        part.set_value(1.0, Coalition(3))
        rec(("normalize-partial", n, seed), lambda: (normalize_game(part), part))
for bad in (None, 3, "game", OnlyCount(), Coalition(3)):
    rec(("normalize-bad", repr(type(bad))), lambda: normalize_game(bad))
    rec(("denormalize-bad", repr(type(bad))), lambda: denormalize_game(bad, (1.0, np.ones(3))))

# ---------------------------------------------------------------- gym (uses all_coalitions / grand_coalition / normalize_game)
for n in range(3, 6):
    for seed in range(4):
        r = np.random.default_rng(5 * n + seed)
        full = icg(n, r, "convex" if seed % 2 else "random")
        known = list(minimal_game_coalitions(n)) + [Coalition(int(i)) for i in r.choice(2**n, size=seed, replace=False)]
        env = ICG_Gym(IncompleteCooperativeGame(n, compute_bounds_superadditive), lambda: full.copy(), known,
                      compute_exploitability)
        rec(("gym-init", n, seed), lambda: (env.initially_known_coalitions, env.explorable_coalitions, env.state,
                                             env.normalized_game, env.action_masks()))

        def play(env=env, r=r):
            log = [env.reset()]
            while not env.done:
                a = int(r.choice(np.flatnonzero(env.action_masks())))
                log.append(env.step(a))
            return log, env.incomplete_game
        rec(("gym-play", n, seed), play)

with open(sys.argv[1], "wb") as fh:
    pickle.dump({"file": incomplete_cooperative.__file__, "outcomes": OUT}, fh, protocol=4)
'''


def start_side(name, pythonpath, workdir):
    driver = os.path.join(workdir, f"driver_{name}.py")
    out = os.path.join(workdir, f"out_{name}.pkl")
    with open(driver, "w") as fh:
        fh.write(DRIVER)
    env = dict(os.environ, PYTHONPATH=pythonpath, PYTHONHASHSEED="0", OMP_NUM_THREADS="1", PYTHONDONTWRITEBYTECODE="1")
    return subprocess.Popen([PYTHON, driver, out], env=env, cwd=workdir), out


def finish_side(started):
    process, out = started
    if process.wait() != 0:
        raise SystemExit(f"driver failed with status {process.returncode}")
    with open(out, "rb") as fh:
        return pickle.loads(fh.read())


def main():
    with tempfile.TemporaryDirectory(prefix="x06_equiv1_") as tmp:
        orig = os.path.join(tmp, "orig")
        os.mkdir(orig)
        archive = subprocess.run(["git", "archive", "HEAD", "incomplete_cooperative"], cwd=GIT_TREE, check=True,
                                 stdout=subprocess.PIPE).stdout
        subprocess.run(["tar", "-x", "-C", orig], input=archive, check=True)
        side_a = start_side("orig", orig, tmp)  # two separate interpreters, side by side
        side_b = start_side("new", WORKTREE, tmp)
        a, b = finish_side(side_a), finish_side(side_b)
        assert a["file"].startswith(orig), a["file"]
        assert b["file"].startswith(WORKTREE), b["file"]
        oa, ob = a["outcomes"], b["outcomes"]
        same = pickle.dumps(oa, protocol=4) == pickle.dumps(ob, protocol=4)
        raised = sum(1 for _, o in oa if o[0] == "raised")
        print(f"patch 1: {len(oa)} outcomes in the original ({raised} of them exceptions), {len(ob)} in the refactored tree")
        if not same:
            shown = 0
            for (la, xa), (lb, xb) in zip(oa, ob):
                if la != lb or xa != xb:
                    print("DIFF", la, lb, str(xa)[:300], str(xb)[:300])
                    shown += 1
                    if shown > 20:
                        break
            print("NOT EQUIVALENT")
            return 1
        print("identical")
        return 0


if __name__ == "__main__":
    sys.exit(main())
