"""Differential test for refactoring 2 (evaluation.py: for -> while in eval_one, operator.itemgetter in evaluate).

Run with cwd=/tmp/wt10/U07.  The ORIGINAL package is taken from `git archive HEAD` into a temporary directory; the
refactored package is the worktree.  The same driver runs in one subprocess per tree and pickles plain data
(numpy arrays, python scalars, strings); the two result lists are compared exactly.
"""
import io
import os
import pickle  # nosec
import subprocess  # nosec
import sys
import tarfile
import tempfile

WT = "/tmp/wt10/U07"


# --------------------------------------------------------------------------------------------- generic machinery
def freeze(x):
    """Turn a result into plain, picklable, comparable data (keeping types visible)."""
    import numpy as np
    if isinstance(x, np.ndarray):
        return ("nd", str(x.dtype), x.shape, np.array(x, copy=True))
    if isinstance(x, np.generic):
        return ("npscalar", type(x).__name__, np.array(x))
    if isinstance(x, (bool, int, float, str, type(None))):
        return (type(x).__name__, x)
    if isinstance(x, (list, tuple)):
        return (type(x).__name__, [freeze(y) for y in x])
    if isinstance(x, dict):
        return ("dict", [(freeze(k), freeze(v)) for k, v in x.items()])
    if hasattr(x, "id") and type(x).__name__ == "Coalition":
        return ("Coalition", x.id)
    if hasattr(x, "_values") and hasattr(x, "number_of_players"):
        return ("ICG", x.number_of_players, np.array(x._values, copy=True))
    if hasattr(x, "_graph_matrix"):
        return ("GraphGame", np.array(x._graph_matrix, copy=True))
    return ("repr", type(x).__name__, repr(x))


def same(a, b):
    """Exact comparison of frozen data."""
    import numpy as np
    if type(a) is not type(b):
        return False
    if isinstance(a, np.ndarray):
        return a.dtype == b.dtype and a.shape == b.shape and bool(np.array_equal(a, b, equal_nan=a.dtype.kind in "fc"))
    if isinstance(a, (list, tuple)):
        return len(a) == len(b) and all(same(x, y) for x, y in zip(a, b))
    if isinstance(a, float):
        return a == b or (a != a and b != b)
    return a == b


def first_difference(a, b, path="result"):
    """Locate the first place where two frozen results differ."""
    if type(a) is type(b) and isinstance(a, (list, tuple)) and len(a) == len(b):
        for i, (x, y) in enumerate(zip(a, b)):
            if not same(x, y):
                return first_difference(x, y, f"{path}[{i}]")
    return f"{path}: {a!r} != {b!r}"


def guarded(fn):
    """Run fn, return its frozen result or the exception."""
    import warnings
    with warnings.catch_warnings(record=True) as caught:
        warnings.simplefilter("always")
        try:
            r = ("ok", freeze(fn()))
        except BaseException as e:  # noqa
            import re
            r = ("exc", type(e).__name__, re.sub(r"0x[0-9a-fA-F]+", "0xADDR", str(e)))
    return r, [(w.category.__name__, str(w.message)) for w in caught]


def reseed(seed):
    """Reset every global random stream the package may touch."""
    import random

    import numpy as np

    from incomplete_cooperative import generators
    random.seed(seed)
    np.random.seed(seed % 2**32)
    generators._gen.bit_generator.state = np.random.default_rng(seed).bit_generator.state
    generators._LAST_OWNER = 0


def main(worker_cases):
    """Run worker_cases in the original and in the refactored tree, compare."""
    if len(sys.argv) >= 4 and sys.argv[1] == "--worker":
        root, out = sys.argv[2], sys.argv[3]
        sys.path.insert(0, root)
        import incomplete_cooperative
        assert os.path.realpath(incomplete_cooperative.__file__).startswith(os.path.realpath(root)), \
            incomplete_cooperative.__file__  # nosec
        results = worker_cases()
        with open(out, "wb") as f:
            pickle.dump(results, f)
        return 0

    with tempfile.TemporaryDirectory() as tmp:
        orig_root = os.path.join(tmp, "orig")
        os.makedirs(orig_root)
        data = subprocess.run(["git", "-C", WT, "archive", "HEAD", "incomplete_cooperative"],  # nosec
                              check=True, capture_output=True).stdout
        with tarfile.open(fileobj=io.BytesIO(data)) as tar:
            tar.extractall(orig_root)  # nosec
        loaded = []
        for label, root in (("orig", orig_root), ("new", WT)):
            out = os.path.join(tmp, label + ".pkl")
            env = dict(os.environ, OMP_NUM_THREADS="1", MKL_NUM_THREADS="1", PYTHONHASHSEED="0",
                       PYTHONDONTWRITEBYTECODE="1")
            subprocess.run([sys.executable, os.path.abspath(__file__), "--worker", root, out],  # nosec
                           check=True, env=env, cwd=root)
            with open(out, "rb") as f:
                loaded.append(pickle.load(f))  # nosec
    orig, new = loaded
    if len(orig) != len(new):
        print(f"DIFFERENT: number of cases {len(orig)} != {len(new)}")
        return 1
    for (name_o, res_o), (name_n, res_n) in zip(orig, new):
        if name_o != name_n or not same(res_o, res_n):
            print("DIFFERENT")
            print("case:", name_o, name_n)
            print("first difference at", first_difference(res_o, res_n)[:3000])
            return 1
    from collections import Counter
    excs = Counter(f"{name.split('(')[0]}:{r[0][1]}:{r[0][2][:60]}" for name, r in orig if r[0][0] == "exc")
    print(f"EQUIVALENT ({len(orig)} cases, {sum(excs.values())} of them raising identically: {dict(excs)})")
    return 0


# --------------------------------------------------------------------------------------------- the cases

class ScriptedPolicy:
    """A picklable policy: valid actions from its own stream; may raise or return an invalid action at a given call."""

    def __init__(self, seed, fail_at=None, fail_kind=None):
        import random
        self.rng = random.Random(seed)  # nosec
        self.calls = 0
        self.fail_at = fail_at
        self.fail_kind = fail_kind

    def next_step(self, env):
        import numpy as np
        self.calls += 1
        if self.fail_at is not None and self.calls == self.fail_at:
            if self.fail_kind == "raise":
                raise RuntimeError(f"policy failed at call {self.calls}")
            if self.fail_kind == "oob":
                return 10**6
            if self.fail_kind == "str":
                return "x"
        valid = [int(i) for i in np.flatnonzero(env.action_masks())]
        if not valid:
            return 0
        return self.rng.choice(valid)

    def after_reset(self, env):
        import random
        self.rng = random.Random(int(env.np_random.integers(2**63)))  # nosec
        self.calls = 0


class FakeEnv:
    """A tiny stand-in for the gym: scripted rewards / done flags, to hit the corners of eval_one."""

    def __init__(self, rewards, dones, ids, first_reward):
        self.rewards, self.dones, self.ids = rewards, dones, ids
        self.reward = first_reward
        self.t = 0
        self.log = []

    def reset(self):
        self.log.append("reset")
        self.t = 0

    def action_masks(self):
        import numpy as np
        return np.ones(3, bool)

    def step(self, action):
        self.log.append(("step", action))
        t = self.t
        self.t += 1
        return None, self.rewards[t], self.dones[t], False, {"chosen_coalition": self.ids[t]}


def fake_policy(env):
    env.log.append("policy")
    return len(env.log)


def fake_after_reset(env):
    env.log.append("after_reset")


def instance_for(gen_name, n, game_class, linear, env_limit, gap, seed, processes):
    from incomplete_cooperative.run.model import ModelInstance
    return ModelInstance(number_of_players=n, game_class=game_class, game_generator=gen_name, linear=linear,
                         run_steps_limit=env_limit, seed=seed, parallel_environments=processes, gap_function=gap)


def evaluate_case(gen_name, n, game_class, linear, env_limit, steps_limit, gap, solver_name, processes,
                  repetitions, seed, default_after_reset):
    """evaluate() the way run/solve.py calls it."""
    from incomplete_cooperative.evaluation import evaluate
    from incomplete_cooperative.solvers import SOLVERS

    reseed(seed)
    instance = instance_for(gen_name, n, game_class, linear, env_limit, gap, seed, processes)
    if solver_name.startswith("scripted"):
        _, fail_at, fail_kind = (solver_name.split(":") + [None, None])[:3]
        solver = ScriptedPolicy(seed, int(fail_at) if fail_at else None, fail_kind)
    else:
        solver = SOLVERS[solver_name](instance)
    if default_after_reset:
        out = evaluate(solver.next_step, instance.get_env, repetitions, steps_limit, instance.gap_function_callable,
                       processes)
    else:
        out = evaluate(solver.next_step, instance.get_env, repetitions, steps_limit, instance.gap_function_callable,
                       processes, solver.after_reset)
    # the state of the parent's streams after the call is observable as well
    return out, instance.game_generator_rng.integers(2**63), type(out).__name__


def eval_one_case(gen_name, n, game_class, env_limit, steps_limit, solver_name, seed):
    """eval_one() directly, inspecting the environment afterwards."""
    from incomplete_cooperative.evaluation import eval_one
    from incomplete_cooperative.solvers import SOLVERS

    reseed(seed)
    instance = instance_for(gen_name, n, game_class, False, env_limit, "exploitability", seed, 1)
    solver = SOLVERS[solver_name](instance)
    env = instance.get_env()
    if seed % 2:
        out = eval_one(solver.next_step, env, steps_limit, instance.gap_function_callable, solver.after_reset)
    else:
        out = eval_one(solver.next_step, env, steps_limit, instance.gap_function_callable)
    return out, env.incomplete_game._values.copy(), env.steps_taken, env.full_game, env.np_random.integers(2**63)


def fake_case(seed):
    """eval_one() on the scripted stand-in."""
    import numpy as np

    from incomplete_cooperative.evaluation import eval_one

    drv = np.random.default_rng(seed)
    limit = int(drv.integers(-1, 7))
    if seed % 17 == 0:
        limit = np.int64(max(limit, 0))
    length = max(int(limit), 0) + 2
    kind = seed % 5
    rewards = [-float(x) for x in drv.random(length)]
    if kind == 1:
        rewards = [np.float64(r) for r in rewards]
    if kind == 2:
        rewards[int(drv.integers(length))] = float("nan")
    done_at = int(drv.integers(0, length + 2))
    dones = [t >= done_at for t in range(length)]
    if kind == 3:
        dones = [np.bool_(d) for d in dones]
    if kind == 4:
        dones = [int(d) * 2 for d in dones]
    ids = [int(x) for x in drv.integers(1, 60, size=length)]
    if seed % 13 == 0:
        del ids[-2:]  # IndexError inside step
    env = FakeEnv(rewards, dones, ids, rewards[0] * 2)
    if seed % 3:
        res = guarded(lambda: eval_one(fake_policy, env, limit, None, fake_after_reset))[0]
    else:
        res = guarded(lambda: eval_one(fake_policy, env, limit, None))[0]
    return res, [repr(x) for x in env.log], env.t


def worker_cases():
    """All cases; a list of (name, result)."""
    results = []

    def run(name, fn):
        results.append((name, guarded(fn)))

    # 1. eval_one on the scripted stand-in: early done at every position, NaN rewards, numpy flags, failures
    for seed in range(400):
        run(f"fake({seed})", lambda seed=seed: fake_case(seed))

    # 2. eval_one on real environments
    k = 0
    for gen_name in ["factory", "noisy_factory", "xos", "oxs", "graph_cycle", "factory_cheerleader_next"]:
        for n in (3, 4):
            for env_limit, steps_limit in ((None, 0), (None, 1), (None, 2**n), (None, 2**n - n - 2), (2, 5), (3, 3),
                                           (5, 2), (0, 3), (None, 2**n - n - 1)):
                for solver_name in ("random", "greedy", "largest", "greedy_worst"):
                    k += 1
                    if k % 2:
                        continue
                    args = (gen_name, n, ["superadditive_cached", "superadditive", "sam_apx_1"][k % 3],
                            env_limit, steps_limit, solver_name, k)
                    run(f"eval_one{args}", lambda args=args: eval_one_case(*args))

    # 3. evaluate(), sequential
    k = 0
    for gen_name in ["factory", "noisy_factory", "xos", "oxs", "graph_cycle", "graph", "predictible_factory"]:
        for solver_name in ("random", "greedy", "largest", "greedy_worst", "scripted", "scripted:3:raise",
                            "scripted:2:oob", "scripted:1:str"):
            for env_limit, steps_limit in ((None, 16), (None, 3), (4, 4), (2, 6), (None, 0), (None, 10)):
                k += 1
                if k % 3 == 0:
                    continue
                linear = k % 11 == 0
                gap = ["exploitability", "l1_norm", "l2_norm", "linf_norm"][k % 4]
                repetitions = [1, 2, 3, 5, 0][k % 5]
                args = (gen_name, 4, ["superadditive_cached", "superadditive"][k % 2], linear, env_limit,
                        steps_limit, gap, solver_name, 1, repetitions, k, k % 9 == 0)
                run(f"evaluate{args}", lambda args=args: evaluate_case(*args))

    # 4. evaluate(), with worker processes (and the same seeds sequentially, for the record)
    k = 0
    for gen_name in ["factory", "noisy_factory", "xos"]:
        for solver_name in ("random", "greedy", "largest", "scripted", "scripted:2:raise"):
            for processes in (1, 2, 3):
                for env_limit, steps_limit in ((None, 10), (3, 5)):
                    k += 1
                    args = (gen_name, 4, "superadditive_cached", False, env_limit, steps_limit, "exploitability",
                            solver_name, processes, 4, 500 + k // 6, k % 10 == 0)
                    run(f"evaluate{args}", lambda args=args: evaluate_case(*args))
    return results


if __name__ == "__main__":
    sys.exit(main(worker_cases))
