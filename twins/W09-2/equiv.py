"""Differential test for refactoring 2 (normalize.py: isinstance chain -> ordered dispatch table).

Run with cwd=/tmp/wt12/W09.  Loads the ORIGINAL package from `git show HEAD:<path>` into a temporary directory and the
refactored package (the dirty worktree, or HEAD + patch_2.diff when the worktree is clean) into another one, runs both
on the same inputs and compares every result bit for bit.
"""
import os
import shutil
import subprocess
import sys
import tempfile
import warnings

os.environ.setdefault("OMP_NUM_THREADS", "1")
import numpy as np  # noqa: E402

K = 2
WT = os.getcwd()
OUT = os.path.dirname(os.path.abspath(__file__))
PKG = "incomplete_cooperative"
CHANGED = ["normalize"]
NAMES = ["coalitions", "game", "graph_game", "normalize", "generators", "game_properties"]


# ----------------------------------------------------------------------------------------------- harness
def export_head(dst: str) -> None:
    files = subprocess.check_output(["git", "-C", WT, "ls-tree", "-r", "--name-only", "HEAD", PKG], text=True)
    for f in files.splitlines():
        if not f or "/tests/" in f:
            continue
        data = subprocess.check_output(["git", "-C", WT, "show", f"HEAD:{f}"])
        p = os.path.join(dst, f)
        os.makedirs(os.path.dirname(p), exist_ok=True)
        with open(p, "wb") as fh:
            fh.write(data)


def make_refactored(dst: str) -> str:
    dirty = subprocess.run(["git", "-C", WT, "diff", "--quiet"]).returncode != 0
    if dirty:
        shutil.copytree(os.path.join(WT, PKG), os.path.join(dst, PKG),
                        ignore=shutil.ignore_patterns("tests", "__pycache__"))
        return "worktree"
    patch = os.path.join(OUT, f"patch_{K}.diff")
    if not os.path.exists(patch) or os.path.getsize(patch) == 0:
        raise SystemExit("worktree is clean and there is no patch to apply: nothing to compare")
    export_head(dst)
    subprocess.check_call(["git", "apply", "--exclude=*/tests/*", patch], cwd=dst)
    return "HEAD + " + patch


def load(root: str, names: list[str]) -> dict:
    for m in [m for m in sys.modules if m == PKG or m.startswith(PKG + ".")]:
        del sys.modules[m]
    sys.path.insert(0, root)
    try:
        import importlib
        ns = {}
        for n in names:
            mod = importlib.import_module(f"{PKG}.{n}")
            assert os.path.realpath(mod.__file__).startswith(os.path.realpath(root)), mod.__file__
            ns[n] = mod
        return ns
    finally:
        sys.path.remove(root)


def canon(x):
    """Canonical, bit-exact, comparable form of a result."""
    if isinstance(x, np.ndarray):
        return ("nd", str(x.dtype), x.shape, np.ascontiguousarray(x).tobytes())
    if isinstance(x, np.generic):
        return ("np", type(x).__name__, x.tobytes())
    if isinstance(x, (list, tuple)):
        return (type(x).__name__, tuple(canon(y) for y in x))
    if isinstance(x, dict):
        return ("dict", tuple((k, canon(v)) for k, v in x.items()))
    return (type(x).__name__, repr(x))


def attempt(fn, *a, **kw):
    try:
        return ("ok", canon(fn(*a, **kw)))
    except Exception as e:  # noqa
        return ("exc", type(e).__name__, str(e))


# ----------------------------------------------------------------------------------------------- the game bank
def make_bank(ns) -> list:
    """Raw descriptions of games: ('icg', name, n, table of (known, lower, upper)) or ('graph', name, matrix)."""
    gens = ns["generators"].GENERATORS
    ICG, Graph = ns["game"].IncompleteCooperativeGame, ns["graph_game"].GraphCooperativeGame
    bank, skipped = [], {}
    for name, gen in gens.items():
        for n in (3, 4, 5, 6):
            for seed in (0, 1):
                try:
                    g = gen(n, np.random.default_rng(seed + 7 * n))
                except Exception as e:  # noqa  (e.g. `convex` needs pyfmtools)
                    skipped[name] = type(e).__name__
                    continue
                if isinstance(g, Graph):
                    bank.append(("graph", f"{name}/n{n}/s{seed}", np.array(g._graph_matrix)))
                elif isinstance(g, ICG):
                    bank.append(("icg", f"{name}/n{n}/s{seed}", n, np.array(g._values)))
                else:
                    raise AssertionError(type(g))
    rng = np.random.default_rng(2024)

    def full(n, values):
        t = np.zeros((2 ** n, 3))
        t[:, 0] = 1
        t[:, 1] = t[:, 2] = values
        return t

    sizes = np.array([bin(i).count("1") for i in range(2 ** 7)])
    for n in (2, 3, 4, 5, 6):
        m = 2 ** n
        for r in range(6):
            w = rng.random(n) * 10.0 ** rng.integers(-3, 4)
            additive = np.array([sum(w[j] for j in range(n) if i >> j & 1) for i in range(m)])
            v = rng.random(m)
            v[0] = 0
            bank += [
                ("icg", f"additive/n{n}/{r}", n, full(n, additive)),
                ("icg", f"additive_int/n{n}/{r}", n, full(n, np.round(additive * 100))),
                ("icg", f"almost_additive/n{n}/{r}", n, full(n, additive + 1e-13 * v)),
                ("icg", f"random/n{n}/{r}", n, full(n, v)),
                ("icg", f"signed/n{n}/{r}", n, full(n, (v - 0.5) * 1e6)),
                ("icg", f"square/n{n}/{r}", n, full(n, (sizes[:m] ** 2) * (r + 1.0))),
                ("icg", f"convexish/n{n}/{r}", n, full(n, additive + sizes[:m] ** (1 + r / 2))),
                ("graph", f"rand/n{n}/{r}", rng.random((n, n))),
                ("graph", f"int/n{n}/{r}", rng.integers(-3, 4, (n, n))),
                ("graph", f"f32/n{n}/{r}", rng.random((n, n)).astype(np.float32)),
            ]
            t = full(n, v)
            unknown = rng.integers(0, m, 2)
            t[unknown] = 0
            bank.append(("icg", f"incomplete/n{n}/{r}", n, t))
            t = full(n, v)
            t[rng.integers(1, m)] = [1, np.nan, np.nan]
            bank.append(("icg", f"nan/n{n}/{r}", n, t))
            t = full(n, v)
            t[m - 1, 1:] = np.inf
            bank.append(("icg", f"infgrand/n{n}/{r}", n, t))
        bank += [("icg", f"zero/n{n}", n, full(n, np.zeros(m))),
                 ("icg", f"const/n{n}", n, full(n, np.ones(m))),
                 ("graph", f"zero/n{n}", np.zeros((n, n))),
                 ("graph", f"cancel/n{n}", np.triu(np.ones((n, n)), 1) * np.resize([1, -1], (n, n)))]
    return bank, skipped


def build(ns, item, cls_icg=None, cls_graph=None):
    if item[0] == "graph":
        return (cls_graph or ns["graph_game"].GraphCooperativeGame)(np.array(item[2]))
    g = (cls_icg or ns["game"].IncompleteCooperativeGame)(item[2])
    g._values = np.array(item[3], dtype=g._values.dtype)
    return g


def state(g):
    return canon(g._graph_matrix) if hasattr(g, "_graph_matrix") else canon(g._values)


# ----------------------------------------------------------------------------------------------- cases
def run_cases(ns, bank) -> list:
    norm = ns["normalize"]
    ICG, Graph = ns["game"].IncompleteCooperativeGame, ns["graph_game"].GraphCooperativeGame
    out = []

    class SubICG(ICG):
        pass

    class SubGraph(Graph):
        pass

    class Foreign:
        """A full game which is neither an ICG nor a graph game (delegates to one)."""

        def __init__(self, inner):
            self.inner = inner
            self.number_of_players = inner.number_of_players

        def get_values(self, coalitions=None):
            return self.inner.get_values(coalitions)

        def get_value(self, coalition):
            return self.inner.get_value(coalition)

        def set_values(self, values, coalitions=None):
            return self.inner.set_values(values, coalitions)

        def set_value(self, value, coalition):
            return self.inner.set_value(value, coalition)

        def copy(self):
            return Foreign(self.inner.copy())

        def __add__(self, other):
            return Foreign(self.inner + other.inner)

    def rec(tag, value):
        out.append((tag, value))

    for idx, item in enumerate(bank):
        tag = f"{item[0]}:{item[1]}"
        variants = [("plain", None, None)]
        if idx % 5 == 0:
            variants.append(("sub", SubICG, SubGraph))
        for vname, ci, cg in variants:
            t = f"{tag}/{vname}"
            g = build(ns, item, ci, cg)
            info = None

            def do_norm():
                nonlocal info
                info = norm.normalize_game(g)
                return info

            rec(t + "/normalize", attempt(do_norm))
            rec(t + "/normalized", state(g))
            rec(t + "/values", attempt(g.get_values))
            if info is not None:
                rec(t + "/denormalize", attempt(norm.denormalize_game, g, info))
                rec(t + "/denormalized", state(g))
                # a second normalisation of the restored game, and one of the already normalised game
                rec(t + "/normalize2", attempt(norm.normalize_game, g))
                rec(t + "/normalized2", state(g))
                rec(t + "/normalize3", attempt(norm.normalize_game, g))
                rec(t + "/normalized3", state(g))
            rec(t + "/norminfo", attempt(norm._get_norminfo, g))
        if idx % 7 == 0:  # a game of an unknown type: the norm info is gathered, then TypeError, nothing is modified
            f = Foreign(build(ns, item))
            rec(tag + "/foreign", attempt(norm.normalize_game, f))
            rec(tag + "/foreign/state", state(f.inner))
            rec(tag + "/foreign/denorm", attempt(norm.denormalize_game, f, (np.float64(2.0), np.ones(f.number_of_players))))
            rec(tag + "/foreign/state2", state(f.inner))
    for bad in (None, 3, "game", object()):
        rec(f"bad/{bad!r:.20}", attempt(norm.normalize_game, bad))
    return out


def main() -> int:
    warnings.simplefilter("ignore")
    np.seterr(all="ignore")
    with tempfile.TemporaryDirectory() as a, tempfile.TemporaryDirectory() as b:
        export_head(a)
        what = make_refactored(b)
        if all(open(os.path.join(a, PKG, f + ".py")).read() == open(os.path.join(b, PKG, f + ".py")).read()
               for f in CHANGED):
            raise SystemExit("the refactored sources equal the original ones: nothing to compare")
        ns_a = load(a, NAMES)
        bank, skipped = make_bank(ns_a)
        res_a = run_cases(ns_a, bank)
        res_b = run_cases(load(b, NAMES), bank)
    print(f"original: git HEAD; refactored: {what}; {len(bank)} games "
          f"({len(ns_a['generators'].GENERATORS) - len(skipped)} registry generators, skipped: {skipped}); "
          f"{len(res_a)} / {len(res_b)} compared results")
    if len(res_a) != len(res_b):
        print("DIFFERENT: number of results", len(res_a), len(res_b))
        return 1
    for (tag_a, val_a), (tag_b, val_b) in zip(res_a, res_b):
        if tag_a != tag_b or val_a != val_b:
            print("DIFFERENT")
            print("  original  :", tag_a, str(val_a)[:600])
            print("  refactored:", tag_b, str(val_b)[:600])
            return 1
    print("EQUIVALENT")
    return 0


if __name__ == "__main__":
    sys.exit(main())
