"""Differential test for refactoring 2 (game.py: row selection moved to a module-level function, None guards, named slice).

Run with cwd=/tmp/wt12/W02.  The ORIGINAL package is materialised from `git show HEAD:<path>` into a temporary
directory; the refactored one is the worktree.  Both are run in separate interpreter processes on the same pickled
inputs and the pickled outputs are compared exactly.
"""
import os
import pickle
import subprocess
import sys
import tempfile
from pathlib import Path

import numpy as np

WORKTREE = Path.cwd()
# the refactored tree; the override exists only for negative controls of this script itself
NEW_ROOT = Path(os.environ.get("EQUIV_NEW_ROOT", WORKTREE))
PKG = "incomplete_cooperative"


# --------------------------------------------------------------------------- helpers shared by parent and worker
def materialise_original(target: Path) -> None:
    """Write every file of HEAD:incomplete_cooperative (except tests) below `target`."""
    names = subprocess.run(["git", "-C", str(WORKTREE), "ls-tree", "-r", "--name-only", "HEAD", PKG],
                           check=True, capture_output=True, text=True).stdout.split("\n")
    for name in filter(None, names):
        if not name.endswith(".py") or "/tests/" in name:
            continue
        content = subprocess.run(["git", "-C", str(WORKTREE), "show", f"HEAD:{name}"],
                                 check=True, capture_output=True).stdout
        path = target / name
        path.parent.mkdir(parents=True, exist_ok=True)
        path.write_bytes(content)


def same(a, b) -> bool:
    """Exact structural comparison."""
    if type(a) is not type(b):
        return False
    if isinstance(a, np.ndarray):
        if a.dtype != b.dtype or a.shape != b.shape:
            return False
        if a.dtype.kind == "f":
            return bool(np.array_equal(a, b, equal_nan=True) and np.array_equal(np.signbit(a), np.signbit(b)))
        return bool(np.array_equal(a, b))
    if isinstance(a, (list, tuple)):
        return len(a) == len(b) and all(same(x, y) for x, y in zip(a, b))
    if isinstance(a, dict):
        return list(a.keys()) == list(b.keys()) and all(same(a[k], b[k]) for k in a)
    if isinstance(a, float):
        return (a == b and np.signbit(a) == np.signbit(b)) or (a != a and b != b)
    if isinstance(a, np.generic):
        return a.dtype == b.dtype and same(np.asarray(a), np.asarray(b))
    return a == b


# --------------------------------------------------------------------------- inputs (made by the parent only)
def make_inputs():
    """Games (full value vectors), knowledge masks, query coalition lists."""
    cases = []
    for n in range(1, 7):
        size = 2**n
        sizes = np.array([bin(c).count("1") for c in range(size)])
        minimal = (sizes <= 1) | (sizes == n)
        for seed in range({1: 4, 2: 8, 3: 16, 4: 16, 5: 10, 6: 6}[n]):
            rng = np.random.default_rng(7000 * n + seed)
            weights = rng.uniform(0.1, 5, n)
            int_weights = rng.integers(1, 5, n)
            member = (np.arange(size)[:, None] >> np.arange(n)) & 1
            families = {
                "arbitrary": np.concatenate([[0.], rng.normal(0, 3, size - 1)]),
                "convex": (member @ weights) ** 2,
                "sam_sqrt": -np.sqrt(member @ weights),
                "sam_int": -np.max(member * int_weights, axis=1).astype(float),
            }
            for family, values in families.items():
                for density in (0.0, 0.4, 1.0):
                    known = minimal | (rng.random(size) < density)
                    query = [int(x) for x in rng.integers(0, size, int(rng.integers(0, size + 2)))]
                    known_query = [int(x) for x in rng.choice(np.flatnonzero(known), int(rng.integers(0, 5)))]
                    bound_values = rng.normal(0, 2, size)
                    cases.append((f"n={n} seed={seed} {family} d={density}", n, values, known, query, known_query,
                                  bound_values))
    return cases


# --------------------------------------------------------------------------- worker
def worker(root: str, infile: str, outfile: str) -> None:
    sys.path.insert(0, root)
    import incomplete_cooperative
    assert Path(incomplete_cooperative.__file__).resolve().is_relative_to(Path(root).resolve()), incomplete_cooperative.__file__
    from incomplete_cooperative import bounds
    from incomplete_cooperative.coalitions import Coalition
    from incomplete_cooperative.exploitability import compute_exploitability
    from incomplete_cooperative.game import IncompleteCooperativeGame

    with open(infile, "rb") as f:
        cases = pickle.load(f)
    out = []

    def attempt(label, fn, game=None):
        try:
            result = fn()
            if isinstance(result, np.ndarray):
                # views of the table must stay views, copies must stay copies
                shares = game is not None and np.shares_memory(result, game._values)
                outcome = ("ok", result.copy(), shares, result.flags.writeable, result.flags.owndata)
            elif isinstance(result, IncompleteCooperativeGame):
                outcome = ("ok-game", result._values.copy(), result.number_of_players,
                           result._bounds_computer is game._bounds_computer, np.shares_memory(result._values, game._values))
            else:
                outcome = ("ok", result)
        except BaseException as e:  # noqa
            outcome = ("exc", type(e).__name__, str(e))
        out.append((label, outcome, None if game is None else game._values.copy()))

    def coalition_args(ids):
        """The same coalitions as None-free argument in the spellings callers use."""
        yield "list", lambda: [Coalition(i) for i in ids]
        yield "generator", lambda: (Coalition(i) for i in ids)
        yield "map", lambda: map(Coalition, ids)
        yield "tuple", lambda: tuple(Coalition(i) for i in ids)

    getters = ["get_values", "get_upper_bounds", "get_lower_bounds", "get_intervals", "are_values_known",
               "get_known_values"]
    for label, n, values, known, query, known_query, bound_values in cases:
        known_ids = [int(i) for i in np.flatnonzero(known)]
        for key, computer in bounds.BOUNDS.items():
            if key in ("sam_apx_100", "sam_apx_1000") and (n >= 5 or "seed=0 " not in label):
                continue
            if key == "superadditive" and n == 6 and "seed=0 " not in label:
                continue
            tag = f"{label} {key}"
            game = IncompleteCooperativeGame(n, computer)
            attempt(f"{tag} fresh get_values", game.get_values, game)
            attempt(f"{tag} set_known_values",
                    lambda: game.set_known_values(values[known], [Coalition(i) for i in known_ids]), game)
            attempt(f"{tag} compute_bounds", game.compute_bounds, game)
            attempt(f"{tag} full", lambda: game.full, game)
            for getter in getters:
                attempt(f"{tag} {getter}()", getattr(game, getter), game)
                attempt(f"{tag} {getter}(None)", lambda: getattr(game, getter)(None), game)
                for ids_name, ids in (("query", query), ("known_query", known_query), ("empty", [])):
                    for spelling, make in coalition_args(ids):
                        attempt(f"{tag} {getter}({ids_name} as {spelling})", lambda: getattr(game, getter)(make()), game)
            # a generator over the game itself, and an argument that is not a coalition
            attempt(f"{tag} get_values(bad)", lambda: game.get_values([1, 2]), game)
            attempt(f"{tag} get_lower_bounds(out of range)", lambda: game.get_lower_bounds([Coalition(2**n)]), game)
            attempt(f"{tag} get_known_values(out of range)", lambda: game.get_known_values([Coalition(2**n + 3)]), game)
            for c in query[:6]:
                coalition = Coalition(c)
                for single in ("get_value", "get_upper_bound", "get_lower_bound", "get_interval", "is_value_known",
                               "get_known_value"):
                    attempt(f"{tag} {single}({c})", lambda: getattr(game, single)(coalition), game)
            attempt(f"{tag} exploitability", lambda: compute_exploitability(game), game)
            attempt(f"{tag} neg", lambda: -game, game)
            attempt(f"{tag} copy", game.copy, game)
            attempt(f"{tag} eq copy", lambda: game == game.copy(), game)
            attempt(f"{tag} eq other", lambda: game == 3, game)

            # arithmetic: full games, incomplete games, mismatching sizes, wrong types
            full_a = IncompleteCooperativeGame(n, computer)
            full_a.set_values(values)
            full_b = IncompleteCooperativeGame(n)
            full_b.set_values(bound_values)
            full_b.set_upper_bounds(bound_values + 1)  # no effect on known values
            attempt(f"{tag} full+full", lambda: full_a + full_b, full_a)
            attempt(f"{tag} full+full rev", lambda: full_b + full_a, full_b)
            attempt(f"{tag} full+incomplete", lambda: full_a + game, full_a)
            attempt(f"{tag} incomplete+full", lambda: game + full_a, game)
            attempt(f"{tag} full+smaller", lambda: full_a + IncompleteCooperativeGame(max(n - 1, 0)), full_a)
            attempt(f"{tag} full+int", lambda: full_a + 1, full_a)
            attempt(f"{tag} neg full", lambda: -full_a, full_a)
            summed = full_a + full_b
            attempt(f"{tag} sum values", summed.get_values, summed)
            attempt(f"{tag} sum known", summed.are_values_known, summed)

            # bulk setters after the bounds, then the bounds again
            attempt(f"{tag} set_lower_bounds", lambda: game.set_lower_bounds(bound_values), game)
            attempt(f"{tag} set_upper_bounds(query)",
                    lambda: game.set_upper_bounds(bound_values[:len(query)], (Coalition(i) for i in query)), game)
            attempt(f"{tag} get_known_values after", game.get_known_values, game)
            attempt(f"{tag} set_known_values(own generator)",
                    lambda: game.set_known_values((v for v in game.get_known_values() if not np.isnan(v)),
                                                  (Coalition(i) for i in np.flatnonzero(game.are_values_known()))), game)
            attempt(f"{tag} compute_bounds again", game.compute_bounds, game)
            if query:
                c = Coalition(query[0])
                attempt(f"{tag} reveal", lambda: game.reveal_value(values[c.id], c), game)
                attempt(f"{tag} compute_bounds revealed", game.compute_bounds, game)
                attempt(f"{tag} unreveal", lambda: game.unreveal_value(c), game)
                attempt(f"{tag} compute_bounds unrevealed", game.compute_bounds, game)
    with open(outfile, "wb") as f:
        pickle.dump(out, f)


# --------------------------------------------------------------------------- parent
def main() -> int:
    with tempfile.TemporaryDirectory() as tmp:
        tmp_path = Path(tmp)
        orig_root = tmp_path / "orig"
        materialise_original(orig_root)
        infile = tmp_path / "inputs.pkl"
        cases = make_inputs()
        with infile.open("wb") as f:
            pickle.dump(cases, f)
        results = {}
        env = dict(os.environ, OMP_NUM_THREADS="1", MKL_NUM_THREADS="1", PYTHONDONTWRITEBYTECODE="1")
        for name, root in (("orig", orig_root), ("new", NEW_ROOT)):
            outfile = tmp_path / f"{name}.pkl"
            subprocess.run([sys.executable, __file__, "--worker", str(root), str(infile), str(outfile)],
                           check=True, env=env, cwd=str(tmp_path))
            with outfile.open("rb") as f:
                results[name] = pickle.load(f)
    orig, new = results["orig"], results["new"]
    if len(orig) != len(new):
        print("DIFFERENT: number of records", len(orig), len(new))
        return 1
    for a, b in zip(orig, new):
        if not same(a, b):
            print("DIFFERENT")
            print("original:  ", a)
            print("refactored:", b)
            return 1
    exceptions: dict = {}
    for record in orig:
        if len(record) > 1 and isinstance(record[1], tuple) and record[1] and record[1][0] == "exc":
            exceptions[record[1][1]] = exceptions.get(record[1][1], 0) + 1
    print(f"compared {len(orig)} records from {len(cases)} input cases; identical exceptions among them: {exceptions}")
    print("EQUIVALENT")
    return 0


if __name__ == "__main__":
    if len(sys.argv) > 1 and sys.argv[1] == "--worker":
        worker(*sys.argv[2:5])
    else:
        sys.exit(main())
