#!/usr/bin/env python
"""Differential test for refactoring 3 (coalition_ids.py / game_properties.py: named intermediates, NumPy spellings).

Run with cwd=/tmp/wt9/T09.  The ORIGINAL package is materialised from `git show HEAD:<path>` into a temporary
directory; the original and the refactored package are each driven by a worker subprocess (same script, `--worker`)
that executes an identical, seeded list of cases and pickles the normalised results.  The parent compares exactly.
"""
import hashlib
import os
import pickle
import subprocess
import sys
import tempfile

WT = "/tmp/wt9/T09"
TOUCHED = ["incomplete_cooperative/coalition_ids.py", "incomplete_cooperative/game_properties.py"]


# ----------------------------------------------------------------------------------------------------------------
# generic harness
# ----------------------------------------------------------------------------------------------------------------
def materialise_original(dest):
    """Write every file of HEAD:incomplete_cooperative into dest using `git show`."""
    names = subprocess.run(["git", "-C", WT, "ls-tree", "-r", "--name-only", "HEAD", "incomplete_cooperative"],
                           check=True, capture_output=True, text=True).stdout.split("\n")
    for name in filter(None, names):
        if "/tests/" in name:
            continue
        data = subprocess.run(["git", "-C", WT, "show", f"HEAD:{name}"], check=True, capture_output=True).stdout
        target = os.path.join(dest, name)
        os.makedirs(os.path.dirname(target), exist_ok=True)
        with open(target, "wb") as f:
            f.write(data)


def norm(x):
    """Turn a result into a picklable canonical form that keeps types, dtypes, shapes and raw bytes."""
    import numpy as np
    if type(x).__name__ == "Coalition" and hasattr(x, "id"):
        return ("Coalition", norm(x.id))
    if isinstance(x, np.ndarray):
        if x.dtype == object:
            return ("ndobj", x.shape, [norm(y) for y in x.ravel().tolist()])
        raw = np.ascontiguousarray(x).tobytes()
        if len(raw) > 2 ** 16:  # big tables (meta_id_to_rank spans 2**25 entries for 5 players): keep a digest only
            return ("ndhash", x.dtype.str, x.shape, hashlib.sha256(raw).hexdigest())
        return ("nd", x.dtype.str, x.shape, raw)
    if isinstance(x, np.generic):
        return ("npscalar", type(x).__name__, x.tobytes())
    if isinstance(x, (list, tuple)):
        return (type(x).__name__, [norm(y) for y in x])
    if isinstance(x, dict):
        return ("dict", [(norm(k), norm(v)) for k, v in x.items()])
    if isinstance(x, float):
        import struct
        return ("float", struct.pack("<d", x))
    if isinstance(x, (bool, int, str, bytes, type(None))):
        return (type(x).__name__, x)
    raise TypeError(f"cannot normalise {type(x)}")


def call(f, *args, **kwargs):
    """Call f and return the normalised result or the normalised exception."""
    try:
        return ("OK", norm(f(*args, **kwargs)))
    except BaseException as e:  # noqa
        return ("EXC", type(e).__name__, str(e))


def describe(x, limit=400):
    """Describe a normalised value for a counterexample."""
    import numpy as np
    if isinstance(x, tuple) and x and x[0] == "nd":
        return f"ndarray(dtype={x[1]}, shape={x[2]}, values={np.frombuffer(x[3], dtype=x[1]).reshape(x[2])!r})"[:limit]
    return repr(x)[:limit]


def main():
    changed = subprocess.run(["git", "-C", WT, "diff", "--name-only"], check=True, capture_output=True,
                             text=True).stdout.split()
    print("files differing from HEAD in the worktree:", changed)
    with tempfile.TemporaryDirectory(prefix="equiv_T09_") as tmp:
        orig_root = os.path.join(tmp, "orig")
        materialise_original(orig_root)
        outs = {}
        for label, root in (("orig", orig_root), ("new", WT)):
            out = os.path.join(tmp, f"{label}.pkl")
            env = dict(os.environ, OMP_NUM_THREADS="1", MKL_NUM_THREADS="1", PYTHONHASHSEED="0",
                       PYTHONDONTWRITEBYTECODE="1")
            env.pop("PYTHONPATH", None)
            proc = subprocess.run([sys.executable, os.path.abspath(__file__), "--worker", root, out], env=env, cwd=tmp)
            if proc.returncode != 0:
                if label == "orig":
                    raise SystemExit("the worker failed on the ORIGINAL source: the harness is broken")
                print("DIFFERENT\nthe worker crashed on the refactored source only (traceback above), exit status",
                      proc.returncode)
                sys.exit(1)
            with open(out, "rb") as f:
                outs[label] = pickle.load(f)
    orig, new = outs["orig"], outs["new"]
    if [k for k, _ in orig] != [k for k, _ in new]:
        for (ka, _), (kb, _) in zip(orig, new):
            if ka != kb:
                print("DIFFERENT\nfirst differing case label:", ka, "vs", kb)
                sys.exit(1)
        print("DIFFERENT\nnumber of cases differs:", len(orig), len(new))
        sys.exit(1)
    for (key, a), (_, b) in zip(orig, new):
        if a != b:
            print("DIFFERENT")
            print("case:", key)
            print("original  :", describe(a))
            print("refactored:", describe(b))
            sys.exit(1)
    digest = hashlib.sha256(pickle.dumps(orig)).hexdigest()[:16]
    print(f"{len(orig)} cases compared exactly (types, dtypes, shapes, raw bytes, exceptions); digest {digest}")
    print("EQUIVALENT")


# ----------------------------------------------------------------------------------------------------------------
# the cases
# ----------------------------------------------------------------------------------------------------------------
def worker(root, out):
    sys.path[:] = [root] + [p for p in sys.path if p not in ("", os.getcwd(), WT)]
    import warnings

    import numpy as np

    import incomplete_cooperative
    assert os.path.abspath(incomplete_cooperative.__file__).startswith(os.path.abspath(root) + os.sep), \
        (incomplete_cooperative.__file__, root)
    from incomplete_cooperative import bounds as B
    from incomplete_cooperative import coalition_ids as CI
    from incomplete_cooperative import game_properties as GP
    from incomplete_cooperative import generators as G
    from incomplete_cooperative.coalitions import Coalition, minimal_game_coalitions
    from incomplete_cooperative.game import IncompleteCooperativeGame
    for mod in (CI, GP):
        assert os.path.abspath(mod.__file__).startswith(os.path.abspath(root) + os.sep)

    results = []

    def rec(key, value):
        results.append((key, value))

    def wcall(f, *args, **kwargs):
        """Like call, but every warning raised on the way is part of the result."""
        with warnings.catch_warnings(record=True) as caught:
            warnings.simplefilter("always")
            res = call(f, *args, **kwargs)
        return ("W", res, [(w.category.__name__, str(w.message)) for w in caught])

    # --- id-array implementation, every coalition, several scalar types -------------------------------------------
    kinds = {"int32": np.int32, "int": int, "int64": np.int64, "arr0d": lambda v: np.array(v, dtype=np.int32),
             "arr1": lambda v: np.array([v], dtype=np.int32)}
    fns = {"players": CI.players, "get_size": CI.get_size, "sub": CI.sub_coalitions, "super": CI.super_coalitions}
    for n in range(0, 9):
        rec(("all", n), wcall(CI.get_all_coalitions, n))
        rec(("all64", n), wcall(CI.get_all_coalitions, np.int64(n)))
        for cid in list(range(2 ** n)) + [2 ** n, 2 ** n + 3, -1, -2 ** n]:
            for kind, conv in kinds.items():
                if n > 6 and kind not in ("int32", "int"):
                    continue
                for fname, fn in fns.items():
                    rec((fname, n, cid, kind), wcall(fn, conv(cid), n))
            if n <= 5:
                for fname, fn in fns.items():
                    rec((fname, n, cid, "n64"), wcall(fn, np.int32(cid) if abs(cid) < 2 ** 31 else cid, np.int64(n)))
    for bad in ("3", None, 2.5, [1, 2], np.array([1, 2, 3]), np.float64(3)):
        for fname, fn in fns.items():
            rec((fname, "bad_coalition", repr(bad)), wcall(fn, bad, 3))
            rec((fname, "bad_n", repr(bad)), wcall(fn, np.int32(1), bad))
    # the iteration used by the callers: coalitions taken out of get_all_coalitions
    for n in range(0, 8):
        for U in CI.get_all_coalitions(n):
            rec(("iter_sub", n, int(U)), wcall(CI.sub_coalitions, U, n))
            rec(("iter_super", n, int(U)), wcall(CI.super_coalitions, U, n))
            rec(("iter_players", n, int(U)), wcall(CI.players, U, n))
    # returned arrays are fresh: writing into one must not change the next result
    for n in range(1, 6):
        for cid in range(2 ** n):
            first = CI.sub_coalitions(np.int32(cid), n)
            first[:] = -7
            pl = CI.players(np.int32(cid), n)
            pl[:] = -9
            rec(("fresh", n, cid), norm([CI.sub_coalitions(np.int32(cid), n), CI.players(np.int32(cid), n),
                                         bool(first.flags.owndata), bool(first.flags.writeable),
                                         bool(pl.flags.owndata), bool(pl.flags.writeable)]))
    for n in range(1, 8):
        rec(("structure", n), wcall(B._get_sub_super_coalition_structure, n))

    # --- predicates -----------------------------------------------------------------------------------------------
    class Stub:
        """A game that only has what the predicates use; counts how often it is asked."""

        def __init__(self, values, n):
            self._values, self._n, self.log = values, n, []

        @property
        def number_of_players(self):
            self.log.append("n")
            return self._n

        def get_values(self, coalitions=None):
            self.log.append("v")
            return self._values

    def predicates(key, make_game):
        for pname, fn, kwargs in (("sa", GP.is_superadditive, {}), ("mono", GP.is_monotone_decreasing, {}),
                                  ("sam", GP.is_sam, {}), ("sa_rtol", GP.is_superadditive, {"rtol": 1e-3}),
                                  ("sa_atol", GP.is_superadditive, {"rtol": 0, "atol": 1e-6}),
                                  ("sa_exact", GP.is_superadditive, {"rtol": 0, "atol": 0})):
            game = make_game()
            rec(key + (pname,), wcall(fn, game, **kwargs))
            if isinstance(game, Stub):
                rec(key + (pname, "log"), norm("".join(game.log)))

    rng = np.random.default_rng(31337)
    sizes = {n: np.array([bin(i).count("1") for i in range(2 ** n)]) for n in range(0, 8)}
    for j in range(700):
        n = int(rng.integers(0, 7))
        size = sizes[n]
        shape = j % 10
        if shape == 0:      # arbitrary
            values = rng.normal(size=2 ** n)
        elif shape == 1:    # convex in the size: superadditive
            values = size.astype(float) ** 2
        elif shape == 2:    # additive: superadditive with equality everywhere -> the tolerance branch decides
            w = rng.random(n)
            values = np.array([w[[p for p in range(n) if i >> p & 1]].sum() for i in range(2 ** n)])
        elif shape == 3:    # additive with violations of the order of the relative tolerance
            w = rng.random(n) * 1e3
            values = np.array([w[[p for p in range(n) if i >> p & 1]].sum() for i in range(2 ** n)])
            values = values * (1 + rng.choice([0, 1e-9, -1e-9, 2e-9, 5e-10, 1e-12], size=2 ** n))
        elif shape == 4:    # monotone decreasing and superadditive (negative sizes)
            values = -np.minimum(size, int(rng.integers(1, 4))).astype(float)
        elif shape == 5:    # monotone decreasing with one violation
            values = -size.astype(float)
            values[int(rng.integers(0, 2 ** n))] += rng.choice([0, 1e-12, 0.5, 2])
        elif shape == 6:    # with nan / inf
            values = size.astype(float) ** 2
            values[rng.integers(0, 2 ** n, size=2)] = rng.choice([np.nan, np.inf, -np.inf], size=2)
        elif shape == 7:    # integers
            values = rng.integers(-3, 4, size=2 ** n)
        elif shape == 8:    # float32
            values = (size.astype(np.float32) ** 2 + rng.random(2 ** n).astype(np.float32) * 1e-3)
        else:               # all zero / constant
            values = np.full(2 ** n, float(rng.integers(-1, 2)))
        values = np.array(values)
        if shape not in (6, 7, 8) and n > 0 and j % 3 == 0:
            values[0] = 0
        rec(("random_values", j), norm(values))
        predicates(("random", j, "stub"), lambda: Stub(values.copy(), n))
        predicates(("random", j, "stub_np_n"), lambda: Stub(values.copy(), np.int64(n)))
        if n >= 1:
            def icg():
                game = IncompleteCooperativeGame(n)
                game.set_values(values.copy())
                return game
            predicates(("random", j, "icg"), icg)
    # wrong sizes / unknown values: the same exception has to come out
    predicates(("short_values",), lambda: Stub(np.zeros(5), 3))
    predicates(("long_values",), lambda: Stub(np.arange(20.0), 3))
    predicates(("list_values",), lambda: Stub([0.0] * 8, 3))
    predicates(("unknown_values",), lambda: IncompleteCooperativeGame(3))
    predicates(("matrix_values",), lambda: Stub(np.zeros((8, 2)), 3))

    # --- every generator of the registry (they assert the predicates), predicates on the generated games ----------
    for name in G.GENERATORS:
        for n in (3, 4, 5, 6):
            for seed in range(2):
                G._gen.bit_generator.state = np.random.default_rng([seed, n, 99]).bit_generator.state
                G._LAST_OWNER = 0
                gen_rng = np.random.default_rng([n, seed, 5])
                key = ("gen", name, n, seed)
                with warnings.catch_warnings():
                    warnings.simplefilter("ignore")
                    try:
                        game = G.GENERATORS[name](n, gen_rng)
                        values = np.array(game.get_values())
                    except BaseException as e:  # noqa
                        rec(key + ("generate",), ("EXC", type(e).__name__, str(e)))
                        continue
                rec(key + ("values",), norm(values))
                rec(key + ("rng_after",), norm(gen_rng.random()))
                predicates(key + ("game",), lambda: game)
                predicates(key + ("neg",), lambda: Stub(-values, n))
                noise = values * (1 + 1e-9 * np.random.default_rng([seed, n]).choice([-1, 0, 1], size=values.shape))
                predicates(key + ("noisy",), lambda: Stub(noise, n))

    # --- every bounds computer of the registry (the cached ones are built on the id-array functions) --------------
    for bname, computer in B.BOUNDS.items():
        for n in (3, 4, 5, 6):
            if bname in ("sam_apx_100", "sam_apx_1000") and n > 4:
                continue
            for seed in range(3 if bname != "sam_apx_1000" else 1):
                brng = np.random.default_rng([n, seed, 11])
                try:
                    full = G.GENERATORS[("k_budget_generator", "covg_fn_generator", "xos")[seed]](n, brng)
                except BaseException as e:  # noqa
                    rec(("bounds", bname, n, seed, "generate"), ("EXC", type(e).__name__, str(e)))
                    continue
                values = full.get_values()
                ig = IncompleteCooperativeGame(n, computer)
                known_ids = sorted({c.id for c in minimal_game_coalitions(n)}
                                   | {int(x) for x in brng.permutation(2 ** n)[:int(brng.integers(0, 2 ** n))]})
                ig.set_known_values(values[known_ids], [Coalition(i) for i in known_ids])
                rec(("bounds", bname, n, seed, "compute"), wcall(ig.compute_bounds))
                rec(("bounds", bname, n, seed, "intervals"), wcall(ig.get_intervals))

    with open(out, "wb") as f:
        pickle.dump(results, f)


if __name__ == "__main__":
    if len(sys.argv) == 4 and sys.argv[1] == "--worker":
        worker(sys.argv[2], sys.argv[3])
    else:
        main()
