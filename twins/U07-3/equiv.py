"""Differential test for refactoring 3 (game.py: `lambda x: x.id` -> module level operator.attrgetter("id")).

Run with cwd=/tmp/wt10/U07.  The ORIGINAL package is taken from `git archive HEAD` into a temporary directory; the
refactored package is the worktree.  The same driver runs in one subprocess per tree and pickles plain data
(numpy arrays, python scalars, strings); the two result lists are compared exactly.
"""
import io
import os
import pickle  # nosec
import subprocess  # nosec
import sys
import tarfile
import tempfile

WT = "/tmp/wt10/U07"


# --------------------------------------------------------------------------------------------- generic machinery
def freeze(x):
    """Turn a result into plain, picklable, comparable data (keeping types visible)."""
    import numpy as np
    if isinstance(x, np.ndarray):
        return ("nd", str(x.dtype), x.shape, np.array(x, copy=True))
    if isinstance(x, np.generic):
        return ("npscalar", type(x).__name__, np.array(x))
    if isinstance(x, (bool, int, float, str, type(None))):
        return (type(x).__name__, x)
    if isinstance(x, (list, tuple)):
        return (type(x).__name__, [freeze(y) for y in x])
    if isinstance(x, dict):
        return ("dict", [(freeze(k), freeze(v)) for k, v in x.items()])
    if hasattr(x, "id") and type(x).__name__ == "Coalition":
        return ("Coalition", x.id)
    if hasattr(x, "_values") and hasattr(x, "number_of_players"):
        return ("ICG", x.number_of_players, np.array(x._values, copy=True))
    if hasattr(x, "_graph_matrix"):
        return ("GraphGame", np.array(x._graph_matrix, copy=True))
    return ("repr", type(x).__name__, repr(x))


def same(a, b):
    """Exact comparison of frozen data."""
    import numpy as np
    if type(a) is not type(b):
        return False
    if isinstance(a, np.ndarray):
        return a.dtype == b.dtype and a.shape == b.shape and bool(np.array_equal(a, b, equal_nan=a.dtype.kind in "fc"))
    if isinstance(a, (list, tuple)):
        return len(a) == len(b) and all(same(x, y) for x, y in zip(a, b))
    if isinstance(a, float):
        return a == b or (a != a and b != b)
    return a == b


def first_difference(a, b, path="result"):
    """Locate the first place where two frozen results differ."""
    if type(a) is type(b) and isinstance(a, (list, tuple)) and len(a) == len(b):
        for i, (x, y) in enumerate(zip(a, b)):
            if not same(x, y):
                return first_difference(x, y, f"{path}[{i}]")
    return f"{path}: {a!r} != {b!r}"


def guarded(fn):
    """Run fn, return its frozen result or the exception."""
    import warnings
    with warnings.catch_warnings(record=True) as caught:
        warnings.simplefilter("always")
        try:
            r = ("ok", freeze(fn()))
        except BaseException as e:  # noqa
            import re
            r = ("exc", type(e).__name__, re.sub(r"0x[0-9a-fA-F]+", "0xADDR", str(e)))
    return r, [(w.category.__name__, str(w.message)) for w in caught]


def reseed(seed):
    """Reset every global random stream the package may touch."""
    import random

    import numpy as np

    from incomplete_cooperative import generators
    random.seed(seed)
    np.random.seed(seed % 2**32)
    generators._gen.bit_generator.state = np.random.default_rng(seed).bit_generator.state
    generators._LAST_OWNER = 0


def main(worker_cases):
    """Run worker_cases in the original and in the refactored tree, compare."""
    if len(sys.argv) >= 4 and sys.argv[1] == "--worker":
        root, out = sys.argv[2], sys.argv[3]
        sys.path.insert(0, root)
        import incomplete_cooperative
        assert os.path.realpath(incomplete_cooperative.__file__).startswith(os.path.realpath(root)), \
            incomplete_cooperative.__file__  # nosec
        results = worker_cases()
        with open(out, "wb") as f:
            pickle.dump(results, f)
        return 0

    with tempfile.TemporaryDirectory() as tmp:
        orig_root = os.path.join(tmp, "orig")
        os.makedirs(orig_root)
        data = subprocess.run(["git", "-C", WT, "archive", "HEAD", "incomplete_cooperative"],  # nosec
                              check=True, capture_output=True).stdout
        with tarfile.open(fileobj=io.BytesIO(data)) as tar:
            tar.extractall(orig_root)  # nosec
        loaded = []
        for label, root in (("orig", orig_root), ("new", WT)):
            out = os.path.join(tmp, label + ".pkl")
            env = dict(os.environ, OMP_NUM_THREADS="1", MKL_NUM_THREADS="1", PYTHONHASHSEED="0",
                       PYTHONDONTWRITEBYTECODE="1")
            subprocess.run([sys.executable, os.path.abspath(__file__), "--worker", root, out],  # nosec
                           check=True, env=env, cwd=root)
            with open(out, "rb") as f:
                loaded.append(pickle.load(f))  # nosec
    orig, new = loaded
    if len(orig) != len(new):
        print(f"DIFFERENT: number of cases {len(orig)} != {len(new)}")
        return 1
    for (name_o, res_o), (name_n, res_n) in zip(orig, new):
        if name_o != name_n or not same(res_o, res_n):
            print("DIFFERENT")
            print("case:", name_o, name_n)
            print("first difference at", first_difference(res_o, res_n)[:3000])
            return 1
    from collections import Counter
    excs = Counter(f"{name.split('(')[0]}:{r[0][1]}:{r[0][2][:60]}" for name, r in orig if r[0][0] == "exc")
    print(f"EQUIVALENT ({len(orig)} cases, {sum(excs.values())} of them raising identically: {dict(excs)})")
    return 0


# --------------------------------------------------------------------------------------------- the cases
def snapshot(env):
    """Everything observable of the reveal-one-coalition environment."""
    done = env.done
    return {
        "state": env.state, "reward": env.reward, "done": done, "done_type": type(done).__name__,
        "mask": env.action_masks(), "steps_taken": env.steps_taken,
        "table": env.incomplete_game._values.copy(),
        "full": env.full_game, "normalized": env.normalized_game,
    }


def walk(env, drv, n_ops):
    """Random sequence of step / unstep / reset (valid actions, plus a few invalid ones); ignores `done`."""
    import numpy as np
    trace = [snapshot(env)]
    revealed = []
    for _ in range(n_ops):
        mask = env.action_masks()
        valid = [int(i) for i in np.flatnonzero(mask)]
        u = drv.random()
        if u < 0.55 and valid:
            a = valid[int(drv.integers(len(valid)))]
            a = a if drv.random() < 0.5 else np.int64(a)
            res = env.step(a)
            revealed.append(int(a))
            trace.append(("step", int(a), res, type(res[2]).__name__, snapshot(env)))
        elif u < 0.8 and revealed:
            a = revealed.pop(int(drv.integers(len(revealed))))
            res = env.unstep(a)
            trace.append(("unstep", a, res, type(res[2]).__name__, snapshot(env)))
        elif u < 0.9:
            res = env.reset()
            revealed = []
            trace.append(("reset", res, snapshot(env)))
        elif u < 0.95 and revealed:
            a = revealed[0]
            trace.append(("bad-step", a, guarded(lambda: env.step(a))[0], snapshot(env)))  # noqa
        else:
            a = len(mask) + int(drv.integers(3))
            trace.append(("oob-step", a, guarded(lambda: env.step(a))[0], snapshot(env)))  # noqa
    return trace


def gym_case(gen_name, n, bound_name, limit, known_kind, seed, n_ops):
    """Build an ICG_Gym directly and walk it."""
    from functools import partial

    import numpy as np

    from incomplete_cooperative.bounds import BOUNDS
    from incomplete_cooperative.coalitions import (Coalition,
                                                   minimal_game_coalitions)
    from incomplete_cooperative.exploitability import compute_exploitability
    from incomplete_cooperative.game import IncompleteCooperativeGame
    from incomplete_cooperative.generators import GENERATORS
    from incomplete_cooperative.icg_gym import ICG_Gym
    from incomplete_cooperative.norms import l1_norm, l2_norm, linf_norm

    reseed(seed)
    drv = np.random.default_rng(1000 + seed)
    gap = [compute_exploitability, l1_norm, l2_norm, linf_norm][seed % 4]
    game = IncompleteCooperativeGame(n, BOUNDS[bound_name])
    generator = partial(GENERATORS[gen_name], n, np.random.default_rng(seed))
    if known_kind == "minimal":
        known = minimal_game_coalitions(game)
    elif known_kind == "extra":
        extra = [Coalition(int(i)) for i in drv.integers(2**n, size=3)]
        known = list(minimal_game_coalitions(game)) + extra
    elif known_kind == "dup":
        known = list(minimal_game_coalitions(game)) * 2
    else:
        known = []
    if limit == "npint":
        limit = np.int64(2)
    env = ICG_Gym(game, generator, known, gap, limit) if seed % 2 else \
        ICG_Gym(game, generator, known, gap, done_after_n_actions=limit)
    header = {
        "explorable": [c.id for c in env.explorable_coalitions],
        "known": [c.id for c in env.initially_known_coalitions],
        "obs_low": env.observation_space.low, "obs_high": env.observation_space.high,
        "obs_dtype": str(env.observation_space.dtype), "obs_shape": env.observation_space.shape,
        "act_n": env.action_space.n, "act_n_type": type(env.action_space.n).__name__,
        "attrs": sorted(vars(env).keys()),
    }
    return header, walk(env, drv, n_ops)



class Odd:
    """Something that is not a coalition."""

    def __repr__(self):
        return "Odd()"


class IdOnly:
    """Duck-typed coalition."""

    def __init__(self, id):
        self.id = id


def random_coalitions(drv, n, kind):
    """A collection of coalitions in one of several container spellings."""
    import numpy as np

    from incomplete_cooperative.coalitions import Coalition
    size = int(drv.integers(0, 2**n + 2))
    ids = [int(i) for i in drv.integers(0, 2**n, size=size)]
    if kind == "none":
        return None, None
    if kind == "list":
        return [Coalition(i) for i in ids], len(ids)
    if kind == "unique":
        ids = sorted(set(ids))
        return [Coalition(i) for i in ids], len(ids)
    if kind == "tuple":
        return tuple(Coalition(i) for i in ids), len(ids)
    if kind == "gen":
        return (Coalition(i) for i in ids), len(ids)
    if kind == "map":
        return map(Coalition, ids), len(ids)
    if kind == "npid":
        return [Coalition(np.int64(i)) for i in ids], len(ids)
    if kind == "duck":
        return [IdOnly(i) for i in ids], len(ids)
    if kind == "oob":
        return [Coalition(i) for i in ids] + [Coalition(2**n + 3)], len(ids) + 1
    if kind == "neg":
        return [Coalition(-1 - i) for i in ids], len(ids)
    if kind == "int":
        return ids + [3], len(ids) + 1
    if kind == "odd":
        return [Coalition(i) for i in ids] + [Odd()], len(ids) + 1
    if kind == "floatid":
        return [Coalition(i + 0.5) for i in ids] + [Coalition(1.5)], len(ids) + 1
    raise AssertionError(kind)


KINDS = ["none", "list", "unique", "tuple", "gen", "map", "npid", "duck", "oob", "neg", "int", "odd", "floatid",
         "list", "unique", "gen"]


def game_case(seed):
    """Fuzz the coalition-indexed API of IncompleteCooperativeGame."""
    import numpy as np

    from incomplete_cooperative.bounds import BOUNDS
    from incomplete_cooperative.coalitions import Coalition
    from incomplete_cooperative.game import IncompleteCooperativeGame

    reseed(seed)
    drv = np.random.default_rng(seed)
    n = int(drv.integers(1, 6))
    bound_names = list(BOUNDS)[:3]
    game = IncompleteCooperativeGame(n, BOUNDS[bound_names[seed % 3]]) if seed % 4 else IncompleteCooperativeGame(n)
    # start from a partially known table
    game._values[:, 1] = np.round(drv.random(2**n) * 4, 1)
    game._values[:, 2] = game._values[:, 1] + np.round(drv.random(2**n) * 2, 1)
    for i in np.flatnonzero(drv.random(2**n) < 0.5):
        game.set_value(float(drv.random()) * 3, Coalition(int(i)))
    trace = [game._values.copy()]

    def op(name, fn):
        trace.append((name, guarded(fn)[0], game._values.copy()))

    for step in range(12):
        kind = KINDS[int(drv.integers(len(KINDS)))]
        which = int(drv.integers(12))
        coalitions, count = random_coalitions(drv, n, kind)
        size = count if count is not None else 2**n
        if drv.random() < 0.15:
            size = max(0, size + int(drv.integers(-2, 3)))
        values = np.round(drv.random(size) * 5, 2)
        if drv.random() < 0.2:
            values = list(values)
        label = f"{step}:{which}:{kind}"
        if which == 0:
            op(label, lambda: game.get_values(coalitions))
        elif which == 1:
            op(label, lambda: game.get_upper_bounds(coalitions))
        elif which == 2:
            op(label, lambda: game.get_lower_bounds(coalitions))
        elif which == 3:
            op(label, lambda: game.get_intervals(coalitions))
        elif which == 4:
            op(label, lambda: game.are_values_known(coalitions))
        elif which == 5:
            op(label, lambda: game.get_known_values(coalitions))
        elif which == 6:
            op(label, lambda: game.set_values(values, coalitions))
        elif which == 7:
            op(label, lambda: game.set_known_values(values, coalitions))
        elif which == 8:
            op(label, lambda: game.set_upper_bounds(values, coalitions))
        elif which == 9:
            op(label, lambda: game.set_lower_bounds(values, coalitions))
        elif which == 10:
            c = count if (count is not None and drv.random() < 0.7) else -1
            op(label, lambda: game._get_coalition_map(coalitions, c))
        else:
            op(label, lambda: (game.compute_bounds(), game.full, (-game)._values, game == game.copy()))
    return trace


def normalize_case(gen_name, n, seed):
    """normalize / denormalize go through get_values(singletons) and set_value."""
    import numpy as np

    from incomplete_cooperative.generators import GENERATORS
    from incomplete_cooperative.normalize import (denormalize_game,
                                                  normalize_game)
    reseed(seed)
    game = GENERATORS[gen_name](n, np.random.default_rng(seed))
    before = freeze(game)
    info = normalize_game(game)
    middle = freeze(game)
    denormalize_game(game, info)
    return before, info, middle, freeze(game)


def worker_cases():
    """All cases; a list of (name, result)."""
    from incomplete_cooperative.generators import GENERATORS

    results = []

    def run(name, fn):
        results.append((name, guarded(fn)))

    for seed in range(600):
        run(f"game({seed})", lambda seed=seed: game_case(seed))

    all_gens = [g for g in GENERATORS if g != "convex"]
    bounds = ["superadditive", "superadditive_cached", "sam_apx_1", "sam_apx_10"]
    limits = [None, 0, 1, 3, 50]
    for i, gen_name in enumerate(all_gens):
        args = (gen_name, 4, bounds[i % len(bounds)], limits[i % len(limits)],
                ["minimal", "extra", "dup"][i % 3], i, 12)
        run(f"gym{args}", lambda args=args: gym_case(*args))
        run(f"normalize({gen_name}, 4, {i})", lambda gen_name=gen_name, i=i: normalize_case(gen_name, 4, i))
    k = 0
    for gen_name in ["factory", "noisy_factory", "xos", "oxs", "graph_cycle", "graph_random"]:
        for n in (3, 4, 5):
            for bound_name in bounds:
                for limit in (None, 2):
                    k += 1
                    if n == 5 and k % 2:
                        continue
                    known_kind = "none" if k % 19 == 0 else ["minimal", "extra", "dup"][k % 3]
                    args = (gen_name, n, bound_name, limit, known_kind, k, 10)
                    run(f"gym{args}", lambda args=args: gym_case(*args))
    return results


if __name__ == "__main__":
    sys.exit(main(worker_cases))
