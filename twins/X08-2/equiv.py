"""Differential equivalence check for refactoring 2 (bounds.py).

Runs the same driver against the ORIGINAL sources (git HEAD) and the refactored
worktree in two separate interpreters and compares the canonicalised outcomes exactly.
"""
import hashlib
import os
import pickle
import subprocess
import sys
import tempfile

WT = "/tmp/wt_x4_X08"
PY = "/venv/bin/python"

DRIVER = r'''
import itertools, pickle, sys, enum, types
import numpy as np

OUT = []


def canon(o, depth=0):
    if depth > 8:
        return "<deep>"
    if isinstance(o, np.ndarray):
        return "nd(%s,%s,%s)" % (o.dtype.str, o.shape, np.ascontiguousarray(o).tobytes().hex())
    if isinstance(o, np.generic):
        return "npg(%s,%s)" % (o.dtype.str, o.tobytes().hex())
    if isinstance(o, bool):
        return "bool(%s)" % o
    if isinstance(o, enum.Enum):
        return "enum(%s,%r)" % (type(o).__name__, o.value)
    if isinstance(o, int):
        return "int(%d)" % o
    if isinstance(o, float):
        return "float(%s)" % o.hex()
    if o is None:
        return "None"
    if isinstance(o, str):
        return "str(%r)" % o
    if isinstance(o, BaseException):
        return "EXC(%s:%s)" % (type(o).__name__, o)
    if type(o).__name__ == "Coalition" or (hasattr(o, "id") and type(o).__mro__[-2].__name__ == "Coalition"):
        return "%s<%s>" % (type(o).__name__, canon(o.id, depth + 1))
    if isinstance(o, tuple):
        return "tuple(" + ",".join(canon(x, depth + 1) for x in o) + ")"
    if isinstance(o, list):
        return "list(" + ",".join(canon(x, depth + 1) for x in o) + ")"
    if isinstance(o, (set, frozenset)):
        return "set(" + ",".join(sorted(canon(x, depth + 1) for x in o)) + ")"
    if isinstance(o, dict):
        return "dict(" + ",".join(canon(k, depth + 1) + ":" + canon(v, depth + 1) for k, v in o.items()) + ")"
    if isinstance(o, (types.GeneratorType, map, filter, itertools.chain, range)):
        name = type(o).__name__
        items = []
        try:
            for x in o:
                items.append(canon(x, depth + 1))
        except BaseException as e:  # exception raised while iterating is part of the outcome
            items.append(canon(e))
        return "iter[%s](" % name + ",".join(items) + ")"
    return "obj(%s)" % type(o).__name__


def rec(tag, fn, *args):
    try:
        r = fn(*args)
        OUT.append(tag + " -> " + canon(r))
    except BaseException as e:
        OUT.append(tag + " !! " + canon(e))


import pickle as _pk
from functools import partial
from incomplete_cooperative import bounds as B
from incomplete_cooperative.bounds import BOUNDS
from incomplete_cooperative.coalitions import Coalition, minimal_game_coalitions
from incomplete_cooperative.game import IncompleteCooperativeGame
from incomplete_cooperative.generators import GENERATORS
from incomplete_cooperative.norms import l1_norm, l2_norm
from incomplete_cooperative.exploitability import compute_exploitability
from incomplete_cooperative.icg_gym import ICG_Gym
from incomplete_cooperative.solvers.greedy import GreedySolver

# --- registry and module surface -----------------------------------------------------------
rec("keys", lambda: list(BOUNDS))
rec("type", lambda: type(BOUNDS).__name__)
for k, v in BOUNDS.items():
    rec("entry " + k, lambda: (type(v).__name__, getattr(v, "__name__", None), getattr(getattr(v, "func", None), "__name__", None),
                                 getattr(v, "args", None), getattr(v, "keywords", None)))
    rec("pickle " + k, lambda: _pk.dumps(v, protocol=4).hex())
    rec("unpickle " + k, lambda: _pk.loads(_pk.dumps(v)) is v or _pk.loads(_pk.dumps(v)).func is v.func)
for name in ("compute_bounds_superadditive", "compute_bounds_superadditive_cached", "BOUNDS", "CoalitionId", "Coalition",
             "compute_bounds_superadditive_monotone_approx_cached", "_get_sub_super_coalition_structure", "get_all_coalitions",
             "get_size", "get_sub_coalitions_id", "get_super_coalitions_id", "all_coalitions", "get_sub_coalitions",
             "get_super_coalitions", "cache", "partial", "np", "Any", "BoundableIncompleteGame", "GameBoundsComputer"):
    rec("name " + name, lambda: hasattr(B, name))

# --- cached structure ------------------------------------------------------------------------
for n in [0, 1, 2, 3, 4, 5, 6, 7, 8, True, np.int64(3), np.int32(2), -1, -2, 2.0, 1.5, "x", None, (1,), [1]]:
    rec("structure %r" % (n,), B._get_sub_super_coalition_structure, n)
    rec("structure again %r" % (n,), lambda: all(a is b for a, b in zip(B._get_sub_super_coalition_structure(n),
                                                                        B._get_sub_super_coalition_structure(n))))
rec("structure noarg", B._get_sub_super_coalition_structure)
rec("structure kw", lambda: B._get_sub_super_coalition_structure(number_of_players=3))
rec("cache info", lambda: tuple(B._get_sub_super_coalition_structure.cache_info()))


# --- games -----------------------------------------------------------------------------------
def values_for(kind, n, seed):
    r = np.random.default_rng(1000 * n + seed)
    sizes = np.array([bin(i).count("1") for i in range(2**n)], dtype=float)
    if kind == "int":
        v = r.integers(0, 30, 2**n).astype(float)
    elif kind == "convexish":
        v = sizes**2 + r.random(2**n) * 0.3
    elif kind == "float":
        v = r.normal(size=2**n) * 10
    elif kind == "negsam":  # superadditive & monotone decreasing flavour
        v = -np.sqrt(sizes) - r.random(2**n) * 0.01
    elif kind == "gen":
        names = [k for k in ("factory", "xos", "factory_square", "predictible_factory") if k in GENERATORS]  # deterministic given the rng
        return GENERATORS[names[seed % len(names)]](n, np.random.default_rng(seed)).get_values().copy()
    v[0] = 0
    return v


def knowledge(mode, n, seed):
    r = np.random.default_rng(77 * n + seed)
    minimal = sorted({c.id for c in minimal_game_coalitions(n)})
    if mode == "minimal":
        return minimal
    if mode == "full":
        return list(range(2**n))
    if mode == "rand":
        p = r.random()
        return sorted(set(minimal) | {i for i in range(2**n) if r.random() < p})
    if mode == "nosingletons":  # exceptional path of the cached computers (empty reductions) / assert of the plain one
        return sorted({0, 2**n - 1} | {i for i in range(2**n) if bin(i).count("1") > 1 and r.random() < 0.4})
    if mode == "nogrand":
        return [i for i in minimal if i != 2**n - 1]
    if mode == "noempty":
        return minimal


def make(n, name, kind, seed, mode):
    g = IncompleteCooperativeGame(n, BOUNDS[name])
    v = values_for(kind, n, seed)
    ids = knowledge(mode, n, seed)
    g.set_known_values(v[ids], [Coalition(i) for i in ids])
    if mode == "noempty":
        g.unset_value(Coalition(0))
    return g, v


def snap(g):
    return g._values.copy()


def run_compute(g):
    try:
        g.compute_bounds()
        return ("ok", snap(g))
    except BaseException as e:  # the partially written table is part of the outcome
        return (e, snap(g))


KINDS = ["int", "convexish", "float", "negsam", "gen"]
MODES = ["minimal", "full", "rand", "rand", "nosingletons", "nogrand", "noempty"]
FAST = ["superadditive", "superadditive_cached", "sam_apx_1", "sam_apx_10"]
count = 0
for n in (2, 3, 4, 5):
    for name in FAST + (["sam_apx_100"] if n <= 4 else []):
        for kind in KINDS:
            for seed in range(4 if n < 5 else 2):
                for mi, mode in enumerate(MODES):
                    if name == "superadditive" and n == 5 and mode != "rand":
                        continue
                    g, v = make(n, name, kind, seed + 10 * mi, mode)
                    tag = "c %d %s %s %d %s%d" % (n, name, kind, seed, mode, mi)
                    rec(tag, run_compute, g)
                    rec(tag + " twice", run_compute, g)  # stale bounds of the first run are the input of the second
                    count += 1
for n in (2, 3, 4):
    for kind in ("int", "convexish", "negsam"):
        g, v = make(n, "sam_apx_1000", kind, 3, "rand")
        rec("c1000 %d %s" % (n, kind), run_compute, g)
for n in (6, 7):
    for name in ("superadditive_cached", "sam_apx_1"):
        g, v = make(n, name, "convexish", 1, "rand")
        rec("big %d %s" % (n, name), run_compute, g)

# --- direct calls with explicit repetitions: both values of the first-pass flag, exceptional arguments -------------
for reps in [0, 1, 2, 3, 7, -1, -5, True, False, np.int64(2), 1.5, "2", None]:
    for kind in ("int", "negsam"):
        for mode in ("minimal", "rand", "nosingletons"):
            g, v = make(4, "superadditive", kind, 5, mode)
            def call():
                try:
                    B.compute_bounds_superadditive_monotone_approx_cached(g, reps)
                    return ("ok", snap(g))
                except BaseException as e:
                    return (e, snap(g))
            rec("direct %r %s %s" % (reps, kind, mode), call)
            g2, _ = make(3, "superadditive", kind, 6, mode)
            rec("direct kw %r %s %s" % (reps, kind, mode),
                lambda: (B.compute_bounds_superadditive_monotone_approx_cached(g2, repetitions=reps), snap(g2))[1])
rec("direct missing", lambda: B.compute_bounds_superadditive_monotone_approx_cached(make(3, "superadditive", "int", 0, "rand")[0]))
for bad in (None, 3, "g", Coalition(1)):
    for fn in (B.compute_bounds_superadditive, B.compute_bounds_superadditive_cached, BOUNDS["sam_apx_1"]):
        rec("badgame %r %s" % (bad if not isinstance(bad, Coalition) else "C", getattr(fn, "__name__", "partial")), fn, bad)

# --- histories: reveal / unreveal / bulk reset, compute after each ------------------------------------------------
import random
for n in (3, 4):
    for name in FAST:
        for kind in ("int", "convexish", "negsam"):
            for seed in range(3):
                g, v = make(n, name, kind, seed, "minimal")
                rnd = random.Random(n * 100 + seed)
                trace = [run_compute(g)]
                for t in range(25):
                    unknown = [i for i in range(2**n) if not g.is_value_known(Coalition(i))]
                    revealed = [i for i in range(2**n) if g.is_value_known(Coalition(i)) and bin(i).count("1") not in (0, 1, n)]
                    op = rnd.choice(["reveal", "reveal", "unreveal", "reset", "compute"])
                    if op == "reveal" and unknown:
                        i = rnd.choice(unknown)
                        g.reveal_value(v[i], Coalition(i))
                    elif op == "unreveal" and revealed:
                        g.unreveal_value(Coalition(rnd.choice(revealed)))
                    elif op == "reset":
                        ids = knowledge("rand", n, rnd.randrange(1000))
                        g.set_known_values(v[ids], [Coalition(i) for i in ids])
                    trace.append((op, run_compute(g)))
                rec("hist %d %s %s %d" % (n, name, kind, seed), lambda: trace)

# --- through the gym: step / unstep / greedy solver ---------------------------------------------------------------
for n in (3, 4):
    for name in ("superadditive_cached", "sam_apx_1", "superadditive"):
        for gi, gap in enumerate((l1_norm, l2_norm, compute_exploitability)):
            for seed in range(2):
                r = np.random.default_rng(seed)
                gen_name = ["factory", "xos"][seed % 2]
                game = IncompleteCooperativeGame(n, BOUNDS[name])
                env = ICG_Gym(game, partial(GENERATORS[gen_name], n, r), list(minimal_game_coalitions(n)), gap)
                out = [env.reset()[0].copy(), env.reward]
                for solver in (GreedySolver(), GreedySolver(worst=True)):
                    env.reset()
                    for t in range(3):
                        if not np.any(env.action_masks()):
                            break
                        a = solver.next_step(env)
                        st = env.step(a)
                        out.append((a, st[0].copy(), st[1], st[2], st[4], snap(env.incomplete_game)))
                    un = env.unstep(a)
                    out.append((un[0].copy(), un[1], un[2], snap(env.incomplete_game)))
                rec("gym %d %s %d %d" % (n, name, gi, seed), lambda: out)
rec("count", lambda: count)

with open(sys.argv[1], "wb") as f:
    pickle.dump(OUT, f, protocol=4)
'''


def main() -> int:
    with tempfile.TemporaryDirectory() as tmp:
        orig = os.path.join(tmp, "orig")
        os.mkdir(orig)
        subprocess.run("git archive HEAD incomplete_cooperative | tar -x -C %s" % orig, shell=True, check=True, cwd=WT)
        driver = os.path.join(tmp, "driver.py")
        with open(driver, "w") as f:
            f.write(DRIVER)
        outs = {}
        for label, root in (("orig", orig), ("new", WT)):
            out = os.path.join(tmp, label + ".pkl")
            env = dict(os.environ, PYTHONPATH=root, PYTHONHASHSEED="0", OMP_NUM_THREADS="1", PYTHONDONTWRITEBYTECODE="1")
            p = subprocess.run([PY, "-W", "ignore", driver, out], cwd=tmp, env=env, capture_output=True, text=True)
            if p.returncode != 0:
                print(label, "driver failed:\n", p.stdout[-2000:], p.stderr[-4000:])
                return 2
            with open(out, "rb") as f:
                outs[label] = f.read()
        a, b = pickle.loads(outs["orig"]), pickle.loads(outs["new"])
        print("records: orig=%d new=%d  exceptions=%d" % (len(a), len(b), sum(" !! " in x for x in a)))
        print("sha256 orig", hashlib.sha256(outs["orig"]).hexdigest())
        print("sha256 new ", hashlib.sha256(outs["new"]).hexdigest())
        bad = [(i, x, y) for i, (x, y) in enumerate(zip(a, b)) if x != y]
        for i, x, y in bad[:10]:
            print("DIFF #%d\n  orig: %s\n  new : %s" % (i, x[:400], y[:400]))
        if len(a) != len(b) or bad or outs["orig"] != outs["new"]:
            print("NOT EQUIVALENT (%d differing records)" % len(bad))
            return 1
        print("EQUIVALENT")
        return 0


if __name__ == "__main__":
    sys.exit(main())
