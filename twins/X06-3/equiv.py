#!/venv/bin/python
"""Differential equivalence check for patch_3 (rest-unpacking, set and mask operators, class-level truncation flag in icg_gym.py / icg_gym_linear.py).

Runs the same deterministic driver against the ORIGINAL sources (git HEAD, extracted into a temporary
directory) and against the refactored worktree, each in its own interpreter, and compares the pickled
outcomes byte for byte.  Exit status 0 iff identical.
"""
import os
import pickle
import subprocess
import sys
import tempfile

WORKTREE = os.environ.get("X06_WORKTREE", "/tmp/wt_x4_X06")
GIT_TREE = os.environ.get("X06_GIT_TREE", "/tmp/wt_x4_X06")  # where `git archive HEAD` finds the original sources
PYTHON = sys.executable if os.path.exists(sys.executable) else "/venv/bin/python"

DRIVER = r'''
import itertools, os, pickle, sys, types
import numpy as np

import incomplete_cooperative
from incomplete_cooperative import coalitions as C
from incomplete_cooperative.coalitions import (Coalition, all_coalitions, disjoint_coalitions, exclude_coalition,
                                               get_known_coalitions, get_sub_coalitions, get_super_coalitions,
                                               grand_coalition, minimal_game_coalitions, player_to_coalition)
from incomplete_cooperative.game import IncompleteCooperativeGame
from incomplete_cooperative.graph_game import GraphCooperativeGame
from incomplete_cooperative.normalize import denormalize_game, normalize_game
from incomplete_cooperative.protocols import Game
from incomplete_cooperative.shapley import compute_shapley_value, compute_shapley_value_for_player
from incomplete_cooperative.bounds import compute_bounds_superadditive
from incomplete_cooperative.exploitability import compute_exploitability
from incomplete_cooperative.icg_gym import ICG_Gym


def canon(x):
    """Turn an outcome into plain picklable data, exactly (arrays as dtype/shape/bytes)."""
    if isinstance(x, Coalition):
        return ("Coalition", canon(x.id))
    if isinstance(x, np.ndarray):
        if x.dtype == object:
            return ("objarray", x.shape, [canon(i) for i in x.ravel().tolist()])
        return ("ndarray", x.dtype.str, x.shape, np.ascontiguousarray(x).tobytes())
    if isinstance(x, np.generic):
        return ("npscalar", x.dtype.str, x.tobytes())
    if isinstance(x, (bool, int, float, str, bytes, type(None))):
        return (type(x).__name__, repr(x))
    if isinstance(x, (list, tuple)):
        return (type(x).__name__, [canon(i) for i in x])
    if isinstance(x, dict):
        return ("dict", [(canon(k), canon(v)) for k, v in x.items()])
    if isinstance(x, IncompleteCooperativeGame):
        return ("ICG", x.number_of_players, canon(x._values))
    if isinstance(x, GraphCooperativeGame):
        return ("Graph", x.number_of_players, canon(x._graph_matrix))
    if isinstance(x, (types.GeneratorType, map, filter, itertools.chain)):
        return ("iter:" + type(x).__name__, attempt(lambda: [canon(i) for i in x]))
    return ("other", type(x).__module__, type(x).__qualname__)


def attempt(thunk):
    try:
        return ("ok", canon(thunk()))
    except BaseException as exc:  # noqa
        return ("raised", type(exc).__module__, type(exc).__qualname__, str(exc))


OUT = []


def rec(label, thunk):
    OUT.append((label, attempt(thunk)))


import copy
import io
from functools import partial

from incomplete_cooperative.bounds import BOUNDS
from incomplete_cooperative.generators import GENERATORS
from incomplete_cooperative.icg_gym_linear import ICG_Gym_Linear
from incomplete_cooperative.norms import l1_norm, l2_norm, linf_norm
from incomplete_cooperative.run.model import ModelInstance
import incomplete_cooperative.generators as generators_module

# the graph families draw from an unseeded module-level generator: give it a fixed state (in place, the registry
# holds bound methods of this very object)
generators_module._gen.bit_generator.state = np.random.default_rng(20240602).bit_generator.state


def rng_state(rng):
    return repr(rng.bit_generator.state)


def knowledge(env):
    game = env.incomplete_game
    return canon(game._values)


def describe(env):
    """Everything observable about an ICG_Gym (no stepping)."""
    return {
        "dict-keys": list(vars(env)),
        "known": list(env.initially_known_coalitions),
        "explorable": list(env.explorable_coalitions),
        "obs-space": (repr(env.observation_space), env.observation_space.low, env.observation_space.high),
        "act-space": repr(env.action_space),
        "state": env.state, "reward": env.reward, "done": (type(env.done).__name__, env.done),
        "masks": env.action_masks(), "steps": env.steps_taken, "knowledge": knowledge(env),
        "full": env.full_game, "normalized": env.normalized_game,
    }


def describe_linear(lin):
    return {
        "dict-keys": list(vars(lin)),
        "sizes": lin.subset_sizes,
        "obs-space": (repr(lin.observation_space), lin.observation_space.low, lin.observation_space.high),
        "act-space": repr(lin.action_space),
        "state": lin.state, "reward": lin.reward, "done": (type(lin.done).__name__, lin.done),
        "masks": lin.action_masks(), "rng": rng_state(lin.rng),
    }


class _Pickler(pickle.Pickler):
    """The module-level generator carries OS entropy in its seed sequence: pickle it by its (fixed) state only."""

    def persistent_id(self, obj):
        if obj is generators_module._gen:
            return ("module-level generator", repr(obj.bit_generator.state))
        return None


def pickled(obj):
    buffer = io.BytesIO()
    _Pickler(buffer, protocol=4).dump(obj)
    return buffer.getvalue()


FAMILIES = ["factory", "factory_square", "noisy_factory", "noisy_factory_fixed", "factory_cheerleader", "graph",
            "graph_beta_2_3", "graph_poiss_0.5", "predictible_factory"]
GAPS = [compute_exploitability, l1_norm, l2_norm, linf_norm]
cases = 0
for n in range(3, 7):
    for f, family in enumerate(FAMILIES):
        for seed in range(3 if n < 6 else 2):
            cases += 1
            label = (n, family, seed)
            r = np.random.default_rng([n, f, seed])
            gen_rng = np.random.default_rng([7, n, f, seed])
            generator = partial(GENERATORS[family], n, gen_rng)
            bounds = BOUNDS["superadditive" if seed % 2 == 0 else "superadditive_cached"]
            gap = GAPS[(n + f + seed) % len(GAPS)]
            extra = [Coalition(int(i)) for i in r.choice(2**n, size=int(r.integers(0, 4)), replace=False)]
            known_variants = [
                list(minimal_game_coalitions(n)) + extra,
                (c for c in list(minimal_game_coalitions(n)) + extra + extra),           # a generator, with duplicates
                [Coalition(2**i) for i in reversed(range(n))] + extra,                   # without empty / grand coalition
                tuple(extra[::-1]) + tuple(minimal_game_coalitions(n)),
            ]
            known = known_variants[(f + seed) % len(known_variants)]
            limit = [None, None, 2, 0, 5][(n + f + seed) % 5]

            def build(known=known):
                return ICG_Gym(IncompleteCooperativeGame(n, bounds), generator, known, gap, done_after_n_actions=limit)
            built = attempt(lambda: None)
            try:
                env = build()
            except BaseException as exc:  # noqa
                rec(("build-failed",) + label, lambda: (_ for _ in ()).throw(exc))
                continue
            rec(("describe",) + label, lambda: describe(env))
            rec(("pickle",) + label, lambda: pickled(env))
            rec(("class-dict",) + label, lambda: [type(env).__dict__["step"].__name__, "unstep" in type(env).__dict__])

            # ---- the exponential environment on its own: steps, unsteps, faults
            def exp_episode(env=env, r=r):
                log = [env.reset(), knowledge(env)]
                taken = []
                for _ in range(2 * len(env.explorable_coalitions) + 3):
                    masks = env.action_masks()
                    allowed = np.flatnonzero(masks)
                    roll = r.random()
                    if roll < 0.15 and taken:
                        a = taken.pop(int(r.integers(len(taken))))
                        res = attempt(lambda: env.unstep(a))
                        log.append(("unstep", a, res, knowledge(env), env.steps_taken))
                    elif roll < 0.22:
                        a = int(r.integers(-3, len(masks) + 3))  # sometimes known already, sometimes out of range
                        res = attempt(lambda: env.step(a))
                        if res[0] == "ok":
                            taken.append(a)
                        log.append(("wild-step", a, res, knowledge(env), env.steps_taken))
                    elif roll < 0.27:
                        a = int(r.integers(len(masks)))
                        res = attempt(lambda: env.unstep(a))
                        if res[0] == "ok" and a in taken:
                            taken.remove(a)
                        log.append(("wild-unstep", a, res, knowledge(env), env.steps_taken))
                    elif len(allowed):
                        a = int(r.choice(allowed))
                        res = attempt(lambda: env.step(a))
                        taken.append(a)
                        log.append(("step", a, res, [type(x).__name__ for x in res[1][1]] if res[0] == "ok" else None,
                                    knowledge(env), env.steps_taken, env.done))
                    else:
                        break
                return log, rng_state(gen_rng)
            rec(("exp-episode",) + label, exp_episode)

            # ---- the linear environment
            lin_rng = np.random.default_rng([11, n, f, seed])
            lin = ICG_Gym_Linear(env, lin_rng)
            rec(("lin-describe",) + label, lambda: describe_linear(lin))
            rec(("lin-pickle",) + label, lambda: pickled(lin))

            def lin_episode(lin=lin, env=env, r=r, reset_kwargs=({}, {"seed": 3}, {"seed": None, "options": {"a": 1}})):
                log = []
                for episode in range(3):
                    log.append(("reset", lin.reset(**reset_kwargs[episode]), describe_linear(lin), knowledge(env)))
                    for _ in range(len(env.explorable_coalitions) + 4):
                        masks = lin.action_masks()
                        allowed = np.flatnonzero(masks)
                        before = knowledge(env)
                        roll = r.random()
                        if roll < 0.12:
                            # sizes that are out of range, or without any unknown coalition left
                            k = [-1, n, n + 2, 0, 1, n - 1, np.int64(2), 2.0, True, "2", None, np.array([2])][
                                int(r.integers(12))]
                            res = attempt(lambda: lin.step(k))
                            log.append(("wild", repr(k), res, before == knowledge(env), rng_state(lin.rng)))
                            continue
                        if not len(allowed):
                            # stepping on after the end
                            res = attempt(lambda: lin.step(2))
                            log.append(("after-end", res, rng_state(lin.rng)))
                            break
                        k = int(r.choice(allowed)) if roll < 0.9 else np.int64(r.choice(allowed))
                        res = attempt(lambda: lin.step(k))
                        log.append(("step", repr(k), res, masks, before, knowledge(env), rng_state(lin.rng),
                                    lin.state, lin.reward, (type(lin.done).__name__, lin.done), env.steps_taken,
                                    len(res[1][1]) if res[0] == "ok" else None))
                return log, rng_state(gen_rng), pickled(lin)
            rec(("lin-episode",) + label, lin_episode)

            for shape in [(0,), (n,), (len(env.explorable_coalitions) + 1,), (len(env.explorable_coalitions), 1)]:
                rec(("lin-bad-shape",) + label + shape, lambda: lin._sum_values_of_the_same_size(np.ones(shape)))
            rec(("lin-good-shape",) + label, lambda: lin._sum_values_of_the_same_size(
                r.normal(size=len(env.explorable_coalitions))))
            rec(("lin-bool-weights",) + label, lambda: lin._sum_values_of_the_same_size(
                r.random(len(env.explorable_coalitions)) < 0.5))

# ---- unseeded tie-break generator is created when none is passed; everything known from the start
for n in (3, 4):
    full = IncompleteCooperativeGame(n)
    full.set_values(np.array([float(len(Coalition(c)))**2 for c in range(2**n)]))
    env = ICG_Gym(IncompleteCooperativeGame(n, BOUNDS["superadditive"]), full.copy, list(minimal_game_coalitions(n)),
                  compute_exploitability)
    lin = ICG_Gym_Linear(env)
    rec(("lin-default-rng", n), lambda: (type(lin.rng).__name__, list(vars(lin))))
    rec(("nothing-explorable", n), lambda: ICG_Gym(IncompleteCooperativeGame(n, BOUNDS["superadditive"]), full.copy,
                                                   map(Coalition, range(2**n)), compute_exploitability))
    everything = ICG_Gym(IncompleteCooperativeGame(n, BOUNDS["superadditive"]), full.copy,
                         map(Coalition, (c for c in range(2**n) if c != 3)), compute_exploitability)
    rec(("all-known", n), lambda: describe(everything))
    rec(("all-known-step", n), lambda: (everything.step(0), everything.done, attempt(lambda: everything.step(0))))
    rec(("all-known-linear", n), lambda: ICG_Gym_Linear(everything, np.random.default_rng(1)).action_masks())
    rec(("all-known-linear-step", n), lambda: ICG_Gym_Linear(everything, np.random.default_rng(1)).step(2))
    rec(("bad-known", n), lambda: ICG_Gym(IncompleteCooperativeGame(n, BOUNDS["superadditive"]), full.copy, 5,
                                          compute_exploitability))
    rec(("str-known", n), lambda: describe(ICG_Gym(IncompleteCooperativeGame(n, BOUNDS["superadditive"]), full.copy,
                                                   [1, 2, Coalition(4)], compute_exploitability)))
    rec(("truncated-flag", n), lambda: [env.reset() and None, env.step(0)[3] is False, env.unstep(0)[3] is False,
                                        ICG_Gym_Linear(env, np.random.default_rng(2)).step(2)[3] is False])

# ---- through the model instance (the way the training / evaluation code builds environments)
for linear in (False, True):
    for g, family in enumerate(["factory", "noisy_factory", "graph"]):
        for seed in (1, 2):
            for limit in (None, 3):
                instance = ModelInstance(number_of_players=4 + (seed % 2), game_generator=family, linear=linear,
                                         seed=seed * 100 + g, run_steps_limit=limit, unique_name="x",
                                         gap_function=["exploitability", "l1_norm"][seed % 2])

                def through_model(instance=instance):
                    env = instance.get_env()
                    r = np.random.default_rng(5)
                    log = [type(env).__name__, list(vars(env)), env.reset()]
                    for _ in range(40):
                        allowed = np.flatnonzero(env.action_masks())
                        if env.done or not len(allowed):
                            break
                        log.append(env.step(int(r.choice(allowed))))
                    second = instance.get_env()
                    log.append(second.reset())
                    log.append(pickled(env))
                    log.append(rng_state(instance.game_generator_rng))
                    log.append(rng_state(env.np_random))
                    return log
                rec(("model", linear, family, seed, limit), through_model)

rec("cases", lambda: cases)

with open(sys.argv[1], "wb") as fh:
    pickle.dump({"file": incomplete_cooperative.__file__, "outcomes": OUT}, fh, protocol=4)
'''


def start_side(name, pythonpath, workdir):
    driver = os.path.join(workdir, f"driver_{name}.py")
    out = os.path.join(workdir, f"out_{name}.pkl")
    with open(driver, "w") as fh:
        fh.write(DRIVER)
    env = dict(os.environ, PYTHONPATH=pythonpath, PYTHONHASHSEED="0", OMP_NUM_THREADS="1", PYTHONDONTWRITEBYTECODE="1")
    return subprocess.Popen([PYTHON, driver, out], env=env, cwd=workdir), out


def finish_side(started):
    process, out = started
    if process.wait() != 0:
        raise SystemExit(f"driver failed with status {process.returncode}")
    with open(out, "rb") as fh:
        return pickle.loads(fh.read())


def main():
    with tempfile.TemporaryDirectory(prefix="x06_equiv3_") as tmp:
        orig = os.path.join(tmp, "orig")
        os.mkdir(orig)
        archive = subprocess.run(["git", "archive", "HEAD", "incomplete_cooperative"], cwd=GIT_TREE, check=True,
                                 stdout=subprocess.PIPE).stdout
        subprocess.run(["tar", "-x", "-C", orig], input=archive, check=True)
        side_a = start_side("orig", orig, tmp)  # two separate interpreters, side by side
        side_b = start_side("new", WORKTREE, tmp)
        a, b = finish_side(side_a), finish_side(side_b)
        assert a["file"].startswith(orig), a["file"]
        assert b["file"].startswith(WORKTREE), b["file"]
        oa, ob = a["outcomes"], b["outcomes"]
        same = pickle.dumps(oa, protocol=4) == pickle.dumps(ob, protocol=4)
        raised = sum(1 for _, o in oa if o[0] == "raised")
        print(f"patch 3: {len(oa)} outcomes in the original ({raised} of them exceptions), {len(ob)} in the refactored tree")
        if not same:
            shown = 0
            for (la, xa), (lb, xb) in zip(oa, ob):
                if la != lb or xa != xb:
                    print("DIFF", la, lb, str(xa)[:300], str(xb)[:300])
                    shown += 1
                    if shown > 20:
                        break
            print("NOT EQUIVALENT")
            return 1
        print("identical")
        return 0


if __name__ == "__main__":
    sys.exit(main())
