"""Differential equivalence check for refactoring 3 (game.py / icg_gym.py / solvers/greedy.py).

Runs the same driver against the ORIGINAL sources (git HEAD) and the refactored
worktree in two separate interpreters and compares the canonicalised outcomes exactly.
"""
import hashlib
import os
import pickle
import subprocess
import sys
import tempfile

WT = "/tmp/wt_x4_X08"
PY = "/venv/bin/python"

DRIVER = r'''
import itertools, pickle, sys, enum, types
import numpy as np

OUT = []


def canon(o, depth=0):
    if depth > 8:
        return "<deep>"
    if isinstance(o, np.ndarray):
        return "nd(%s,%s,%s)" % (o.dtype.str, o.shape, np.ascontiguousarray(o).tobytes().hex())
    if isinstance(o, np.generic):
        return "npg(%s,%s)" % (o.dtype.str, o.tobytes().hex())
    if isinstance(o, bool):
        return "bool(%s)" % o
    if isinstance(o, enum.Enum):
        return "enum(%s,%r)" % (type(o).__name__, o.value)
    if isinstance(o, int):
        return "int(%d)" % o
    if isinstance(o, float):
        return "float(%s)" % o.hex()
    if o is None:
        return "None"
    if isinstance(o, str):
        return "str(%r)" % o
    if isinstance(o, BaseException):
        return "EXC(%s:%s)" % (type(o).__name__, o)
    if type(o).__name__ == "Coalition" or (hasattr(o, "id") and type(o).__mro__[-2].__name__ == "Coalition"):
        return "%s<%s>" % (type(o).__name__, canon(o.id, depth + 1))
    if isinstance(o, tuple):
        return "tuple(" + ",".join(canon(x, depth + 1) for x in o) + ")"
    if isinstance(o, list):
        return "list(" + ",".join(canon(x, depth + 1) for x in o) + ")"
    if isinstance(o, (set, frozenset)):
        return "set(" + ",".join(sorted(canon(x, depth + 1) for x in o)) + ")"
    if isinstance(o, dict):
        return "dict(" + ",".join(canon(k, depth + 1) + ":" + canon(v, depth + 1) for k, v in o.items()) + ")"
    if isinstance(o, (types.GeneratorType, map, filter, itertools.chain, range)):
        name = type(o).__name__
        items = []
        try:
            for x in o:
                items.append(canon(x, depth + 1))
        except BaseException as e:  # exception raised while iterating is part of the outcome
            items.append(canon(e))
        return "iter[%s](" % name + ",".join(items) + ")"
    return "obj(%s)" % type(o).__name__


def rec(tag, fn, *args):
    try:
        r = fn(*args)
        OUT.append(tag + " -> " + canon(r))
    except BaseException as e:
        OUT.append(tag + " !! " + canon(e))


import pickle as _pk
import random
from functools import partial
from incomplete_cooperative.bounds import BOUNDS
from incomplete_cooperative.coalitions import Coalition, minimal_game_coalitions, all_coalitions
from incomplete_cooperative.game import IncompleteCooperativeGame
from incomplete_cooperative.generators import GENERATORS
from incomplete_cooperative.norms import l1_norm, l2_norm, linf_norm
from incomplete_cooperative.exploitability import compute_exploitability
from incomplete_cooperative.icg_gym import ICG_Gym
from incomplete_cooperative.solvers import SOLVERS
from incomplete_cooperative.solvers.greedy import GreedySolver


def snap(g):
    return g._values.copy()


def values_for(kind, n, seed):
    r = np.random.default_rng(1000 * n + seed)
    sizes = np.array([bin(i).count("1") for i in range(2**n)], dtype=float)
    if kind == "int":
        v = r.integers(-10, 30, 2**n).astype(float)
    elif kind == "convexish":
        v = sizes**2 + r.random(2**n) * 0.3
    elif kind == "float":
        v = r.normal(size=2**n) * 10
    elif kind == "special":
        v = r.choice(np.array([0.0, -0.0, np.inf, -np.inf, np.nan, 1e308, 5e-324, -1.5]), 2**n)
    v[0] = 0
    return v


def knowledge(n, seed, p=None):
    r = np.random.default_rng(77 * n + seed)
    minimal = {c.id for c in minimal_game_coalitions(n)}
    p = r.random() if p is None else p
    return sorted(minimal | {i for i in range(2**n) if r.random() < p})


def make(n, name, kind, seed, p=None):
    g = IncompleteCooperativeGame(n, BOUNDS[name]) if name else IncompleteCooperativeGame(n)
    v = values_for(kind, n, seed)
    ids = knowledge(n, seed, p)
    g.set_known_values(v[ids], [Coalition(i) for i in ids])
    return g, v


# --- __neg__ -------------------------------------------------------------------------------------------------------
for n in range(1, 7):
    for kind in ("int", "convexish", "float", "special"):
        for seed in range(6):
            for name in (None, "superadditive_cached", "sam_apx_1"):
                g, v = make(n, name, kind, seed, 1.0 if seed == 0 else None)
                if name and kind != "special" and n > 1:
                    try:
                        g.compute_bounds()
                    except BaseException:
                        pass
                before = snap(g)

                def neg():
                    m = -g
                    mm = -m
                    return (snap(m), snap(mm), m is not g, m._values is not g._values, m._bounds_computer is g._bounds_computer,
                            m.number_of_players, np.array_equal(before, snap(g), equal_nan=True), type(m).__name__,
                            m._values.flags["C_CONTIGUOUS"], m._values.dtype.str)
                rec("neg %d %s %d %s" % (n, kind, seed, name), neg)
g, _ = make(3, None, "int", 0)
g._values = g._values[:, :2]
rec("neg narrow table", lambda: snap(-g))
g, _ = make(3, None, "int", 0)
g._values = np.asfortranarray(g._values)
rec("neg fortran table", lambda: snap(-g))
g, _ = make(2, None, "int", 0)
g._values = g._values.astype(np.float32)
rec("neg f32 table", lambda: snap(-g))

# --- __add__ -------------------------------------------------------------------------------------------------------
for n in range(1, 6):
    for seed in range(6):
        for kind in ("int", "float", "special"):
            a, _ = make(n, None, kind, seed, 1.0)
            b, _ = make(n, "superadditive", "convexish", seed + 1, 1.0)
            rec("add %d %d %s" % (n, seed, kind), lambda: (snap(a + b), snap(b + a), snap(a + a), snap(a), snap(b),
                                                           (a + b)._bounds_computer is a._bounds_computer))
            c, _ = make(n, None, kind, seed, 0.3)
            rec("add partial L %d %d %s" % (n, seed, kind), lambda: snap(c + b))
            rec("add partial R %d %d %s" % (n, seed, kind), lambda: snap(b + c))
            d, _ = make(n + 1, None, "int", seed, 1.0)
            rec("add other n %d %d %s" % (n, seed, kind), lambda: snap(a + d))
for other in (None, 3, "g", Coalition(1), np.zeros((8, 3))):
    a, _ = make(3, None, "int", 0, 1.0)
    rec("add bad %s" % type(other).__name__, lambda: a + other)
    rec("radd bad %s" % type(other).__name__, lambda: other + a)


# --- _get_coalition_map / set_upper_bounds / set_lower_bounds ---------------------------------------------------------------
class Gen:
    """A re-creatable generator argument."""


rnd = random.Random(5)
for n in (1, 2, 3, 4, 5):
    for seed in range(8):
        g, v = make(n, None, "float", seed)
        k = rnd.randrange(0, 2**n + 1)
        ids = [rnd.randrange(2**n) for _ in range(k)] if seed % 2 else rnd.sample(range(2**n), k)
        cs = [Coalition(i) for i in ids]
        rec("map none %d %d" % (n, seed), g._get_coalition_map, None)
        rec("map none count %d %d" % (n, seed), g._get_coalition_map, None, 3)
        rec("map list %d %d" % (n, seed), g._get_coalition_map, cs)
        rec("map list count %d %d" % (n, seed), g._get_coalition_map, cs, len(cs))
        rec("map gen %d %d" % (n, seed), g._get_coalition_map, (c for c in cs))
        rec("map gen count %d %d" % (n, seed), g._get_coalition_map, iter(cs), len(cs))
        rec("map short count %d %d" % (n, seed), g._get_coalition_map, cs, len(cs) + 1)
        rec("map long count %d %d" % (n, seed), g._get_coalition_map, cs, max(len(cs) - 1, 0))
        rec("map kw %d %d" % (n, seed), lambda: g._get_coalition_map(coalitions=cs, count=-1))
        rec("map out of range %d %d" % (n, seed), g._get_coalition_map, cs + [Coalition(2**n)])
        rec("map negative %d %d" % (n, seed), g._get_coalition_map, [Coalition(-1)])
        rec("map bad items %d %d" % (n, seed), g._get_coalition_map, [1, 2])
        rec("map bad arg %d %d" % (n, seed), g._get_coalition_map, 5)
        rec("map result writable/fresh %d %d" % (n, seed),
            lambda: (g._get_coalition_map(None) is not g._get_coalition_map(None), g._get_coalition_map(None).flags["WRITEABLE"],
                     g._get_coalition_map(cs).flags["OWNDATA"], g._get_coalition_map([]).dtype.str))
        new = np.random.default_rng(seed).normal(size=2**n)
        for setter in ("set_upper_bounds", "set_lower_bounds"):
            h = g.copy()
            rec("%s all %d %d" % (setter, n, seed), lambda: (getattr(h, setter)(new), snap(h))[1])
            h = g.copy()
            rec("%s some %d %d" % (setter, n, seed), lambda: (getattr(h, setter)(new[ids], cs), snap(h))[1])
            h = g.copy()
            rec("%s some gen %d %d" % (setter, n, seed), lambda: (getattr(h, setter)(new[ids], iter(cs)), snap(h))[1])
            h = g.copy()
            rec("%s mismatch %d %d" % (setter, n, seed), lambda: (getattr(h, setter)(new[:1], cs + cs[:1] + [Coalition(0)]), snap(h))[1])
            h = g.copy()
            rec("%s wrong len %d %d" % (setter, n, seed), lambda: (getattr(h, setter)(new[:-1]), snap(h))[1])
            h = g.copy()
            rec("%s list values %d %d" % (setter, n, seed), lambda: (getattr(h, setter)(list(new[ids]), cs), snap(h))[1])

# --- unset / unreveal (docstrings only changed) ------------------------------------------------------------------------
for n in (2, 3, 4):
    for seed in range(5):
        g, v = make(n, "superadditive_cached", "convexish", seed)
        g.compute_bounds()
        out = []
        for i in range(2**n):
            for op in ("unset_value", "unreveal_value"):
                h = g.copy()
                try:
                    getattr(h, op)(Coalition(i))
                    out.append(("ok", snap(h)))
                except BaseException as e:
                    out.append((e, snap(h)))
        rec("unset %d %d" % (n, seed), lambda: out)

# --- ICG_Gym construction: the initially known set and everything derived from its order -----------------------------------
def describe(env):
    return ([c.id for c in env.initially_known_coalitions], [c.id for c in env.explorable_coalitions],
            type(env.initially_known_coalitions).__name__, env.state.copy(), env.reward, env.done, env.action_masks().copy(),
            env.observation_space.shape, env.observation_space.dtype.str, int(env.action_space.n), snap(env.incomplete_game),
            env.steps_taken)


def mk_env(n, bounds, gen_name, seed, known, gap, done_after=None):
    r = np.random.default_rng(seed)
    game = IncompleteCooperativeGame(n, BOUNDS[bounds])
    return ICG_Gym(game, partial(GENERATORS[gen_name], n, r), known, gap, done_after)


rnd = random.Random(11)
KNOWN_KINDS = ["minimal", "minimal_gen", "minimal_set", "shuffled", "dups", "no_trivial", "extra", "extra_gen", "tuple"]
for n in (2, 3, 4, 5):
    for seed in range(6):
        for kk in KNOWN_KINDS:
            minimal = list(minimal_game_coalitions(n))
            extra = [Coalition(i) for i in rnd.sample(range(2**n), rnd.randrange(0, 2**n // 2))]
            known = {"minimal": minimal, "minimal_gen": minimal_game_coalitions(n), "minimal_set": set(minimal),
                     "shuffled": rnd.sample(minimal, len(minimal)), "dups": minimal + minimal[::-1] + [Coalition(0)],
                     "no_trivial": [Coalition.from_players([i]) for i in range(n)], "extra": minimal + extra,
                     "extra_gen": (c for c in extra + minimal[2:]), "tuple": tuple(minimal[::-1])}[kk]
            gen_name = ["factory", "xos", "factory_square"][seed % 3]
            bounds = ["superadditive_cached", "sam_apx_1", "superadditive"][seed % 3 if n < 5 else 0]
            gap = [l1_norm, l2_norm, linf_norm, compute_exploitability][seed % 4]
            rec("env %d %d %s" % (n, seed, kk), lambda: describe(mk_env(n, bounds, gen_name, seed, known, gap)))
for bad in (None, 5, [1, 2], "ab", [None]):
    rec("env bad known %r" % (bad,), lambda: describe(mk_env(3, "superadditive_cached", "factory", 0, bad, l1_norm)))
rec("env missing singletons", lambda: describe(mk_env(3, "superadditive", "factory", 0, [], l1_norm)))
rec("env missing singletons cached", lambda: describe(mk_env(3, "superadditive_cached", "factory", 0, [], l1_norm)))

# --- episodes: step / unstep / greedy and greedy_worst through the registry ------------------------------------------------
rec("solvers", lambda: [(k, type(v).__name__, getattr(v, "__name__", None), getattr(v, "keywords", None)) for k, v in SOLVERS.items()])
for w in (False, True, 0, 1, None, "x", "", [], [0], 2.5):
    rec("solver pickle %r" % (w,), lambda: (_pk.dumps(GreedySolver(worst=w), protocol=4).hex(), vars(GreedySolver(None, w))))
for n in (3, 4):
    for seed in range(4):
        for si, sname in enumerate(("greedy", "greedy_worst")):
            for gi, gap in enumerate((l1_norm, l2_norm, compute_exploitability)):
                bounds = ["superadditive_cached", "sam_apx_1"][(seed + gi) % 2]
                env = mk_env(n, bounds, ["factory", "xos"][seed % 2], seed, list(minimal_game_coalitions(n)), gap,
                             None if seed % 2 else 4)
                solver = SOLVERS[sname]()
                out = []
                for ep in range(2):
                    st, info = env.reset(seed=seed + ep)
                    solver.after_reset(env)
                    out.append((st.copy(), snap(info["game"])))
                    for t in range(2**n):
                        try:
                            a = solver.next_step(env)
                        except BaseException as e:
                            out.append(e)
                            break
                        before = snap(env.incomplete_game)
                        s, rwd, done, trunc, inf = env.step(a)
                        out.append((a, s.copy(), rwd, type(rwd).__name__, done, trunc, inf, snap(env.incomplete_game)))
                        if t % 3 == 2:  # undo and redo: bounds, reward and observation must come back
                            u = env.unstep(a)
                            out.append(("un", u[0].copy(), u[1], u[2], np.array_equal(before, snap(env.incomplete_game)), env.steps_taken))
                            env.step(a)
                        if done and t % 2:
                            break
                out.append(describe(env))
                rec("episode %d %d %s %d" % (n, seed, sname, gi), lambda: out)
try:
    env = mk_env(3, "superadditive_cached", "factory", 1, list(minimal_game_coalitions(3)), l1_norm)
    rec("env pickle", lambda: len(_pk.dumps(env)) and _pk.dumps(env, protocol=4).hex())
except BaseException as e:
    rec("env pickle setup", lambda: (_ for _ in ()).throw(e))


# --- a scripted gym: ties, NaN, mixed types, incomparable values, no valid action, odd `worst` flags -----------------------------
class FakeGym:
    def __init__(self, values, mask=None):
        self.values = values
        self.mask = np.ones(len(values), bool) if mask is None else np.array(mask, bool)
        self.log = []

    def action_masks(self):
        self.log.append("mask")
        return self.mask

    def step(self, action):
        self.log.append(("step", action))
        return None, self.values[action], False, False, {}

    def unstep(self, action):
        self.log.append(("unstep", action))
        return None, None, False, False, {}


class Flag:
    def __init__(self, v, log):
        self.v, self.log = v, log

    def __bool__(self):
        self.log.append("flag")
        return self.v


nan = float("nan")
VALUE_LISTS = [[1.0, 2.0, 2.0, 0.5], [3, 3, 3], [nan, 1.0, 2.0], [1.0, nan, 0.0], [nan, nan], [-0.0, 0.0], [0.0, -0.0],
               [np.float64(1.5), 1.5, 2], [1, "a"], ["b", "a", "b"], [None, 1], [], [5], [np.float32(0.1), 0.1],
               [np.array([1, 2]), np.array([0, 3])], [True, 1, 1.0], [(1, 2), (1, 3)], [float("inf"), -float("inf"), 1e308]]
r5 = random.Random(5)
for t in range(300):
    k = r5.randrange(1, 9)
    VALUE_LISTS.append([r5.choice([0.0, 1.0, -1.0, 2.5, nan, -0.0, 3]) for _ in range(k)])
for vi, vals in enumerate(VALUE_LISTS):
    masks = [None, [i % 2 == 0 for i in range(len(vals))], [False] * len(vals)]
    for mi, mask in enumerate(masks):
        for w in (False, True, 0, 1, None, "x", "", [], np.bool_(True), np.array([True, False])):
            fg = FakeGym(vals, mask)
            s = GreedySolver(None, w)
            rec("fake %d %d %r" % (vi, mi, w if not isinstance(w, np.ndarray) else "arr"), lambda: (s.next_step(fg), fg.log))
            rec("fake log %d %d" % (vi, mi), lambda: fg.log)
        fg = FakeGym(vals, mask)
        s = GreedySolver()
        s.worst = Flag(bool(vi % 2), fg.log)  # when the flag is read relative to the gym calls is part of the outcome
        rec("fake flag %d %d" % (vi, mi), lambda: (s.next_step(fg), fg.log))
        rec("fake flag log %d %d" % (vi, mi), lambda: fg.log)

with open(sys.argv[1], "wb") as f:
    pickle.dump(OUT, f, protocol=4)
'''


def main() -> int:
    with tempfile.TemporaryDirectory() as tmp:
        orig = os.path.join(tmp, "orig")
        os.mkdir(orig)
        subprocess.run("git archive HEAD incomplete_cooperative | tar -x -C %s" % orig, shell=True, check=True, cwd=WT)
        driver = os.path.join(tmp, "driver.py")
        with open(driver, "w") as f:
            f.write(DRIVER)
        outs = {}
        for label, root in (("orig", orig), ("new", WT)):
            out = os.path.join(tmp, label + ".pkl")
            env = dict(os.environ, PYTHONPATH=root, PYTHONHASHSEED="0", OMP_NUM_THREADS="1", PYTHONDONTWRITEBYTECODE="1")
            p = subprocess.run([PY, "-W", "ignore", driver, out], cwd=tmp, env=env, capture_output=True, text=True)
            if p.returncode != 0:
                print(label, "driver failed:\n", p.stdout[-2000:], p.stderr[-4000:])
                return 2
            with open(out, "rb") as f:
                outs[label] = f.read()
        a, b = pickle.loads(outs["orig"]), pickle.loads(outs["new"])
        print("records: orig=%d new=%d  exceptions=%d" % (len(a), len(b), sum(" !! " in x for x in a)))
        print("sha256 orig", hashlib.sha256(outs["orig"]).hexdigest())
        print("sha256 new ", hashlib.sha256(outs["new"]).hexdigest())
        bad = [(i, x, y) for i, (x, y) in enumerate(zip(a, b)) if x != y]
        for i, x, y in bad[:10]:
            print("DIFF #%d\n  orig: %s\n  new : %s" % (i, x[:400], y[:400]))
        if len(a) != len(b) or bad or outs["orig"] != outs["new"]:
            print("NOT EQUIVALENT (%d differing records)" % len(bad))
            return 1
        print("EQUIVALENT")
        return 0


if __name__ == "__main__":
    sys.exit(main())
