"""Differential test: original (git HEAD) game.py against the refactored one in the worktree.

Run with cwd=/tmp/wt9/T10:  OMP_NUM_THREADS=1 /venv/bin/python /tmp/twin_out/T10/equiv_1.py
Both implementations are driven by the same random sequences of public operations (valid and invalid arguments, lists,
generators, arrays, views of the game itself); after every operation the result (type, dtype, shape, bytes, aliasing with the
table), the exception (type and message) and the whole internal table are compared exactly.
"""
from __future__ import annotations

import atexit
import importlib
import io
import os
import shutil
import subprocess
import sys
import tarfile
import tempfile
from pathlib import Path

import collections
import warnings

import numpy as np

warnings.simplefilter("ignore", RuntimeWarning)
STATS: dict = collections.Counter()
FOCUS = os.environ.get("EQUIV_FOCUS", "values")  # which operations get extra weight
WORKTREE = Path.cwd()
ALIAS = "icg_orig"


def load_original():
    """Write the HEAD version of the package to a temp dir under another package name and import it."""
    tmp = Path(tempfile.mkdtemp(prefix="icg_orig_"))
    tar_bytes = subprocess.run(["git", "-C", str(WORKTREE), "archive", "HEAD", "incomplete_cooperative"],
                               capture_output=True, check=True).stdout
    with tarfile.open(fileobj=io.BytesIO(tar_bytes)) as tar:
        tar.extractall(tmp)
    (tmp / "incomplete_cooperative").rename(tmp / ALIAS)
    for py in (tmp / ALIAS).rglob("*.py"):
        py.write_text(py.read_text().replace("incomplete_cooperative", ALIAS))
    sys.path.insert(0, str(tmp))
    atexit.register(shutil.rmtree, str(tmp), True)
    return tmp


load_original()
sys.path.insert(0, str(WORKTREE))
orig_game_mod = importlib.import_module(ALIAS + ".game")
orig_coal_mod = importlib.import_module(ALIAS + ".coalitions")
new_game_mod = importlib.import_module("incomplete_cooperative.game")
new_coal_mod = importlib.import_module("incomplete_cooperative.coalitions")
assert Path(orig_game_mod.__file__).resolve() != Path(new_game_mod.__file__).resolve()
assert str(WORKTREE) in str(Path(new_game_mod.__file__).resolve())


class Side:
    """One implementation with its current pool of games."""

    def __init__(self, game_mod, coal_mod):
        self.G = game_mod.IncompleteCooperativeGame
        self.C = coal_mod.Coalition
        self.games = []


def bounds_computer(game):
    """A deterministic bounds computer going through the public bulk setters."""
    n = 2**game.number_of_players
    game.set_lower_bounds(np.arange(n, dtype=float) - 3)
    game.set_upper_bounds(np.arange(n, dtype=float) * 2 + 1)


def norm(x, side, game=None):
    """Turn a result into something exactly comparable across the implementations."""
    if isinstance(x, side.G):
        return ("game", x.number_of_players, norm(x._values, side))
    if isinstance(x, np.ndarray):
        shares = bool(game is not None and np.shares_memory(x, game._values))
        return ("nd", str(x.dtype), x.shape, x.tobytes(), shares, bool(x.flags.writeable))
    if isinstance(x, np.generic):
        return ("npscalar", type(x).__name__, x.tobytes())
    if isinstance(x, float):
        return ("float", np.float64(x).tobytes())
    if isinstance(x, (bool, int, str, type(None))):
        return (type(x).__name__, x)
    if isinstance(x, (list, tuple)):
        return (type(x).__name__, tuple(norm(y, side, game) for y in x))
    return ("other", type(x).__name__, repr(x))


SPECIAL = [0.0, -0.0, 1.0, -1.0, np.nan, np.inf, -np.inf, 1e300, 5e-324, 3, -7, True]


def rand_value(rng):
    k = rng.integers(0, 4)
    if k == 0:
        return SPECIAL[rng.integers(0, len(SPECIAL))]
    if k == 1:
        return int(rng.integers(-5, 6))
    return float(rng.normal() * 10)


def rand_values(rng, size):
    vals = [rand_value(rng) for _ in range(size)]
    kind = rng.integers(0, 4)
    if kind == 0:
        return ("list", vals)
    if kind == 1:
        return ("array", vals)
    if kind == 2:
        return ("intarray", [int(v) if np.isfinite(v) else 0 for v in vals])
    return ("array32", vals)


def build_values(spec):
    kind, vals = spec
    if kind == "list":
        return list(vals)
    if kind == "array":
        return np.array(vals, dtype=float)
    if kind == "intarray":
        return np.array(vals, dtype=int)
    if kind == "array32":
        return np.array(vals, dtype=np.float32)
    if kind == "gen":
        return (v for v in vals)
    if kind == "scalar":
        return vals
    raise AssertionError(kind)


def rand_coal_ids(rng, n_players):
    total = 2**n_players
    kind = rng.integers(0, 8)
    if kind == 0:
        return None
    if kind == 1:
        return []
    if kind == 2:  # with duplicates
        return [int(i) for i in rng.integers(0, total, size=rng.integers(1, total + 2))]
    if kind == 3:  # out of range somewhere
        ids = [int(i) for i in rng.integers(0, total, size=rng.integers(1, 5))]
        ids[rng.integers(0, len(ids))] = int(total + rng.integers(0, 3)) if rng.integers(0, 2) else -int(rng.integers(1, total + 3))
        return ids
    if kind == 4:
        return list(range(total))
    size = rng.integers(1, total + 1)
    return [int(i) for i in rng.permutation(total)[:size]]


def build_coalitions(side, ids, as_kind):
    if ids is None:
        return None
    coals = [side.C(i) for i in ids]
    if as_kind == "gen":
        return (c for c in coals)
    if as_kind == "tuple":
        return tuple(coals)
    if as_kind == "map":
        return map(lambda c: c, coals)
    return coals


BULK_SETTERS = ["set_upper_bounds", "set_lower_bounds", "set_values", "set_known_values"]
BULK_GETTERS = ["get_values", "get_known_values", "get_upper_bounds", "get_lower_bounds", "get_intervals",
                "are_values_known"]
SINGLE_SETTERS = ["set_value", "reveal_value", "set_upper_bound", "set_lower_bound"]
SINGLE_NOARG = ["unset_value", "unreveal_value", "get_value", "get_known_value", "is_value_known", "get_upper_bound",
                "get_lower_bound", "get_interval"]
WHOLE = ["neg", "negneg", "copy", "copy_indep", "eq", "add", "full", "compute_bounds", "init", "selfview_upper",
         "selfview_lower", "selfview_known", "selfview_values", "repr_known", "filter", "coalition_map", "new"]


def rand_op(rng, n_players):
    """Draw the description of one operation (independent of the implementation)."""
    weights = {"bulk_set": 4, "bulk_get": 3, "single_set": 3, "single_noarg": 3, "whole": 3}
    if FOCUS == "bounds":
        weights["bulk_set"] = 9
    else:
        weights["single_noarg"] = 5
        weights["whole"] = 6
        weights["bulk_get"] = 5
    names = list(weights)
    p = np.array([weights[k] for k in names], dtype=float)
    group = names[rng.choice(len(names), p=p / p.sum())]
    total = 2**n_players
    target = int(rng.integers(0, 3))
    if group == "bulk_set":
        name = BULK_SETTERS[rng.integers(0, len(BULK_SETTERS))]
        ids = rand_coal_ids(rng, n_players)
        size = total if ids is None else len(ids)
        mis = rng.integers(0, 6)
        if mis == 0:
            size = max(0, size + int(rng.integers(-2, 3)))
        spec = rand_values(rng, size)
        r = rng.integers(0, 12)
        if r == 0:
            spec = ("gen", spec[1])
        elif r == 1:
            spec = ("scalar", rand_value(rng))
        as_kind = ["list", "gen", "tuple", "map"][rng.integers(0, 4)]
        return (group, name, target, ids, as_kind, spec)
    if group == "bulk_get":
        name = BULK_GETTERS[rng.integers(0, len(BULK_GETTERS))]
        ids = rand_coal_ids(rng, n_players)
        as_kind = ["list", "gen", "tuple", "map"][rng.integers(0, 4)]
        return (group, name, target, ids, as_kind, bool(rng.integers(0, 2)))
    cid = int(rng.integers(0, total)) if rng.integers(0, 10) else int(rng.integers(-total - 2, total + 3))
    if group == "single_set":
        return (group, SINGLE_SETTERS[rng.integers(0, len(SINGLE_SETTERS))], target, cid, rand_value(rng))
    if group == "single_noarg":
        return (group, SINGLE_NOARG[rng.integers(0, len(SINGLE_NOARG))], target, cid)
    name = WHOLE[rng.integers(0, len(WHOLE))]
    return (group, name, target, int(rng.integers(0, 3)), rand_coal_ids(rng, n_players), int(rng.integers(-1, total + 2)),
            int(rng.integers(1, 6)))


def apply_op(side, op):
    """Apply the operation on one side, return (normalised outcome)."""
    group, name, target = op[0], op[1], op[2]
    game = side.games[target % len(side.games)]
    try:
        if group == "bulk_set":
            _, _, _, ids, as_kind, spec = op
            values = build_values(spec)
            coalitions = build_coalitions(side, ids, as_kind)
            if ids is None and as_kind == "gen":
                res = getattr(game, name)(values)
            else:
                res = getattr(game, name)(values, coalitions)
        elif group == "bulk_get":
            _, _, _, ids, as_kind, mutate = op
            coalitions = build_coalitions(side, ids, as_kind)
            res = getattr(game, name)(coalitions) if ids is not None or as_kind != "gen" else getattr(game, name)()
            out = norm(res, side, game)
            if mutate and isinstance(res, np.ndarray) and res.size and res.dtype != np.bool_:
                res.flat[0] = 42.5  # writes through views must hit (or not hit) the table identically
            return ("ok", out)
        elif group == "single_set":
            _, _, _, cid, value = op
            res = getattr(game, name)(value, side.C(cid))
        elif group == "single_noarg":
            _, _, _, cid = op
            res = getattr(game, name)(side.C(cid))
            if name == "get_interval" and isinstance(res, np.ndarray):
                out = norm(res, side, game)
                return ("ok", out)
        else:
            _, _, _, other_i, ids, count, n_new = op
            other = side.games[other_i % len(side.games)]
            if name == "neg":
                res = -game
                side.games[other_i % len(side.games)] = res
            elif name == "negneg":
                res = -(-game)
            elif name == "copy":
                res = game.copy()
                side.games[other_i % len(side.games)] = res
            elif name == "copy_indep":
                cp = game.copy()
                before = game._values.copy()
                cp.set_values(np.arange(2**cp.number_of_players, dtype=float))
                cp.unset_value(side.C(1))
                res = [bool(np.array_equal(before, game._values, equal_nan=True)), cp,
                       cp._bounds_computer is game._bounds_computer]
            elif name == "eq":
                res = [game == other, game == game.copy(), game != other]
            elif name == "add":
                res = game + other
            elif name == "full":
                res = game.full
            elif name == "compute_bounds":
                res = game.compute_bounds()
            elif name == "init":
                res = game._init_values()
            elif name == "selfview_upper":
                res = game.set_upper_bounds(game.get_lower_bounds())
            elif name == "selfview_lower":
                res = game.set_lower_bounds(game.get_upper_bounds()[::-1])
            elif name == "selfview_known":
                res = game.set_known_values(game.get_known_values())
            elif name == "selfview_values":
                coals = None if ids is None else [side.C(i) for i in ids]
                res = game.set_known_values(game.get_upper_bounds(coals), coals)
            elif name == "repr_known":
                res = repr(game)
            elif name == "filter":
                coals = None if ids is None else (side.C(i) for i in ids)
                res = game._filter_out_coalitions(game._values[:, 2], coals)
            elif name == "coalition_map":
                coals = None if ids is None else (side.C(i) for i in ids)
                res = game._get_coalition_map(coals, count)
            elif name == "new":
                res = side.G(n_new, bounds_computer if count % 2 else side.G(1)._bounds_computer)
                if n_new == side.games[0].number_of_players:
                    side.games[other_i % len(side.games)] = res
            else:
                raise AssertionError(name)
        return ("ok", norm(res, side, game))
    except BaseException as e:  # noqa
        if isinstance(e, (KeyboardInterrupt, SystemExit)):
            raise
        return ("exc", type(e).__name__, str(e))


def state(side):
    return tuple(norm(g, side) for g in side.games)


def run_sequence(seed, n_ops):
    rng = np.random.default_rng(seed)
    n_players = int(rng.integers(1, 6))
    sides = [Side(orig_game_mod, orig_coal_mod), Side(new_game_mod, new_coal_mod)]
    init_rng_seed = int(rng.integers(0, 2**31))
    for side in sides:
        r2 = np.random.default_rng(init_rng_seed)
        for j in range(3):
            g = side.G(n_players, bounds_computer) if j != 1 else side.G(n_players)
            if j == 2:
                g.set_values(r2.normal(size=2**n_players))
            elif j == 0:
                ids = r2.permutation(2**n_players)[:r2.integers(0, 2**n_players)]
                for i in ids:
                    g.set_value(float(r2.normal()), side.C(int(i)))
            side.games.append(g)
    if state(sides[0]) != state(sides[1]):
        return ("initial state", seed)
    count = 0
    for step in range(n_ops):
        op = rand_op(rng, n_players)
        outs = [apply_op(side, op) for side in sides]
        count += 1
        STATS[(op[1], outs[0][0])] += 1
        if outs[0] != outs[1]:
            return ("result", seed, step, op, outs)
        s0, s1 = state(sides[0]), state(sides[1])
        if s0 != s1:
            return ("state", seed, step, op, outs)
    return count


def main():
    total = 0
    n_exc = 0
    for seed in range(1000, 1400):
        r = run_sequence(seed, 60)
        if not isinstance(r, int):
            print("DIFFERENT")
            print(r)
            sys.exit(1)
        total += r
    # class level checks
    for attr in ("_values_is_known_index", "_values_lower_index", "_values_upper_index"):
        if getattr(orig_game_mod.IncompleteCooperativeGame, attr) != getattr(new_game_mod.IncompleteCooperativeGame, attr):
            print("DIFFERENT", attr)
            sys.exit(1)
    pub_o = sorted(k for k in vars(orig_game_mod.IncompleteCooperativeGame) if not k.startswith("_"))
    pub_n = sorted(k for k in vars(new_game_mod.IncompleteCooperativeGame) if not k.startswith("_"))
    if pub_o != pub_n:
        print("DIFFERENT public API", pub_o, pub_n)
        sys.exit(1)
    print(f"{total} operations compared (focus={FOCUS})")
    for name in sorted({k[0] for k in STATS}):
        print(f"  {name:18s} ok={STATS[(name, 'ok')]:5d} exc={STATS[(name, 'exc')]:5d}")
    print("EQUIVALENT")


if __name__ == "__main__":
    main()
