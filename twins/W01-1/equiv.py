"""Differential test for refactoring 1 (bounds.py: NamedTuple result, registry filled by update, np.fromiter sizes).

Run with cwd=/tmp/wt12/W01.  Loads the ORIGINAL sources from git (HEAD) into a temporary package `ic_orig` and the
working-tree sources into `ic_new`, runs both on the same inputs and compares the results exactly.
"""
import importlib
import os
import pickle
import shutil
import subprocess
import sys
import tempfile
from functools import partial

import numpy as np

WT = os.getcwd()
PKG = "incomplete_cooperative"
MODULES = ["__init__", "protocols", "functoolz", "coalitions", "coalition_ids", "game", "bounds", "game_properties"]


def _load(name, original):
    root = tempfile.mkdtemp(prefix=f"{name}_")
    os.makedirs(os.path.join(root, name))
    for mod in MODULES:
        rel = f"{PKG}/{mod}.py"
        if original:
            src = subprocess.run(["git", "-C", WT, "show", f"HEAD:{rel}"], check=True, capture_output=True).stdout
        else:
            with open(os.path.join(WT, rel), "rb") as f:
                src = f.read()
        with open(os.path.join(root, name, f"{mod}.py"), "wb") as f:
            f.write(src)
    sys.path.insert(0, root)
    importlib.invalidate_caches()
    mods = {m: importlib.import_module(f"{name}.{m}") for m in MODULES if m != "__init__"}
    return root, mods


class Different(Exception):
    pass


def same(a, b):
    """Exact, type-aware equality."""
    if isinstance(a, np.ndarray) or isinstance(b, np.ndarray):
        return (isinstance(a, np.ndarray) and isinstance(b, np.ndarray) and a.dtype == b.dtype
                and a.shape == b.shape and np.array_equal(a, b, equal_nan=a.dtype.kind in "fc"))
    if isinstance(a, (tuple, list)) or isinstance(b, (tuple, list)):
        return (isinstance(a, (tuple, list)) and isinstance(b, (tuple, list)) and isinstance(a, tuple) == isinstance(b, tuple)
                and len(a) == len(b) and all(same(x, y) for x, y in zip(a, b)))
    if type(a).__name__ != type(b).__name__:
        return False
    if isinstance(a, (float, np.floating)):
        return (np.isnan(a) and np.isnan(b)) or a == b
    return a == b


def call(f, *args, **kwargs):
    try:
        return ("ok", f(*args, **kwargs))
    except BaseException as e:  # noqa
        return ("exc", type(e).__name__, str(e))


def check(label, a, b):
    if not same(a, b):
        raise Different(f"{label}\n  original: {a!r}\n  refactored: {b!r}")


def popcount(x):
    return bin(x).count("1")


def random_game_values(rng, n, kind):
    """Return a vector of 2**n values; kind: int superadditive / float superadditive / arbitrary."""
    v = np.zeros(2**n)
    if kind == "arbitrary":
        v[1:] = rng.normal(size=2**n - 1) * 10
        return v
    for S in sorted(range(1, 2**n), key=popcount):
        best = 0.0
        A = (S - 1) & S
        while A:
            best = max(best, v[A] + v[S ^ A])
            A = (A - 1) & S
        if kind == "int":
            v[S] = best + float(rng.integers(0, 4))
        else:
            v[S] = best + float(rng.random()) * (rng.random() < 0.7)
    return v


def make_plan(rng, n, kind):
    """A sequence of operations, decided once and applied to both implementations."""
    v = random_game_values(rng, n, kind)
    minimal = [0, 2**n - 1] + [2**i for i in range(n)]
    mode = rng.choice(["minimal", "minimal", "minimal", "no_grand", "no_singleton", "nothing"])
    known = set(minimal)
    if mode == "no_grand":
        known.discard(2**n - 1)
    elif mode == "no_singleton" and n > 1:
        known.discard(2**int(rng.integers(n)))
    elif mode == "nothing":
        known = {0}
    for c in range(2**n):
        if rng.random() < rng.choice([0.0, 0.2, 0.6]):
            known.add(c)
    ops = [("init", sorted(known))]
    for _ in range(int(rng.integers(1, 7))):
        ops.append((rng.choice(["compute", "reveal", "unreveal", "reset", "compute"]), int(rng.integers(2**n)),
                    float(rng.random())))
    ops.append(("compute", 0, 0.0))
    return v, ops


def run_plan(mods, computer_name, n, v, ops):
    """Apply the plan; return the list of snapshots."""
    Coalition = mods["coalitions"].Coalition
    Game = mods["game"].IncompleteCooperativeGame
    computer = mods["bounds"].BOUNDS[computer_name]
    game = Game(n, computer)
    out = []
    for op in ops:
        if op[0] == "init":
            game.set_known_values(v[op[1]], [Coalition(c) for c in op[1]])
            res = ("ok", None)
        elif op[0] == "compute":
            res = call(game.compute_bounds)
        elif op[0] == "reveal":
            res = call(game.reveal_value, v[op[1]], Coalition(op[1]))
        elif op[0] == "unreveal":
            res = call(game.unreveal_value, Coalition(op[1]))
        elif op[0] == "reset":
            keep = [c for c in range(2**n) if game.is_value_known(Coalition(c)) and (popcount(c) in (0, 1, n) or
                                                                                      (c * 0.37 + op[2]) % 1 < 0.5)]
            res = call(game.set_known_values, v[keep], (Coalition(c) for c in keep))
        out.append((op[0], res, game._values.copy()))
    return out


def main():
    root_o, orig = _load("ic_orig", True)
    root_n, new = _load("ic_new", False)
    cases = 0
    try:
        # 1. the registry: same keys in the same order, same kind of entries
        bo, bn = orig["bounds"].BOUNDS, new["bounds"].BOUNDS
        check("registry keys", list(bo), list(bn))
        for key in bo:
            fo, fn = bo[key], bn[key]
            check(f"entry type {key}", type(fo).__name__, type(fn).__name__)
            if isinstance(fo, partial):
                check(f"partial {key}", (fo.func.__name__, fo.args, fo.keywords), (fn.func.__name__, fn.args, fn.keywords))
            else:
                check(f"function {key}", fo.__name__, fn.__name__)
            # picklability of registry entries (used with multiprocessing) is the same
            check(f"pickle {key}", call(pickle.dumps, fo)[0], call(pickle.dumps, fn)[0])
            cases += 1

        # 2. the cached coalition structure
        for n in range(0, 8):
            so = orig["bounds"]._get_sub_super_coalition_structure(n)
            sn = new["bounds"]._get_sub_super_coalition_structure(n)
            check(f"structure n={n} len", len(so), len(sn))
            check(f"structure n={n}", tuple(so), tuple(sn))
            a, b, c = sn  # unpacking still works
            check(f"structure n={n} unpack", tuple(so), (a, b, c))
            check(f"structure n={n} is tuple", isinstance(so, tuple), isinstance(sn, tuple))
            # the cache returns the same object on repeated calls in both
            check(f"structure n={n} cached", so is orig["bounds"]._get_sub_super_coalition_structure(n),
                  sn is new["bounds"]._get_sub_super_coalition_structure(n))
            cases += 1
        for bad in (-1, 1.5, "x"):
            check(f"structure bad {bad!r}", call(orig["bounds"]._get_sub_super_coalition_structure, bad)[:2],
                  call(new["bounds"]._get_sub_super_coalition_structure, bad)[:2])
            cases += 1

        # 3. the bound computers on random games and operation sequences
        budget = {"superadditive": 160, "superadditive_cached": 220, "sam_apx_1": 120, "sam_apx_10": 60, "sam_apx_100": 24,
                  "sam_apx_1000": 6}
        for name in bo:
            for seed in range(budget[name]):
                rng = np.random.default_rng([seed, len(name)])
                max_n = 4 if name in ("sam_apx_100", "sam_apx_1000") else 5
                n = int(rng.integers(1, max_n + 1))
                kind = ["int", "float", "arbitrary"][seed % 3]
                v, ops = make_plan(rng, n, kind)
                ro = run_plan(orig, name, n, v, ops)
                rn = run_plan(new, name, n, v, ops)
                check(f"computer={name} seed={seed} n={n} kind={kind} ops={ops}", ro, rn)
                cases += 1
    except Different as e:
        print("DIFFERENT")
        print(e)
        return 1
    finally:
        shutil.rmtree(root_o, ignore_errors=True)
        shutil.rmtree(root_n, ignore_errors=True)
    print(f"EQUIVALENT ({cases} cases)")
    return 0


if __name__ == "__main__":
    sys.exit(main())
