"""Differential test for refactoring 2 (meta_game.py: MetaGame.get_value split into a translating method and a module-level function).

Run with cwd=/tmp/wt12/W07.  The ORIGINAL package is exported from git HEAD into a temporary directory, the REFACTORED
one is the worktree.  Each is imported in its own subprocess (the package uses absolute imports, so it cannot be renamed),
runs the same list of cases and pickles a canonical form of every result; the parent compares them exactly.
"""
import io
import os
import pickle  # nosec
import subprocess  # nosec
import sys
import tarfile
import tempfile
from pathlib import Path

WORKTREE = Path.cwd()


# --------------------------------------------------------------------------------------------------------------------
# canonical forms
def canon(obj):
    """Turn a result into something that can be pickled and compared with ==, bit for bit."""
    import numpy as np
    if isinstance(obj, np.ndarray):
        return ("ndarray", str(obj.dtype), obj.shape, np.ascontiguousarray(obj).tobytes(),
                bool(obj.flags["C_CONTIGUOUS"]), bool(obj.flags["F_CONTIGUOUS"]))
    if isinstance(obj, np.generic):
        return ("npscalar", str(obj.dtype), obj.tobytes())
    if isinstance(obj, float):
        return ("float", obj.hex())
    if isinstance(obj, (bool, int, str, type(None))):
        return (type(obj).__name__, obj)
    if isinstance(obj, (list, tuple)):
        return (type(obj).__name__, [canon(x) for x in obj])
    if isinstance(obj, dict):
        return ("dict", [(canon(k), canon(v)) for k, v in obj.items()])
    if type(obj).__name__ == "Coalition":
        return ("Coalition", obj.id)
    raise TypeError(f"cannot canonicalise {type(obj)}")


def guarded(fn):
    """Run a case; exceptions are part of the observable behaviour."""
    try:
        return ("ok", canon(fn()))
    except BaseException as e:  # noqa
        return ("exc", type(e).__name__, str(e))


# --------------------------------------------------------------------------------------------------------------------
# the cases (executed inside the worker, i.e. with one of the two source trees)
def make_gap_sum(game):
    """One more gap function."""
    import numpy as np
    return np.sum(game.get_upper_bounds() - game.get_lower_bounds())


def run_cases():
    import numpy as np
    from incomplete_cooperative import gameplay, generators, meta_game
    from incomplete_cooperative.bounds import BOUNDS
    from incomplete_cooperative.coalitions import (Coalition, all_coalitions,
                                                   minimal_game_coalitions)
    from incomplete_cooperative.game import IncompleteCooperativeGame
    from incomplete_cooperative.generators import GENERATORS
    from incomplete_cooperative.meta_game import MetaGame
    from incomplete_cooperative.run.model import GAP_FUNCTIONS
    from incomplete_cooperative.supermodularity_check import \
        check_supermodularity

    results = []

    def record(name, fn):
        # the graph generators draw from an unseeded module-level stream: put it into a known state before every case
        generators._gen.bit_generator.state = np.random.default_rng(len(results)).bit_generator.state
        results.append((name, guarded(fn)))

    gap_funcs = dict(GAP_FUNCTIONS)
    gap_funcs["sum_gap"] = make_gap_sum
    gen_names = [g for g in GENERATORS if g != "convex" and not g.startswith("graph_beta_")
                 and not g.startswith("graph_poiss_")] + ["graph_beta_2_3", "graph_poiss_1"]
    bounds_names = list(BOUNDS)

    def build(gen_name, n, seed, bounds_name, preknown=()):
        full = GENERATORS[gen_name](n, np.random.default_rng(seed))
        incomplete = IncompleteCooperativeGame(n, BOUNDS[bounds_name])
        known = [Coalition(i) for i in preknown]
        if known:
            incomplete.set_known_values(full.get_values(known), known)
        return full, incomplete

    def state_of(meta):
        return [np.copy(meta._incomplete._values), [c.id for c in meta.k_zero], [c.id for c in meta.players],
                meta.number_of_players]

    pick = np.random.default_rng(2024)
    case_no = 0
    for gen_name in gen_names:
        for seed in (0, 1, 2):
            for n in (3, 4):
                case_no += 1
                gap_name = list(gap_funcs)[case_no % len(gap_funcs)]
                bounds_name = bounds_names[case_no % len(bounds_names)] if seed == 2 else "superadditive"
                gap = gap_funcs[gap_name]
                number_of_meta_players = 2**n - 2 - n
                if n == 3:
                    meta_ids = list(range(2**number_of_meta_players))
                else:
                    meta_ids = [0, 2**number_of_meta_players - 1] + [int(x) for x in pick.integers(
                        0, 2**number_of_meta_players, 6)]
                label = f"{gen_name} n={n} seed={seed} gap={gap_name} bounds={bounds_name}"

                def one_by_one(gen_name=gen_name, n=n, seed=seed, bounds_name=bounds_name, gap=gap, meta_ids=meta_ids):
                    full, incomplete = build(gen_name, n, seed, bounds_name, preknown=[0, 3] if seed == 1 else ())
                    before = np.copy(incomplete._values)
                    meta = MetaGame(full, incomplete, gap)
                    out = [state_of(meta)]
                    for meta_id in meta_ids:
                        value = meta.get_value(Coalition(meta_id))
                        out.append([meta_id, value, type(value).__name__, np.copy(meta._incomplete._values)])
                    # the game handed in is not touched, the own copy is
                    out.append([np.array_equal(before, incomplete._values, equal_nan=True),
                                meta._incomplete is incomplete])
                    return out
                record("get_value " + label, one_by_one)

                def many(gen_name=gen_name, n=n, seed=seed, bounds_name=bounds_name, gap=gap, meta_ids=meta_ids):
                    full, incomplete = build(gen_name, n, seed, bounds_name)
                    meta = MetaGame(full, incomplete, gap)
                    out = [meta.get_values([Coalition(i) for i in meta_ids]),
                           meta.get_values(Coalition(i) for i in reversed(meta_ids)),
                           meta.get_values([]), np.copy(meta._incomplete._values)]
                    if n == 3:
                        out.append(meta.get_values())
                    return out
                record("get_values " + label, many)

                # the same quantity through the exhaustive search of `gameplay`
                if n == 3 and seed == 0:
                    def against_search(gen_name=gen_name, n=n, seed=seed, bounds_name=bounds_name, gap=gap):
                        full, incomplete = build(gen_name, n, seed, bounds_name,
                                                 preknown=[c.id for c in minimal_game_coalitions(n)])
                        meta = MetaGame(full, incomplete, gap)
                        searched = gameplay.get_exploitabilities_of_action_sequences(incomplete, full, gap)
                        out = []
                        for sequence, gap_value in searched:
                            meta_coalition = Coalition.from_players(meta.players.index(c) for c in sequence)
                            meta_value = meta.get_value(meta_coalition)
                            out.append([[c.id for c in sequence], meta_coalition.id, gap_value, meta_value,
                                        bool(gap_value == meta_value)])
                        return out
                    record("search " + label, against_search)

                    def supermodular(gen_name=gen_name, n=n, seed=seed, bounds_name=bounds_name, gap=gap):
                        full, incomplete = build(gen_name, n, seed, bounds_name)
                        meta = MetaGame(full, incomplete, gap)
                        res = check_supermodularity(meta)
                        return [None if res is None else [res[0].id, res[1].id, res[2]],
                                np.copy(meta._incomplete._values)]
                    record("supermodularity " + label, supermodular)

                # meta-players that do not exist, inner games that cannot answer, gap functions that fail
                def out_of_range(gen_name=gen_name, n=n, seed=seed, bounds_name=bounds_name, gap=gap):
                    full, incomplete = build(gen_name, n, seed, bounds_name)
                    meta = MetaGame(full, incomplete, gap)
                    meta.get_value(Coalition(1))
                    before = np.copy(meta._incomplete._values)
                    try:
                        meta.get_value(Coalition(2**(2**n - 2 - n) + 1))
                    except BaseException as e:  # noqa
                        return [type(e).__name__, str(e), np.array_equal(before, meta._incomplete._values,
                                                                         equal_nan=True)]
                    return ["no error"]
                record("out of range " + label, out_of_range)

    for seed in range(8):
        def failing_gap(seed=seed):
            calls = []

            def gap(game):
                calls.append(np.copy(game._values))
                if len(calls) == 2:
                    raise RuntimeError("gap failed")
                return make_gap_sum(game)
            full, incomplete = build("noisy_factory", 4, seed, "superadditive")
            meta = MetaGame(full, incomplete, gap)
            try:
                got = meta.get_values([Coalition(5), Coalition(6), Coalition(7)])
            except BaseException as e:  # noqa
                got = [type(e).__name__, str(e)]
            return [got, calls, np.copy(meta._incomplete._values)]
        record(f"failing gap seed={seed}", failing_gap)

        def unknown_inner(seed=seed):
            # the inner game is itself incomplete: reading its values raises
            full, incomplete = build("noisy_factory", 3, seed, "superadditive")
            inner = IncompleteCooperativeGame(3, BOUNDS["superadditive"])
            known = [c for c in all_coalitions(3) if c.id != 3 + (seed % 3)]
            inner.set_known_values(full.get_values(known), known)
            meta = MetaGame(inner, incomplete, make_gap_sum)
            out = []
            for meta_id in range(8):
                try:
                    out.append(meta.get_value(Coalition(meta_id)))
                except BaseException as e:  # noqa
                    out.append([type(e).__name__, str(e)])
                out.append(np.copy(meta._incomplete._values))
            return out
        record(f"unknown inner seed={seed}", unknown_inner)

    # the public surface of the module: nothing that existed is gone or has another signature
    def surface():
        import inspect
        names = sorted(n for n in vars(MetaGame) if not n.startswith("__"))
        return [[n for n in names if n in ("number_of_players", "get_values", "get_value", "copy")],
                str(inspect.signature(MetaGame.__init__)), str(inspect.signature(MetaGame.get_value)),
                str(inspect.signature(MetaGame.get_values)), isinstance(vars(MetaGame)["number_of_players"], property)]
    record("surface", surface)
    return results


# --------------------------------------------------------------------------------------------------------------------
def worker(root: str, out: str) -> None:
    sys.path.insert(0, root)
    import incomplete_cooperative
    assert Path(incomplete_cooperative.__file__).resolve().is_relative_to(Path(root).resolve()), \
        incomplete_cooperative.__file__  # nosec
    results = run_cases()
    with open(out, "wb") as f:
        pickle.dump(results, f)


def export_original(target: Path) -> None:
    data = subprocess.run(["git", "-C", str(WORKTREE), "archive", "HEAD", "incomplete_cooperative"],  # nosec
                          check=True, capture_output=True).stdout
    with tarfile.open(fileobj=io.BytesIO(data)) as tar:
        tar.extractall(target)  # nosec


def main() -> int:
    env = dict(os.environ, OMP_NUM_THREADS="1", MKL_NUM_THREADS="1", PYTHONDONTWRITEBYTECODE="1")
    env.pop("PYTHONPATH", None)
    with tempfile.TemporaryDirectory() as tmp:
        tmp_path = Path(tmp)
        original_root = tmp_path / "original"
        original_root.mkdir()
        export_original(original_root)
        outputs = {}
        for name, root in (("original", original_root), ("refactored", WORKTREE)):
            out = tmp_path / f"{name}.pkl"
            subprocess.run([sys.executable, __file__, "--worker", str(root), str(out)],  # nosec
                           check=True, env=env, cwd=tmp)
            with out.open("rb") as f:
                outputs[name] = pickle.load(f)  # nosec
    original, refactored = outputs["original"], outputs["refactored"]
    changed = subprocess.run(["git", "-C", str(WORKTREE), "diff", "--stat"], capture_output=True,  # nosec
                             text=True, check=True).stdout.strip()
    print(f"cases: {len(original)}; failing in both trees the same way: "
          f"{sum(1 for _, r in original if r[0] == 'exc')}")
    from collections import Counter
    print("exceptions by case family:", dict(Counter((n.split()[0], r[1]) for n, r in original if r[0] == "exc")))
    print("worktree diff:", changed.splitlines()[-1] if changed else "(none!)")
    if [n for n, _ in original] != [n for n, _ in refactored]:
        print("DIFFERENT: the case lists differ")
        return 1
    for (name, a), (_, b) in zip(original, refactored):
        if a != b:
            print("DIFFERENT")
            print("case:", name)
            print("original:  ", repr(a)[:2000])
            print("refactored:", repr(b)[:2000])
            return 1
    print("EQUIVALENT")
    return 0


if __name__ == "__main__":
    if len(sys.argv) > 1 and sys.argv[1] == "--worker":
        worker(sys.argv[2], sys.argv[3])
    else:
        sys.exit(main())
