"""Differential test of refactoring 2 (`save_json` split into `load_saved_runs` / `replace_results_file`, `save` reusing the loader).

Run with cwd=/tmp/wt12/W10.  The ORIGINAL package is exported from git (`git archive HEAD incomplete_cooperative`) into a
temporary directory; the same scenario list is then executed in two fresh interpreters, one importing the original package
and one importing the refactored worktree.  Every scenario is reduced to a canonical picklable value (array dtype / shape /
raw bytes, file bytes, exception type and message, state of the mutated inputs) and the two lists are compared exactly.
"""
from __future__ import annotations

import io
import os
import pickle
import subprocess
import sys
import tarfile
import tempfile
from pathlib import Path

WORKTREE = Path("/tmp/wt12/W10")
PYTHON = "/venv/bin/python"


# --------------------------------------------------------------------------------------------------------------------
# worker: runs inside a fresh interpreter with `root` first on sys.path
# --------------------------------------------------------------------------------------------------------------------
def canon(obj):
    """Reduce a value to something picklable whose equality is exact (bit for bit for arrays and floats)."""
    import argparse
    import numpy as np
    if isinstance(obj, np.ndarray):
        if obj.dtype == object:
            return ("ndarray-object", obj.shape, canon(obj.tolist()))
        return ("ndarray", str(obj.dtype), obj.shape, np.ascontiguousarray(obj).tobytes(),
                obj.flags["C_CONTIGUOUS"], obj.flags["WRITEABLE"])
    if isinstance(obj, np.generic):
        return ("npscalar", str(obj.dtype), obj.tobytes())
    if isinstance(obj, float):
        import struct
        return ("float", struct.pack("<d", obj))
    if isinstance(obj, (bool, int, str, bytes, type(None))):
        return (type(obj).__name__, obj)
    if isinstance(obj, dict):
        return ("dict", type(obj).__name__, [(canon(k), canon(v)) for k, v in obj.items()])  # order matters
    if isinstance(obj, (list, tuple)):
        return (type(obj).__name__, [canon(x) for x in obj])
    if isinstance(obj, argparse.Namespace):
        return ("Namespace", canon(vars(obj)))
    if isinstance(obj, BaseException):
        return ("exception", type(obj).__name__, str(obj))
    return ("repr", type(obj).__name__, repr(obj))


def attempt(fn):
    """Call `fn` and return its canonical result or its canonical exception."""
    try:
        return ("ok", canon(fn()))
    except BaseException as e:  # noqa: B902 - KeyboardInterrupt etc. are part of the comparison
        return ("raised", type(e).__name__, str(e))


def tree_snapshot(root: Path):
    """All files below `root` with their bytes, sorted."""
    return sorted((str(p.relative_to(root)), p.read_bytes() if p.is_file() else None) for p in root.rglob("*"))


def worker(root: str, out_file: str) -> None:
    sys.path.insert(0, root)
    import json
    import re
    from argparse import Namespace
    from unittest.mock import patch

    import numpy as np

    import incomplete_cooperative
    assert Path(incomplete_cooperative.__file__).resolve().is_relative_to(Path(root).resolve()), incomplete_cooperative.__file__
    from incomplete_cooperative.run import save as save_mod
    assert Path(save_mod.__file__).resolve().is_relative_to(Path(root).resolve())
    Output = save_mod.Output

    scratch = Path(tempfile.mkdtemp(prefix="equiv2_")).resolve()
    os.chdir(scratch)  # relative paths only: identical messages in both interpreters
    results = []

    # every file-system effect inside the scratch directory, in order (open with its mode, rename = os.replace, mkdir, remove)
    events: list = []

    def hook(event, args):
        if event in ("open", "os.rename", "os.mkdir", "os.remove", "os.rmdir", "os.truncate"):
            names = [os.path.abspath(os.fspath(a)) if isinstance(a, (str, os.PathLike)) else a for a in args
                     if isinstance(a, (str, os.PathLike, type(None)))]
            if any(isinstance(n, str) and n.startswith(str(scratch)) for n in names):
                mode = args[1] if event == "open" else None
                events.append((event, [os.path.relpath(n, scratch) for n in names if isinstance(n, str)], mode))
    sys.addaudithook(hook)

    def drain():
        got = [e for e in events if not e[1][0].endswith(".png")]
        del events[:]
        return got

    addr = re.compile(r"0x[0-9a-fA-F]+")

    def strip(x):
        if isinstance(x, str):
            return addr.sub("0x?", x)
        if isinstance(x, tuple):
            return tuple(strip(y) for y in x)
        if isinstance(x, list):
            return [strip(y) for y in x]
        return x

    class Bomb:
        """An argument whose serialisation interrupts the dump half-way through the file."""

        def __init__(self, exc):
            self.exc = exc

        def __repr__(self):
            raise self.exc

    rng = np.random.default_rng(77)

    def random_output(i, bomb=None):
        steps = int(rng.integers(1, 6))
        reps = int(rng.integers(1, 5))
        data = rng.random((steps + 1, reps))
        if i % 3 == 0:
            data[steps // 2 + 1:] = np.nan
        if i % 2:
            actions = rng.integers(0, 32, size=(steps, reps)).astype(float)
            actions[rng.random(actions.shape) < 0.3] = np.nan
        else:
            actions = np.full((steps + 1, reps, steps), np.nan)
            for a in range(steps + 1):
                actions[a, :, :a] = rng.integers(0, 32, size=(reps, a))
        extras = {"seed": i, "model_dir": Path("m") / str(i), "gamma": 0.1 * i, "func": ["eval", "solve", None][i % 3]}
        if bomb is not None:
            extras = {"before": 1, "bomb": bomb, "after": 2, **extras}
        return Output(data, actions, Namespace(**extras))

    names_pool = ["a", "b", "c", "2024-03-19T10:11:12.123456", "", "data.json", "x/y", "é", "a.tmp"]

    def snapshot(directory: Path):
        return canon(tree_snapshot(directory)) if directory.exists() else None

    # ---- 1. random sequences of save_json calls (new names, repeated names), file bytes after every step
    for seq in range(60):
        directory = Path(f"seq_{seq}")
        directory.mkdir()
        path = directory / ["data.json", "results", "data.json.json", ".hidden"][seq % 4]
        for step in range(int(rng.integers(2, 9))):
            name = names_pool[int(rng.integers(0, len(names_pool)))]
            out = random_output(seq * 10 + step)
            results.append(("seq-save_json", (seq, step), strip(attempt(lambda: save_mod.save_json(path, name, out)))))
            results.append(("seq-files", (seq, step), snapshot(directory)))
            results.append(("seq-events", (seq, step), canon(drain())))
            results.append(("seq-readback", (seq, step), strip(attempt(
                lambda: [(k, v.data, v.actions, v.parsed_args) for k, v in save_mod.get_outputs_from_file(path).items()]))))
            drain()

    # ---- 2. interruptions at every stage of a save
    crash_id = 0
    for existing in (None, 0, 1, 3):
        for exc in (KeyboardInterrupt(), RuntimeError("boom"), SystemExit(3), MemoryError(), OSError(28, "No space left on device")):
            for stage in ("serialise", "dump-midway", "dump-before", "replace", "replace-after", "open-tmp", "read-existing"):
                for stale_tmp in (False, True):
                    crash_id += 1
                    directory = Path(f"crash_{crash_id}")
                    directory.mkdir()
                    path = directory / "data.json"
                    if existing is not None:
                        for n in range(existing + 1):
                            save_mod.save_json(path, f"old{n}", random_output(n)) if n else path.write_text("{}")
                    if stale_tmp:
                        (directory / "data.json.tmp").write_text('{"half": [1, 2')
                    drain()
                    before = snapshot(directory)
                    real_dump, real_replace, real_open, real_load = json.dump, os.replace, open, json.load
                    out = random_output(crash_id, bomb=Bomb(exc) if stage == "serialise" else None)

                    def dump_midway(obj, fp, **kw):
                        text = json.dumps(obj, **kw)
                        fp.write(text[: len(text) // 2])
                        fp.flush()
                        raise exc

                    def dump_before(obj, fp, **kw):
                        raise exc

                    def replace_fails(src, dst, **kw):
                        raise exc

                    def replace_after(src, dst, **kw):
                        real_replace(src, dst, **kw)
                        raise exc

                    import io as _io

                    def io_open_fails(file, mode="r", *a, **kw):
                        if "w" in mode and str(file).endswith(".tmp"):
                            raise exc
                        return real_open(file, mode, *a, **kw)

                    def io_open_read_fails(file, mode="r", *a, **kw):
                        if "w" not in mode and str(file).endswith("data.json"):
                            raise exc
                        return real_open(file, mode, *a, **kw)

                    patches = {
                        "serialise": [],
                        "dump-midway": [patch.object(json, "dump", dump_midway)],
                        "dump-before": [patch.object(json, "dump", dump_before)],
                        "replace": [patch.object(os, "replace", replace_fails)],
                        "replace-after": [patch.object(os, "replace", replace_after)],
                        # both spellings of opening a file end in io.open / builtins.open: fail both
                        "open-tmp": [patch.object(_io, "open", io_open_fails), patch("builtins.open", io_open_fails)],
                        "read-existing": [patch.object(_io, "open", io_open_read_fails), patch("builtins.open", io_open_read_fails)],
                    }[stage]
                    for p in patches:
                        p.start()
                    try:
                        res = attempt(lambda: save_mod.save_json(path, "new", out))
                    finally:
                        for p in patches:
                            p.stop()
                    after = snapshot(directory)
                    results.append(("crash", (existing, type(exc).__name__, stage, stale_tmp), strip(res), after,
                                    after == before, canon(drain())))
                    # the results file still parses and a later save still works
                    results.append(("crash-then-read", crash_id, strip(attempt(
                        lambda: sorted(json.loads(path.read_text()).keys()) if path.exists() else "absent"))))
                    results.append(("crash-then-save", crash_id,
                                    strip(attempt(lambda: save_mod.save_json(path, "later", random_output(crash_id + 1)))),
                                    snapshot(directory), canon(drain())))

    # ---- 3. unusual results files / paths
    odd_contents = ["", "[]", "[\"a\"]", "3", "\"abc\"", "null", "{", "{\"a\": 1}", "{\"a\": {\"data\": []}}", "NaN",
                    "{\"a\": NaN}", "﻿{}", "{} ", "{}\n{}", "true"]
    for j, text in enumerate(odd_contents):
        for name in ("a", "abc", "b", 3, None, ("t",), ["l"]):
            directory = Path(f"odd_{j}_{len(results)}")
            directory.mkdir()
            path = directory / "data.json"
            path.write_text(text, encoding="utf-8")
            drain()
            results.append(("odd-save_json", (j, repr(name)), strip(attempt(lambda: save_mod.save_json(path, name, random_output(j)))),
                            snapshot(directory), canon(drain())))
            stub_calls = []
            with patch.object(save_mod, "SAVERS", {"data.json": save_mod.save_json,
                                                   "stub": lambda p, n, o: stub_calls.append((str(p), n))}):
                results.append(("odd-save", (j, repr(name)), strip(attempt(lambda: save_mod.save(directory, name, random_output(j)))),
                                snapshot(directory), canon(drain()), canon(stub_calls)))
    for k, (path, prepare) in enumerate([
        (Path("nodir") / "deeper" / "data.json", lambda p: None),                      # parent missing
        (Path("isdir") / "data.json", lambda p: p.mkdir(parents=True)),                  # a directory in the way
        (Path("tmpisdir") / "data.json", lambda p: (p.parent / "data.json.tmp").mkdir(parents=True)),
        (Path("bin") / "data.json", lambda p: (p.parent.mkdir(), p.write_bytes(b"\xff\xfe\x00{"))),
        (Path("link") / "data.json", lambda p: (p.parent.mkdir(), (p.parent / "real.json").write_text("{\"r\": 1}"),
                                                 p.symlink_to("real.json"))),
        (Path("dangling") / "data.json", lambda p: (p.parent.mkdir(), p.symlink_to("nowhere.json"))),
        (Path("plain.json"), lambda p: None),
        (Path("."), lambda p: None),
    ]):
        prepare(path)
        drain()
        top = Path(path.parts[0]) if path.parts else Path(".")
        results.append(("path-save_json", k, strip(attempt(lambda: save_mod.save_json(path, "n", random_output(k)))),
                        snapshot(top) if str(top) not in (".", "") and top.is_dir() else None, canon(drain())))
        results.append(("path-save_json-again", k, strip(attempt(lambda: save_mod.save_json(path, "n", random_output(k + 1)))),
                        snapshot(top) if str(top) not in (".", "") and top.is_dir() else None, canon(drain())))

    # ---- 4. `save`: sequences with stub savers (order of the calls) and with the real savers
    for seq in range(40):
        model_dir = Path(f"save_{seq}") / "model" if seq % 2 else Path(f"save_{seq}")
        calls = []

        def recording(tag):
            def saver(p, n, o):
                calls.append((tag, str(p), n, o.data.shape))
                if tag == "data.json":
                    save_mod.save_json(p, n, o)
            return saver
        savers = {"data.json": recording("data.json"), "second": recording("second"), "third": recording("third")}
        if seq % 5 == 4:
            savers = {"only-a-stub": recording("stub")}  # nothing writes data.json: every save runs the savers
        for step in range(int(rng.integers(2, 7))):
            name = names_pool[int(rng.integers(0, 4))]
            out = random_output(seq + step)
            with patch.object(save_mod, "SAVERS", savers):
                results.append(("save-stub", (seq, step), strip(attempt(lambda: save_mod.save(model_dir, name, out))),
                                canon(list(calls)), snapshot(Path(f"save_{seq}")), canon(drain())))
    for seq in range(6):
        model_dir = Path(f"real_{seq}")
        for step in range(4):
            name = ["r1", "r2", "r1", "r3"][step]
            out = random_output(seq + step)
            results.append(("save-real", (seq, step), strip(attempt(lambda: save_mod.save(model_dir, name, out))),
                            canon((model_dir / "data.json").read_bytes()),
                            sorted(str(p.relative_to(model_dir)) for p in model_dir.rglob("*")), canon(drain())))
        # a saver that fails after data.json was written: the record is kept
        def failing(p, n, o):
            raise RuntimeError("cannot draw")
        with patch.object(save_mod, "SAVERS", {"data.json": save_mod.save_json, "data_plots": failing,
                                               "chosen_coalitions": save_mod.save_draw_coalitions}):
            results.append(("save-failing-plot", seq, strip(attempt(lambda: save_mod.save(model_dir, "r9", random_output(seq)))),
                            canon((model_dir / "data.json").read_bytes()),
                            sorted(str(p.relative_to(model_dir)) for p in model_dir.rglob("*")), canon(drain())))

    with open(out_file, "wb") as f:
        pickle.dump(results, f)


# --------------------------------------------------------------------------------------------------------------------
# driver
# --------------------------------------------------------------------------------------------------------------------
def export_original(target: Path) -> None:
    """Write the original (HEAD) package source below `target`."""
    blob = subprocess.run(["git", "-C", str(WORKTREE), "archive", "--format=tar", "HEAD", "incomplete_cooperative"],
                          check=True, capture_output=True).stdout
    with tarfile.open(fileobj=io.BytesIO(blob)) as tar:
        tar.extractall(target)


def main() -> int:
    with tempfile.TemporaryDirectory(prefix="equiv2_orig_") as tmp:
        original_root = Path(tmp) / "original"
        original_root.mkdir()
        export_original(original_root)
        outputs = []
        for label, root in (("original", original_root), ("refactored", WORKTREE)):
            out_file = Path(tmp) / f"{label}.pkl"
            env = dict(os.environ, OMP_NUM_THREADS="1", MKL_NUM_THREADS="1", MPLBACKEND="Agg", PYTHONHASHSEED="0",
                       PYTHONWARNINGS="ignore")
            env.pop("PYTHONPATH", None)
            proc = subprocess.run([PYTHON, __file__, "--worker", str(root), str(out_file)], env=env, cwd=str(WORKTREE))
            if proc.returncode != 0:
                print(f"DIFFERENT: worker for {label} failed with code {proc.returncode}")
                return 1
            with out_file.open("rb") as f:
                outputs.append(pickle.load(f))
        original, refactored = outputs
        changed = subprocess.run(["git", "-C", str(WORKTREE), "diff", "--stat"], capture_output=True, text=True).stdout
        if not changed.strip():
            print("warning: worktree has no changes - comparing the original with itself", file=sys.stderr)
        if len(original) != len(refactored):
            print(f"DIFFERENT: {len(original)} results vs {len(refactored)}")
            return 1
        for a, b in zip(original, refactored):
            if a != b:
                print("DIFFERENT")
                print("original:  ", repr(a)[:3000])
                print("refactored:", repr(b)[:3000])
                return 1
        summary: dict = {}
        for item in original:
            outcome = item[2][0] if isinstance(item[2], tuple) and item[2] and item[2][0] in ("ok", "raised") else "value"
            summary.setdefault(item[0], {}).setdefault(outcome, 0)
            summary[item[0]][outcome] += 1
        print(f"compared {len(original)} results:", summary)
        print("EQUIVALENT")
        return 0


if __name__ == "__main__":
    if len(sys.argv) == 4 and sys.argv[1] == "--worker":
        worker(sys.argv[2], sys.argv[3])
    else:
        sys.exit(main())
