"""Differential check for patch 2 (coalition_ids.py / game_properties.py).

Habits in the patch: walrus operator in sub_coalitions, str.format template for the
assertion messages, all() over the explicit early-return loop in is_monotone_decreasing.

Runs the ORIGINAL package (git archive HEAD) and the current worktree in separate
interpreters over identical deterministic inputs and compares pickled outcomes exactly.
Exit status 0 iff identical.
"""
import os
import shutil
import subprocess
import sys
import tempfile

WT = "/tmp/wt_y5_Y05"
PY = "/venv/bin/python"

DRIVER = r'''
import sys, pickle, warnings
import numpy as np
warnings.simplefilter("ignore")
from incomplete_cooperative import coalition_ids as ci
from incomplete_cooperative import game_properties as gp
from incomplete_cooperative.coalition_ids import (CoalitionId, get_all_coalitions, players, get_size,
                                                  sub_coalitions, super_coalitions)
from incomplete_cooperative.game_properties import is_superadditive, is_monotone_decreasing, is_sam
from incomplete_cooperative.game import IncompleteCooperativeGame
from incomplete_cooperative.bounds import (compute_bounds_superadditive, compute_bounds_superadditive_cached,
                                           _get_sub_super_coalition_structure)
from incomplete_cooperative import generators as gens

out = []


def enc(x):
    if isinstance(x, np.ndarray):
        return ("arr", str(x.dtype), x.shape, x.tobytes())
    if isinstance(x, np.generic):
        return ("np", type(x).__name__, x.tobytes())
    if isinstance(x, (list, tuple)):
        return (type(x).__name__, [enc(y) for y in x])
    if isinstance(x, (int, float, bool, str, type(None))):
        return (type(x).__name__, repr(x))
    return ("obj", type(x).__name__)


def run(tag, f, *a, **kw):
    try:
        out.append((tag, "ok", enc(f(*a, **kw))))
    except BaseException as e:  # noqa
        out.append((tag, "exc", type(e).__name__, str(e)))


# ---- coalition_ids -------------------------------------------------------------------------
for n in list(range(0, 8)) + [np.int64(3), np.int32(4)]:
    run(("all", repr(n)), get_all_coalitions, n)
    top = 2**int(n)
    cands = list(range(0, top + 3)) + [top * 4 + 1]
    for c in cands:
        for conv in (int, np.int32, np.int64, CoalitionId):
            cc = conv(c)
            tag = (repr(n), c, conv.__name__)
            run(("players",) + tag, players, cc, n)
            run(("size",) + tag, get_size, cc, n)
            run(("sub",) + tag, sub_coalitions, cc, n)
            run(("super",) + tag, super_coalitions, cc, n)
    # results are fresh arrays: mutate and recompute
    r1 = sub_coalitions(CoalitionId(top - 1), n)
    r1[...] = -7
    run(("sub-after-mutation", repr(n)), sub_coalitions, CoalitionId(top - 1), n)
    run(("sub-kw", repr(n)), sub_coalitions, coalition=CoalitionId(0), number_of_players=n)
    run(("super-kw", repr(n)), super_coalitions, number_of_players=n, coalition=CoalitionId(top - 1))
    run(("size-kw", repr(n)), get_size, number_of_players=n, coalition=CoalitionId(top - 1))

odd = [np.array([1, 2]), np.array([9]), np.array(3), np.array([100]), 1.0, 2.5, 1e9, "a", None, True,
       np.bool_(True), -1, -5, np.int32(-3), np.uint8(200), np.float32(3.0), [1], float("nan")]
for j, c in enumerate(odd):
    for n in (0, 2, 3, 5, 2.0, "3", None, -1):
        run(("odd-players", j, repr(n)), players, c, n)
        run(("odd-size", j, repr(n)), get_size, c, n)
        run(("odd-sub", j, repr(n)), sub_coalitions, c, n)
        run(("odd-super", j, repr(n)), super_coalitions, c, n)
run(("argcount-1",), sub_coalitions, 1)
run(("argcount-3",), get_size, 1, 2, 3)
run(("argcount-kw",), super_coalitions, 1, players=3)

for n in range(1, 7):
    run(("structure", n), lambda n=n: [list(x) if isinstance(x, (list, tuple)) else x
                                        for x in _get_sub_super_coalition_structure(n)])


# ---- game_properties -----------------------------------------------------------------------
class StubGame:
    """Minimal game that logs every attribute access the predicates make."""

    def __init__(self, n, values, fail_at=None):
        self._n, self._values, self.log, self._fail_at = n, values, [], fail_at

    def _tick(self, what):
        self.log.append(what)
        if self._fail_at is not None and len(self.log) == self._fail_at:
            raise RuntimeError(f"access {len(self.log)} ({what}) failed")

    @property
    def number_of_players(self):
        self._tick("n")
        return self._n

    def get_values(self, coalitions=None):
        self._tick("get_values")
        return self._values


def sizes(n):
    return np.array([bin(i).count("1") for i in range(2**n)], dtype=float)


def make_values(n, kind, rng):
    s = sizes(n)
    if kind == 0:
        return s ** 2
    if kind == 1:
        return rng.random(2**n)
    if kind == 2:
        return -s
    if kind == 3:
        return np.zeros(2**n)
    if kind == 4:   # superadditive up to rounding noise -> isclose branch decides
        return s * 0.1 + rng.choice([-1e-12, 0.0, 1e-12, 1e-17], size=2**n)
    if kind == 5:   # a little beyond the default tolerance
        v = s * 0.1
        v[rng.integers(0, 2**n)] -= 1e-7
        return v
    if kind == 6:   # NaNs
        v = s ** 2
        v[rng.integers(0, 2**n)] = np.nan
        return v
    if kind == 7:
        return (s ** 2).astype(np.int64)
    if kind == 8:
        return (-np.sqrt(s) + rng.random(2**n) * 0.2).astype(np.float32)
    if kind == 9:   # monotone decreasing except at exactly one place
        v = -s
        v[rng.integers(0, 2**n)] += 0.5
        return v
    if kind == 10:  # too short -> IndexError
        return rng.random(max(2**n - 1, 0))
    if kind == 11:  # plain list -> TypeError on fancy indexing
        return list(rng.random(2**n))
    if kind == 12:  # coverage-like: submodular, monotone decreasing after negation
        return -np.minimum(s, 2.0) - 1.0 * (s > 0)
    if kind == 13:  # infinities
        v = -s
        v[-1] = -np.inf
        v[0] = np.inf
        return v
    if kind == 14:  # two-dimensional values
        return np.stack([s, -s], axis=1)
    raise AssertionError


for n in range(0, 7):
    for kind in range(15):
        for seed in range(4):
            rng = np.random.default_rng(1000 * n + 10 * kind + seed)
            vals = make_values(n, kind, rng)
            for name, fn, kw in (("superadd", is_superadditive, {}),
                                 ("superadd-tol", is_superadditive, {"rtol": 1e-3, "atol": 1e-6}),
                                 ("superadd-pos", None, None),
                                 ("monodec", is_monotone_decreasing, {}),
                                 ("sam", is_sam, {})):
                g = StubGame(n, vals.copy() if isinstance(vals, np.ndarray) else list(vals))
                if fn is None:
                    run((name, n, kind, seed), is_superadditive, g, 0.0, 1e-13)
                else:
                    run((name, n, kind, seed), fn, g, **kw)
                out.append((name + "-log", n, kind, seed, list(g.log)))
                out.append((name + "-vals", n, kind, seed, enc(g._values)))

# failing accesses: order and number of the accesses to the game object
for n in (0, 1, 3, 4):
    for kind in (0, 2, 3, 9):
        vals = make_values(n, kind, np.random.default_rng(n + kind))
        for fail_at in range(1, 2**n + 6, max(1, 2**n // 5)):
            for name, fn in (("superadd", is_superadditive), ("monodec", is_monotone_decreasing), ("sam", is_sam)):
                g = StubGame(n, vals, fail_at)
                run(("fail", name, n, kind, fail_at), fn, g)
                out.append(("fail-log", name, n, kind, fail_at, list(g.log)))

for bad in (None, 3, "g", object()):
    run(("bad-game-superadd", repr(type(bad))), is_superadditive, bad)
    run(("bad-game-monodec", repr(type(bad))), is_monotone_decreasing, bad)
    run(("bad-game-sam", repr(type(bad))), is_sam, bad)
run(("kwcall",), is_monotone_decreasing, game=StubGame(2, np.zeros(4)))
run(("kwcall-extra",), is_monotone_decreasing, StubGame(2, np.zeros(4)), 1e-9)

# real games, bounds built on the id helpers, generators asserting the predicates (random draws)
for n in (2, 3, 4, 5):
    for seed in range(6):
        rng = np.random.default_rng(seed)
        for bc in (compute_bounds_superadditive, compute_bounds_superadditive_cached):
            g = IncompleteCooperativeGame(n, bc)
            vals = sizes(n) ** 2 + rng.random(2**n) * 0.2
            vals[0] = 0
            g.set_values(vals)
            run(("real-superadd", n, seed, bc.__name__), is_superadditive, g)
            run(("real-monodec", n, seed, bc.__name__), is_monotone_decreasing, g)
            run(("real-sam", n, seed, bc.__name__), is_sam, -g)
            known = [i for i in range(2**n) if rng.random() < 0.5 or i == 0 or i == 2**n - 1]
            g2 = IncompleteCooperativeGame(n, bc)
            from incomplete_cooperative.coalitions import Coalition
            g2.set_known_values(vals[known], [Coalition(i) for i in known])
            run(("real-bounds", n, seed, bc.__name__), lambda g2=g2: (g2.compute_bounds(), g2.get_intervals())[1])
for gname in ("factory", "factory_cheerleader", "xs", "oxs", "covg_fn", "k_budget", "additive", "xos"):
    if gname not in gens.GENERATORS:
        out.append(("gen-missing", gname))
        continue
    for n in (3, 4, 5):
        for seed in range(4):
            rng = np.random.default_rng(seed)
            run(("gen", gname, n, seed),
                lambda: (gens.GENERATORS[gname](n, rng).get_values(), rng.random(3)))

# names defined by the modules, and names that have to stay importable
for mod in (ci, gp):
    out.append(("names", mod.__name__,
                sorted(k for k in dir(mod) if getattr(getattr(mod, k), "__module__", None) == mod.__name__
                       and not k.startswith("_"))))
out.append(("importable", [(k, hasattr(ci, k)) for k in ("Any", "np", "CoalitionId")],
            [(k, hasattr(gp, k)) for k in ("np", "get_all_coalitions", "sub_coalitions", "Game")]))
out.append(("pickle-fns", pickle.dumps((sub_coalitions, super_coalitions, get_size, players,
                                        is_sam, is_superadditive, is_monotone_decreasing), protocol=4)))

with open(sys.argv[1], "wb") as fh:
    pickle.dump(out, fh, protocol=4)
print(len(out), sum(1 for r in out if len(r) > 1 and r[1] == "exc"))
'''


def main() -> int:
    tmp = tempfile.mkdtemp(prefix="y05_equiv2_")
    try:
        orig = os.path.join(tmp, "orig")
        os.mkdir(orig)
        subprocess.run(f"git -C {WT} archive HEAD incomplete_cooperative | tar -x -C {orig}",
                       shell=True, check=True)
        drv = os.path.join(tmp, "driver.py")
        with open(drv, "w") as fh:
            fh.write(DRIVER)
        outs = []
        for name, root in (("orig", orig), ("new", WT)):
            res = os.path.join(tmp, name + ".pkl")
            env = dict(os.environ, PYTHONPATH=root, PYTHONHASHSEED="0", OMP_NUM_THREADS="1",
                       PYTHONDONTWRITEBYTECODE="1")
            p = subprocess.run([PY, drv, res], env=env, cwd=tmp, capture_output=True, text=True)
            if p.returncode != 0:
                print(name, "driver failed:\n", p.stderr[-3000:])
                return 2
            print(name, "records / exceptional:", p.stdout.strip())
            with open(res, "rb") as fh:
                outs.append(fh.read())
        if outs[0] == outs[1]:
            print("IDENTICAL", len(outs[0]), "bytes")
            return 0
        import pickle
        a, b = pickle.loads(outs[0]), pickle.loads(outs[1])
        if a == b:  # only pickle memo layout differs; records are plain ints/strs/bytes (NaN kept as bytes/repr)
            print("IDENTICAL records", len(a))
            return 0
        print("DIFFERENT: lengths", len(a), len(b))
        shown = 0
        for x, y in zip(a, b):
            if x != y and shown < 10:
                print(" orig:", x, "\n new: ", y)
                shown += 1
        return 1
    finally:
        shutil.rmtree(tmp, ignore_errors=True)


if __name__ == "__main__":
    sys.exit(main())
