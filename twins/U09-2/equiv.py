"""Differential test for refactoring 2 (icg_gym_linear.py: np.where(...)[0] -> np.flatnonzero, conditional expression ->
if / else assignment, f-strings of the two assertion messages -> str.format).

Run with cwd=/tmp/wt10/U09.  The ORIGINAL package is extracted from git HEAD into a temporary directory; the same worker
code is run in two sub-processes (PYTHONPATH = original tree / refactored worktree), the pickled results are compared exactly.
"""
import os
import pickle
import subprocess
import sys
import tempfile

import numpy as np

WORKTREE = os.getcwd()


# --------------------------------------------------------------------------------------------------------- worker
def _exc(e):
    return ("EXC", type(e).__name__, str(e))


def worker(root, out_path):
    sys.path.insert(0, root)
    import incomplete_cooperative
    assert os.path.realpath(incomplete_cooperative.__file__).startswith(os.path.realpath(root)), incomplete_cooperative.__file__
    from incomplete_cooperative import generators
    from incomplete_cooperative.bounds import BOUNDS
    from incomplete_cooperative.coalitions import (Coalition,
                                                   minimal_game_coalitions)
    from incomplete_cooperative.exploitability import compute_exploitability
    from incomplete_cooperative.game import IncompleteCooperativeGame
    from incomplete_cooperative.generators import GENERATORS
    from incomplete_cooperative.icg_gym import ICG_Gym
    from incomplete_cooperative.icg_gym_linear import ICG_Gym_Linear
    from incomplete_cooperative.norms import lp_norm

    results = []
    gaps = {"lp": lp_norm, "expl": compute_exploitability}

    def rng_state(rng):
        return repr(rng.bit_generator.state)

    def episode(label, name, n, seed, bounds, gap, limit, extra_known):
        generators._gen.bit_generator.state = np.random.default_rng(1000 * seed + n).bit_generator.state
        generators._LAST_OWNER = 0
        game_rng = np.random.default_rng(seed)
        tie_rng = np.random.default_rng(seed + 99)
        policy_rng = np.random.default_rng(seed + 7)
        trace = []
        try:
            ig = IncompleteCooperativeGame(n, BOUNDS[bounds])
            known = list(minimal_game_coalitions(ig))
            if extra_known:
                known += [Coalition(int(c)) for c in policy_rng.choice(2**n, size=extra_known, replace=False)]
            env = ICG_Gym(ig, lambda: GENERATORS[name](n, game_rng), known, gaps[gap], done_after_n_actions=limit)
            lin = ICG_Gym_Linear(env, tie_rng)
            trace.append((lin.rng is tie_rng, lin.number_of_players, lin.subset_sizes.copy(),
                          repr(lin.observation_space), repr(lin.action_space)))
            for rep in range(2):
                state, info = lin.reset()
                trace.append(("reset", state, sorted(info), info["game"].get_values(), lin.state, lin.action_masks(),
                              lin.done, lin.reward, rng_state(tie_rng)))
                for _ in range(2**n):
                    mask = lin.action_masks()
                    if not mask.any():
                        break
                    size = int(policy_rng.choice(np.arange(n)[mask]))
                    before = env.incomplete_game.are_values_known(env.explorable_coalitions).copy()
                    out = lin.step(size)
                    after = env.incomplete_game.are_values_known(env.explorable_coalitions).copy()
                    trace.append(("step", size, type(out).__name__, len(out), tuple(out), before, after, lin.state,
                                  lin.action_masks(), lin.done, lin.reward, env.steps_taken, rng_state(tie_rng)))
                # sizes that cannot be played any more / at all, and sizes outside the range
                for bad in (0, 1, n - 1, n, -1, n + 3):
                    try:
                        out = lin.step(bad)
                        trace.append(("bad-step", bad, tuple(out), rng_state(tie_rng)))
                    except BaseException as e:  # noqa  (AssertionError, ValueError, ...)
                        trace.append(("bad-step", bad, _exc(e), rng_state(tie_rng),
                                      env.incomplete_game._values.copy(), env.steps_taken))
            results.append((label, trace))
        except Exception as e:  # noqa
            results.append((label, (trace, _exc(e))))

    count = 0
    for name in sorted(GENERATORS):
        if name == "convex":  # needs pyfmtools, which is not installed
            continue
        for n in (3, 4, 5):
            for seed in (0, 1):
                count += 1
                bounds = ("superadditive", "superadditive_cached")[count % 2]
                gap = ("lp", "expl")[(count // 2) % 2]
                limit = (None, 3, None, 7)[count % 4]
                extra = (0, 0, 3)[count % 3]
                episode(f"{name} n={n} seed={seed} {bounds} {gap} limit={limit} extra={extra}",
                        name, n, seed, bounds, gap, limit, extra)

    # the default tie-breaking generator: nothing to compare but its type (it is seeded from the OS in both versions)
    ig = IncompleteCooperativeGame(4, BOUNDS["superadditive"])
    rng = np.random.default_rng(5)
    env = ICG_Gym(ig, lambda: GENERATORS["factory"](4, rng), minimal_game_coalitions(ig), lp_norm)
    for arg in ((), (None,)):
        lin = ICG_Gym_Linear(env, *arg)
        results.append(("default rng", (type(lin.rng).__name__, type(lin.rng.bit_generator).__name__)))
    # any object that is not None is kept as it is (also a falsy one)
    for obj in (0, "", [], False):
        lin = ICG_Gym_Linear(env, obj)
        results.append(("odd rng", (lin.rng is obj, repr(lin.rng))))
        try:
            lin.reset()
            lin.step(2)
        except BaseException as e:  # noqa
            results.append(("odd rng step", _exc(e)))

    # the assertion messages (wrong shapes for the aggregation, wrong sizes for the step)
    for n in (3, 4, 5, 6):
        ig = IncompleteCooperativeGame(n, BOUNDS["superadditive"])
        rng = np.random.default_rng(n)
        env_n = ICG_Gym(ig, lambda: GENERATORS["factory"](n, rng), minimal_game_coalitions(ig), lp_norm)
        lin = ICG_Gym_Linear(env_n, np.random.default_rng(0))
        for shape in ((0,), (1,), (2**n,), (2**n - n - 2,), (2**n - n - 1,), (2**n - n - 2, 1), (1, 2**n - n - 2), (), (2, 3)):
            for dtype in (float, bool, int):
                try:
                    results.append((f"agg {n} {shape} {dtype.__name__}",
                                    lin._sum_values_of_the_same_size(np.ones(shape, dtype))))
                except BaseException as e:  # noqa
                    results.append((f"agg {n} {shape} {dtype.__name__}", _exc(e)))
        for bad in (-2, -1, n, n + 1, 10**20, -0.5, float(n), np.int64(n), np.int64(-1), np.float64(n + 0.5),
                    np.array(n), np.array(-3), float("nan"), float("inf"), True + n, "2", None, [1], np.array([n, n])):
            try:
                results.append((f"bad size {n} {bad!r}", tuple(lin.step(bad))))
            except BaseException as e:  # noqa
                results.append((f"bad size {n} {bad!r}", _exc(e)))
        for ok in (0, 1, 2, True, 2.0, np.int64(2), np.array(2), np.float64(2.0), n - 1):
            try:
                out = lin.step(ok)
                results.append((f"ok size {n} {ok!r}", (tuple(out), repr(lin.rng.bit_generator.state))))
            except BaseException as e:  # noqa
                results.append((f"ok size {n} {ok!r}", _exc(e)))

    # an underlying environment whose step results are not a 5-tuple
    class Odd:
        def __init__(self, inner, result):
            self.__dict__.update(inner.__dict__)
            self._inner, self._result = inner, result

        def action_masks(self):
            return self._inner.action_masks()

        def step(self, action):
            return self._result

    env.reset()
    for result in ((np.zeros(10), 1.0), [np.ones(10), 2.0, True], (np.arange(10.),), (), [],
                   (np.zeros(3), 1), np.arange(10.), "ab", None, 5):
        try:
            lin = ICG_Gym_Linear(env, np.random.default_rng(3))
            lin.icg_gym = Odd(env, result)
            out = lin.step(2)
            results.append((f"odd step {result!r}", (type(out).__name__, tuple(out))))
        except BaseException as e:  # noqa
            results.append((f"odd step {result!r}", _exc(e)))

    with open(out_path, "wb") as f:
        pickle.dump(results, f)


# --------------------------------------------------------------------------------------------------------- driver
def same(a, b):
    if type(a) is not type(b):
        return False
    if isinstance(a, np.ndarray):
        if a.dtype != b.dtype or a.shape != b.shape:
            return False
        if a.dtype.kind in "fc":
            return bool(np.array_equal(a, b, equal_nan=True)) and bool(np.array_equal(np.signbit(a), np.signbit(b)))
        return bool(np.array_equal(a, b))
    if isinstance(a, (tuple, list)):
        return len(a) == len(b) and all(same(x, y) for x, y in zip(a, b))
    if isinstance(a, dict):
        return a.keys() == b.keys() and all(same(a[k], b[k]) for k in a)
    if isinstance(a, (float, np.floating)):
        return (a == b or (np.isnan(a) and np.isnan(b))) and np.signbit(a) == np.signbit(b)
    if hasattr(a, "_graph_matrix"):
        return same(a._graph_matrix, b._graph_matrix)
    if hasattr(a, "_values"):
        return same(a._values, b._values)
    return a == b


def main():
    with tempfile.TemporaryDirectory() as tmp:
        orig = os.path.join(tmp, "orig")
        os.makedirs(orig)
        archive = subprocess.run(["git", "-C", WORKTREE, "archive", "HEAD", "incomplete_cooperative"],
                                 check=True, capture_output=True).stdout
        subprocess.run(["tar", "-x", "-C", orig], input=archive, check=True)
        outs = []
        for tag, root in (("orig", orig), ("new", WORKTREE)):
            out = os.path.join(tmp, tag + ".pkl")
            env = dict(os.environ, OMP_NUM_THREADS="1", MKL_NUM_THREADS="1", PYTHONPATH=root, PYTHONHASHSEED="0",
                       PYTHONDONTWRITEBYTECODE="1")
            subprocess.run([sys.executable, os.path.abspath(__file__), "--worker", root, out], check=True, env=env, cwd=root)
            sys.path.insert(0, root)  # only needed to unpickle game objects in info dicts
            with open(out, "rb") as f:
                outs.append(pickle.load(f))
            sys.path.pop(0)
            for mod in [m for m in sys.modules if m.startswith("incomplete_cooperative")]:
                del sys.modules[mod]
    a, b = outs
    if len(a) != len(b):
        print("DIFFERENT: number of cases", len(a), len(b))
        return 1
    n_exc = 0
    for (la, ra), (lb, rb) in zip(a, b):
        if la != lb or not same(ra, rb):
            print("DIFFERENT at case", la, lb)
            print(" original  :", ra)
            print(" refactored:", rb)
            return 1
        n_exc += isinstance(ra, tuple) and len(ra) == 3 and ra[0] == "EXC"
    print(f"{len(a)} cases compared ({n_exc} of them identical exceptions)")
    print("EQUIVALENT")
    return 0


if __name__ == "__main__":
    if len(sys.argv) > 1 and sys.argv[1] == "--worker":
        worker(sys.argv[2], sys.argv[3])
    else:
        sys.exit(main())
