"""Differential test for refactoring 1 (incomplete_cooperative/evaluation.py: helper `_stack_as_columns`, renames, `gap`).

Run with cwd=/tmp/wt9/T08.  The ORIGINAL package is taken from git (`git archive HEAD incomplete_cooperative`) into a
temporary directory; the same worker code is then run in two subprocesses, one importing the original package and one
importing the refactored worktree, and the pickled results are compared exactly.
"""
import io
import os
import pickle
import subprocess
import sys
import tarfile
import tempfile
from pathlib import Path

WORKTREE = Path("/tmp/wt9/T08")
SOLVER_NAMES = ["greedy", "greedy_worst", "random", "largest"]
GENERATOR_NAMES = ["factory", "predictible_factory", "factory_one", "factory_square", "factory_exp", "factory_fixed",
                   "factory_cheerleader", "factory_cheerleader_next", "noisy_factory", "noisy_factory_square",
                   "noisy_factory_exp", "noisy_factory_fixed", "graph", "graph_tirangular", "graph_beta_2_3",
                   "graph_poiss_1", "graph_random", "graph_cycle", "xos", "xos_one", "xos2", "xos_norm_additive"]


# ------------------------------------------------------------------------------------------------------------ worker
def _outcome(fn):
    try:
        return ("OK", fn())
    except BaseException as e:  # noqa
        return ("EXC", type(e).__name__, str(e))


def worker(root: str, out: str) -> None:
    sys.path.insert(0, root)
    import random as pyrandom
    from argparse import Namespace

    import numpy as np

    import incomplete_cooperative
    assert Path(incomplete_cooperative.__file__).resolve().is_relative_to(Path(root).resolve()), incomplete_cooperative.__file__
    from incomplete_cooperative import generators
    from incomplete_cooperative.evaluation import eval_one, evaluate
    from incomplete_cooperative.run.model import GAP_FUNCTIONS, ModelInstance
    from incomplete_cooperative.solvers import SOLVERS

    results = {}

    # ---- A: the real thing, every solver of the registry, many generators, seeds, sizes, worker counts
    def real_case(solver_name, generator, seed, players, steps, reps, processes, linear, gap, game_class="superadditive"):
        def run():
            # the matrix graph generators draw from an unseeded module-level generator: pin it down for both sides
            generators._gen.bit_generator.state = np.random.PCG64(99 + seed).state
            instance = ModelInstance(number_of_players=players, game_class=game_class, game_generator=generator,
                                     gap_function=gap, run_steps_limit=steps, parallel_environments=processes,
                                     linear=linear, seed=seed, unique_name="u")
            solver = SOLVERS[solver_name](instance)
            expl, acts = evaluate(solver.next_step, instance.get_env, reps, steps, instance.gap_function_callable,
                                  processes, solver.after_reset)
            solver_state = solver._generator.getstate() if hasattr(solver, "_generator") else None
            return (expl, acts, instance.game_generator_rng.bit_generator.state, solver_state,
                    instance.game_generator_rng.random())
        return _outcome(run)

    n = 0
    for gi, generator in enumerate(GENERATOR_NAMES):
        for si, solver_name in enumerate(SOLVER_NAMES):
            for seed in (0, 7, 123456789):
                players = 3 + (gi + si + seed) % 2
                steps = 1 + (gi + 2 * si + seed) % 4
                reps = 1 + (gi + si + seed) % 3
                linear = (gi + si + seed) % 5 == 0
                gap = list(GAP_FUNCTIONS)[(gi + si + seed) % len(GAP_FUNCTIONS)]
                results[("real", generator, solver_name, seed)] = real_case(
                    solver_name, generator, seed, players, steps, reps, 1, linear, gap)
                n += 1
    # worker counts (the Pool branch) and the other bound computers
    for si, solver_name in enumerate(SOLVER_NAMES):
        for processes in (1, 2, 3):
            for seed in (1, 2):
                results[("pool", solver_name, processes, seed)] = real_case(
                    solver_name, "factory", seed, 4, 3, 4, processes, False, "exploitability")
                results[("pool-lin", solver_name, processes, seed)] = real_case(
                    solver_name, "xos", seed, 4, 3, 3, processes, True, "l1_norm")
    for game_class in ("superadditive_cached", "sam_apx_1", "sam_apx_10"):
        for solver_name in SOLVER_NAMES:
            results[("class", game_class, solver_name)] = real_case(
                solver_name, "factory", 5, 4, 3, 2, 1, False, "exploitability", game_class)
    # the full run: more steps than coalitions (episode done early -> NaN padding / constant gap)
    for solver_name in SOLVER_NAMES:
        for steps in (4, 5, 9):
            results[("long", solver_name, steps)] = real_case(solver_name, "factory", 3, 3, steps, 2, 1, False,
                                                              "exploitability")

    # ---- B: eval_one / evaluate on scripted environments (also the pathological ones)
    class FakeEnv:
        def __init__(self, script, first_reward):
            self.script = list(script)
            self.first_reward = first_reward
            self.log = []
            self.i = 0

        def reset(self):
            self.log.append("reset")

        @property
        def reward(self):
            self.log.append("reward")
            return self.first_reward

        def step(self, action):
            self.log.append(("step", action))
            item = self.script[self.i]
            self.i += 1
            if isinstance(item, Exception):
                raise item
            return item

    def random_script(rng, length):
        script = []
        for t in range(length):
            kind = rng.random()
            reward = rng.choice([rng.uniform(-5, 5), -0.0, 0.0, float("inf"), float("nan"), np.float64(rng.random()),
                                 np.float32(rng.random()), rng.randint(-3, 3)])
            info = {"chosen_coalition": rng.choice([rng.randint(0, 63), float(rng.randint(0, 63)), np.int64(5),
                                                    float("nan")])}
            done = rng.random() < 0.15
            if kind < 0.03:
                reward = None
            elif kind < 0.06:
                info = {}
            elif kind < 0.09:
                info = {"chosen_coalition": rng.choice([None, "x", [1, 2]])}
            elif kind < 0.11:
                script.append(RuntimeError(f"boom {t}"))
                continue
            elif kind < 0.13:
                script.append((0, reward, done, False))  # wrong arity
                continue
            script.append((None, reward, done, False, info))
        return script

    rng = pyrandom.Random(2024)
    for case in range(500):
        length = rng.randint(0, 8)
        limit = rng.choice([length, length, max(0, length - 1), length + 1, 0])
        script = random_script(rng, length)
        first = rng.choice([rng.uniform(-3, 3), 0.0, None, np.float64(1.5)])
        env = FakeEnv(script, first)
        calls = []

        def next_step(e, calls=calls):
            calls.append(len(e.log))
            return len(calls)

        def after_reset(e):
            e.log.append("after_reset")

        if case % 2:
            res = _outcome(lambda: eval_one(next_step, env, limit, None, after_reset))
        else:
            res = _outcome(lambda: eval_one(next_step, env, limit, None))
        results[("fake-one", case)] = (res, env.log, calls)

    for case in range(200):
        reps = rng.randint(0, 4)
        limit = rng.randint(0, 5)
        envs = []

        def gen(envs=envs, limit=limit):
            # mostly well-formed scripts, sometimes too short / done early
            script = random_script(rng, limit) if rng.random() < 0.3 else [
                (None, rng.uniform(-2, 0), rng.random() < 0.1, False, {"chosen_coalition": rng.randint(0, 30)})
                for _ in range(limit)]
            env = FakeEnv(script, rng.uniform(-2, 0))
            env.log.append(("created-after", sum(len(x.log) for x in envs)))  # laziness of env creation is visible
            envs.append(env)
            return env

        res = _outcome(lambda: evaluate(lambda e: 0, gen, reps, limit, None, 1))
        results[("fake-eval", case)] = (res, [e.log for e in envs], rng.random())

    with open(out, "wb") as f:
        pickle.dump(results, f)


# ------------------------------------------------------------------------------------------------------------ driver
def same(a, b) -> bool:
    import numpy as np
    if isinstance(a, np.ndarray) or isinstance(b, np.ndarray):
        return (isinstance(a, np.ndarray) and isinstance(b, np.ndarray) and a.dtype == b.dtype and a.shape == b.shape
                and np.array_equal(a, b, equal_nan=(a.dtype.kind in "fc")) and
                (a.dtype.kind not in "f" or np.array_equal(np.signbit(a), np.signbit(b))))
    if type(a) is not type(b):
        return False
    if isinstance(a, dict):
        return a.keys() == b.keys() and list(a) == list(b) and all(same(a[k], b[k]) for k in a)
    if isinstance(a, (list, tuple)):
        return len(a) == len(b) and all(same(x, y) for x, y in zip(a, b))
    if isinstance(a, float) or isinstance(a, np.floating):
        return (a == b and np.signbit(a) == np.signbit(b)) or (a != a and b != b)
    return a == b


def main() -> int:
    with tempfile.TemporaryDirectory() as tmp:
        orig_root = Path(tmp) / "orig"
        orig_root.mkdir()
        archive = subprocess.run(["git", "-C", str(WORKTREE), "archive", "HEAD", "incomplete_cooperative"],
                                 check=True, capture_output=True).stdout
        tarfile.open(fileobj=io.BytesIO(archive)).extractall(orig_root)
        outs = {}
        env = dict(os.environ, OMP_NUM_THREADS="1", MKL_NUM_THREADS="1", PYTHONHASHSEED="0")
        procs = {}
        for name, root in (("orig", orig_root), ("new", WORKTREE)):
            outs[name] = Path(tmp) / f"{name}.pkl"
            procs[name] = subprocess.Popen([sys.executable, __file__, "--worker", str(root), str(outs[name])],
                                           cwd=str(root), env=env)
        for name, proc in procs.items():
            if proc.wait() != 0:
                print("DIFFERENT: worker", name, "failed")
                return 1
        res = {name: pickle.loads(path.read_bytes()) for name, path in outs.items()}
    if list(res["orig"]) != list(res["new"]):
        print("DIFFERENT: case lists differ")
        return 1
    n_ok = n_exc = 0
    by_kind: dict = {}
    for key in res["orig"]:
        if not same(res["orig"][key], res["new"][key]):
            print("DIFFERENT", key)
            print(" original  :", res["orig"][key])
            print(" refactored:", res["new"][key])
            return 1
        outcome = res["orig"][key]
        outcome = outcome if isinstance(outcome[0], str) else outcome[0]
        by_kind.setdefault(key[0], [0, 0])[outcome[0] == "EXC"] += 1
        if outcome[0] == "EXC":
            n_exc += 1
        else:
            n_ok += 1
    print(f"{len(res['orig'])} cases compared ({n_exc} of them raise, identically)")
    print("per kind [ok, raising]:", by_kind)
    print("EQUIVALENT")
    return 0


if __name__ == "__main__":
    if len(sys.argv) > 1 and sys.argv[1] == "--worker":
        sys.path = [p for p in sys.path if Path(p or ".").resolve() != Path(__file__).resolve().parent]
        worker(sys.argv[2], sys.argv[3])
    else:
        sys.exit(main())
