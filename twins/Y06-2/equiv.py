"""Differential equivalence check for refactoring 2 (normalize.py: match, walrus, combinations_with_replacement, reduce)."""
import os
import pickle
import shutil
import subprocess
import sys
import tempfile

WT = "/tmp/wt_y5_Y06"
PY = "/venv/bin/python"


def worker(out_path):
    import warnings

    import numpy as np

    import incomplete_cooperative.normalize as N
    from incomplete_cooperative.coalitions import Coalition
    from incomplete_cooperative.game import IncompleteCooperativeGame
    from incomplete_cooperative.graph_game import GraphCooperativeGame

    warnings.simplefilter("ignore")

    def arr(a):
        a = np.asarray(a)
        return (type(a).__name__, a.dtype.str, a.shape, a.tobytes())

    def enc(x):
        if isinstance(x, tuple):
            return ("tuple", [enc(y) for y in x])
        if isinstance(x, (np.ndarray, np.generic)):
            return (type(x).__name__,) + arr(x)
        return (type(x).__name__, repr(x))

    def state(game):
        if hasattr(game, "_graph_matrix"):
            return ("graph", type(game).__name__, game.number_of_players, arr(game._graph_matrix))
        if hasattr(game, "_values"):
            return ("icg", type(game).__name__, game.number_of_players, arr(game._values))
        return ("duck", repr(sorted(game.store.items())), list(game.log))

    out = []

    def run(tag, fn, game, *args):
        try:
            outcome = ("ok", enc(fn(game, *args)))
        except BaseException as e:  # noqa
            outcome = ("exc", type(e).__name__, str(e))
        out.append((tag, outcome, state(game)))
        return outcome

    class SubICG(IncompleteCooperativeGame):
        pass

    class SubGraph(GraphCooperativeGame):
        pass

    class Duck:
        """Neither an ICG nor a graph game."""

        def __init__(self, n, vals):
            self.number_of_players = n
            self.store = dict(enumerate(vals))
            self.log = []

        def get_value(self, c):
            self.log.append(("get", c.id))
            return np.float64(self.store[c.id])

        def get_values(self, coalitions=None):
            cs = list(coalitions) if coalitions is not None else [Coalition(i) for i in range(2**self.number_of_players)]
            self.log.append(("gets", [c.id for c in cs]))
            return np.array([self.store[c.id] for c in cs], dtype=np.float64)

        def set_value(self, v, c):
            self.log.append(("set", c.id, repr(v)))
            self.store[c.id] = v

    out.append(("names", sorted(k for k in vars(N) if "normalize" in k or "norm" in k.lower())))

    def icg_values(n, seed):
        rng = np.random.default_rng(seed)
        size = 2**n
        kind = seed % 6
        if kind == 0:
            v = np.array([bin(c).count("1")**2 for c in range(size)], float)
        elif kind == 1:
            v = rng.normal(size=size) * 10
        elif kind == 2:   # additive -> zero branch
            w = rng.random(n) * 3
            v = np.array([sum(w[i] for i in range(n) if c >> i & 1) for c in range(size)])
        elif kind == 3:   # all zero
            v = np.zeros(size)
        elif kind == 4:   # additive plus a tiny / moderate perturbation around the residue threshold
            w = rng.random(n) * 3
            v = np.array([sum(w[i] for i in range(n) if c >> i & 1) for c in range(size)])
            v[-1] += 10.0**(-rng.integers(8, 18))
        else:
            v = rng.integers(-3, 9, size).astype(float)
        v[0] = 0
        return v

    count = 0
    for n in (1, 2, 3, 4, 5, 6):
        for seed in range(18):
            rng = np.random.default_rng(77 * n + seed)
            v = icg_values(n, 100 * n + seed)
            for cls in (IncompleteCooperativeGame, SubICG):
                g = cls(n)
                g.set_values(v)
                if seed % 9 == 8 and n > 1:   # an unknown value -> ValueError somewhere
                    g.unset_value(Coalition(int(rng.integers(1, 2**n))))
                o = run(("norm_icg", n, seed, cls.__name__), N.normalize_game, g)
                info = (np.float64(rng.normal()), rng.normal(size=n))
                if o[0] == "ok" and seed % 2 == 0:
                    run(("denorm_icg_roundtrip", n, seed), N.denormalize_game, g, _dec(o[1], np))
                else:
                    run(("denorm_icg_other", n, seed), N.denormalize_game, g, info)
                count += 2
            # private entry points
            g = IncompleteCooperativeGame(n)
            g.set_values(v)
            run(("get_norminfo", n, seed), N._get_norminfo, g)
            run(("_normalize_icg", n, seed), N._normalize_icg, g)
            # bad normalization infos
            bad_infos = [(np.float64(2.0), rng.normal(size=max(n - 1, 0))),      # IndexError part-way
                         (2.0, list(rng.normal(size=n))),                       # python types
                         (np.float64(1.5),),                                    # wrong length
                         (np.float64(1.5), rng.normal(size=n), 3),              # wrong length
                         (np.float32(0.5), rng.normal(size=n).astype(np.float32)),
                         (3, rng.integers(-2, 3, n))]
            g = IncompleteCooperativeGame(n)
            g.set_values(v)
            run(("denorm_bad", n, seed), N.denormalize_game, g, bad_infos[seed % len(bad_infos)])
            if n > 1:
                g.unset_value(Coalition(2**n - 2))
                run(("denorm_incomplete", n, seed), N.denormalize_game, g, info)
            count += 4

            # graph games
            m = rng.normal(size=(n, n)) if seed % 3 else rng.integers(-2, 3, (n, n)).astype(float)
            if seed % 5 == 4:
                m = np.zeros((n, n))
            for cls in (GraphCooperativeGame, SubGraph):
                gg = cls(m)
                if seed % 4 == 1:   # dirty lower triangle / diagonal, must be cleared by normalize
                    gg._graph_matrix = rng.normal(size=(n, n))
                if seed % 4 == 2:   # integer matrix: in-place true division fails after the clearing
                    gg._graph_matrix = rng.integers(1, 4, (n, n))
                if seed % 4 == 3:   # non-contiguous view
                    gg._graph_matrix = np.triu(rng.normal(size=(n, n)), 1).T.copy().T
                o = run(("norm_graph", n, seed, cls.__name__), N.normalize_game, gg)
                if o[0] == "ok":
                    run(("denorm_graph", n, seed), N.denormalize_game, gg, _dec(o[1], np))
                run(("denorm_graph_other", n, seed), N.denormalize_game, gg, info)
                run(("denorm_graph_bad", n, seed), N.denormalize_game, gg, (1.0,))
                run(("_normalize_graph", n, seed), N._normalize_graph_game, gg)
                run(("_denormalize_graph", n, seed), N._denormalize_graph_game, gg, info)
                count += 6

            # neither type
            d = Duck(n, v)
            run(("norm_duck", n, seed), N.normalize_game, d)
            run(("denorm_duck", n, seed), N.denormalize_game, d, info)
            count += 2
    out.append(("count", count))
    with open(out_path, "wb") as f:
        pickle.dump(out, f, protocol=4)


def _dec(e, np):
    """Rebuild a NormInfo from its encoding."""
    assert e[0] == "tuple"
    res = []
    for item in e[1]:
        _, _, dtype, shape, raw = item
        a = np.frombuffer(raw, dtype=dtype).reshape(shape).copy()
        res.append(a[()] if shape == () else a)
    return tuple(res)


def main():
    tmp = tempfile.mkdtemp(prefix="y06_eq2_")
    try:
        orig = os.path.join(tmp, "orig")
        os.mkdir(orig)
        subprocess.run(f"git archive HEAD incomplete_cooperative | tar -x -C {orig}", shell=True, check=True, cwd=WT)
        paths = {}
        for tag, root in (("orig", orig), ("new", WT)):
            paths[tag] = os.path.join(tmp, tag + ".pkl")
            env = dict(os.environ, PYTHONPATH=root, PYTHONHASHSEED="0", OMP_NUM_THREADS="1", PYTHONDONTWRITEBYTECODE="1")
            subprocess.run([PY, os.path.abspath(__file__), "--worker", paths[tag]], check=True, env=env, cwd=tmp)
        a = open(paths["orig"], "rb").read()
        b = open(paths["new"], "rb").read()
        ra, rb = pickle.loads(a), pickle.loads(b)
        bad = [i for i, (x, y) in enumerate(zip(ra, rb)) if x != y]
        excs = {}
        for r in ra:
            if len(r) == 3 and isinstance(r[1], tuple) and r[1][0] == "exc":
                excs[r[1][1]] = excs.get(r[1][1], 0) + 1
        print(f"records: {len(ra)} vs {len(rb)}; runs: {ra[-1]}; exceptions: {excs}")
        if a != b or len(ra) != len(rb) or bad:
            print("DIFFERENT", bad[:10])
            for i in bad[:3]:
                print(ra[i][:2], rb[i][:2])
            return 1
        print("IDENTICAL")
        return 0
    finally:
        shutil.rmtree(tmp, ignore_errors=True)


if __name__ == "__main__":
    if len(sys.argv) > 2 and sys.argv[1] == "--worker":
        worker(sys.argv[2])
    else:
        sys.exit(main())
