"""Differential test for patch 1 (shapley.py: lambdas -> named inner functions, map -> explicit loop variable).

Run with cwd=/tmp/wt10/U06.  Loads the ORIGINAL package from `git show HEAD:` into a temp dir and the refactored one from
the worktree, then compares the Shapley entry points bit for bit on many games.
"""
import atexit
import importlib
import itertools
import os
import shutil
import subprocess
import sys
import tempfile
from pathlib import Path

import numpy as np

WT = Path.cwd()
PKG = "incomplete_cooperative"
FILES = ["__init__.py", "shapley.py", "coalitions.py", "protocols.py", "functoolz.py", "game.py", "regret.py",
         "exploitability.py", "bounds.py", "coalition_ids.py"]


def _purge():
    for name in [m for m in sys.modules if m == PKG or m.startswith(PKG + ".")]:
        del sys.modules[name]


def load_original():
    tmp = Path(tempfile.mkdtemp(prefix="icg_orig_"))
    atexit.register(shutil.rmtree, tmp, ignore_errors=True)
    listing = subprocess.run(["git", "-C", str(WT), "ls-tree", "-r", "--name-only", "HEAD", PKG],
                             check=True, capture_output=True, text=True).stdout.split()
    for rel in listing:
        if "/tests/" in rel or not rel.endswith(".py"):
            continue
        dest = tmp / rel
        dest.parent.mkdir(parents=True, exist_ok=True)
        dest.write_bytes(subprocess.run(["git", "-C", str(WT), "show", f"HEAD:{rel}"],
                                        check=True, capture_output=True).stdout)
    _purge()
    sys.path.insert(0, str(tmp))
    try:
        mods = {n: importlib.import_module(f"{PKG}.{n}") for n in ("shapley", "coalitions", "game", "exploitability")}
    finally:
        sys.path.remove(str(tmp))
    assert Path(mods["shapley"].__file__).is_relative_to(tmp)
    _purge()
    return mods


def load_refactored():
    _purge()
    sys.path.insert(0, str(WT))
    try:
        mods = {n: importlib.import_module(f"{PKG}.{n}") for n in ("shapley", "coalitions", "game", "exploitability")}
    finally:
        sys.path.remove(str(WT))
    assert Path(mods["shapley"].__file__).is_relative_to(WT)
    return mods


class ArrayGame:
    """A minimal duck-typed Game backed by an arbitrary value vector (any dtype, including object)."""

    def __init__(self, n, values):
        self.number_of_players = n
        self.values = values
        self.calls = []

    def get_values(self, coalitions=None):
        ids = [c.id for c in coalitions]
        self.calls.append(tuple(ids))
        return self.values[ids]

    def get_value(self, coalition):
        return self.values[coalition.id]

    def copy(self):
        return ArrayGame(self.number_of_players, self.values.copy())

    def __add__(self, other):
        return ArrayGame(self.number_of_players, self.values + other.values)


def outcome(fn):
    try:
        return ("ok", fn())
    except BaseException as e:  # noqa
        return ("exc", type(e).__name__, str(e))


def same(a, b):
    if a[0] != b[0]:
        return False
    if a[0] == "exc":
        return a == b
    x, y = a[1], b[1]
    if isinstance(x, tuple):
        return len(x) == len(y) and all(same(("ok", p), ("ok", q)) for p, q in zip(x, y))
    if isinstance(x, list):
        if len(x) != len(y):
            return False
        return all(same(("ok", p), ("ok", q)) for p, q in zip(x, y))
    if type(x) is not type(y):
        return False
    if isinstance(x, (np.ndarray, np.generic, float)):
        xa, ya = np.asarray(x), np.asarray(y)
        if xa.dtype != ya.dtype or xa.shape != ya.shape:
            return False
        if xa.dtype == object:
            return xa.tolist() == ya.tolist()
        return bool(np.array_equal(xa, ya, equal_nan=True)) and xa.tobytes() == ya.tobytes()
    return x == y


def value_vectors(n, rng):
    size = 2 ** n
    out = []
    v = rng.normal(size=size); v[0] = 0; out.append(v)
    v = rng.uniform(-1e6, 1e6, size=size); v[0] = 0; out.append(v)
    v = rng.integers(-50, 50, size=size).astype(np.float64); v[0] = 0; out.append(v)
    v = rng.integers(-50, 50, size=size); v[0] = 0; out.append(v)                      # int64 values
    v = rng.normal(size=size).astype(np.float32); v[0] = 0; out.append(v)             # float32 values
    v = rng.normal(size=size) * 10.0 ** rng.integers(-200, 200, size=size); v[0] = 0; out.append(v)  # wild scales
    v = rng.normal(size=size); v[rng.integers(1, size)] = np.nan; out.append(v)       # NaN
    v = rng.normal(size=size); v[rng.integers(1, size)] = np.inf; v[rng.integers(1, size)] = -np.inf; out.append(v)
    v = rng.normal(size=size); out.append(v)                                           # v(empty) != 0
    return out


def main():
    orig = load_original()
    new = load_refactored()
    assert orig["shapley"] is not new["shapley"]
    cases = 0

    def run(mods, n, values, what, player=None, use_icg=False):
        sh, co, gm = mods["shapley"], mods["coalitions"], mods["game"]
        if use_icg:
            game = gm.IncompleteCooperativeGame(n)
            game.set_values(values.astype(np.float64))
        else:
            game = ArrayGame(n, values.copy())
        if what == "all":
            res = outcome(lambda: list(sh.compute_shapley_value(game)))
        elif what == "one":
            res = outcome(lambda: sh.compute_shapley_value_for_player(player, game))
        elif what == "lazy":
            # take only part of the generator, to compare laziness (which get_values calls happened)
            def f():
                it = sh.compute_shapley_value(game)
                return [next(it) for _ in range(min(2, n))]
            res = outcome(f)
        elif what == "private":
            res = outcome(lambda: sh._shapley_value_for_player(
                co.Coalition(player), game, sh._get_contributions(n), 7))
        calls = getattr(game, "calls", None)
        return res, calls

    for seed in range(12):
        rng_o = np.random.default_rng(seed)
        for n in range(1, 8):
            vecs = value_vectors(n, rng_o)
            for vi, values in enumerate(vecs):
                for use_icg in (False, True):
                    if use_icg and (np.isnan(values.astype(np.float64)).any()):
                        pass
                    todo = [("all", None), ("lazy", None)] + [("one", p) for p in range(n)]
                    # private entry point with arbitrary (also non-singleton / empty) coalition ids
                    todo += [("private", c) for c in (0, 1, 2 ** n - 1, 3 % (2 ** n))]
                    # out-of-range / odd players
                    todo += [("one", n), ("one", -1)] if n <= 3 else []
                    for what, player in todo:
                        a, ca = run(orig, n, values, what, player, use_icg)
                        b, cb = run(new, n, values, what, player, use_icg)
                        cases += 1
                        if not same(a, b) or ca != cb:
                            print("DIFFERENT")
                            print(dict(seed=seed, n=n, vector=vi, what=what, player=player, use_icg=use_icg))
                            print("original  :", a, ca)
                            print("refactored:", b, cb)
                            return 1

    # object-dtype values (Fractions) exercise the exact order of the Python-level sum
    from fractions import Fraction
    for seed in range(5):
        rng = np.random.default_rng(100 + seed)
        for n in range(1, 6):
            values = np.array([Fraction(int(a), int(b)) for a, b in
                               zip(rng.integers(-99, 99, 2 ** n), rng.integers(1, 99, 2 ** n))], dtype=object)
            values[0] = Fraction(0)
            for what, player in [("all", None)] + [("one", p) for p in range(n)]:
                a, ca = run(orig, n, values, what, player)
                b, cb = run(new, n, values, what, player)
                cases += 1
                if not same(a, b) or ca != cb:
                    print("DIFFERENT")
                    print(dict(seed=seed, n=n, what=what, player=player, kind="fraction"))
                    print("original  :", a)
                    print("refactored:", b)
                    return 1

    # error path: a game with an unknown value raises the same exception
    for n in range(2, 5):
        for mods_pair in [(orig, new)]:
            res = []
            for mods in mods_pair:
                game = mods["game"].IncompleteCooperativeGame(n)
                game.set_value(1.0, mods["coalitions"].Coalition(2 ** n - 1))
                res.append(outcome(lambda: list(mods["shapley"].compute_shapley_value(game))))
            cases += 1
            if not same(*res):
                print("DIFFERENT")
                print("unknown values, n =", n, res)
                return 1

    # downstream user: exploitability helpers, if importable
    print(f"compared {cases} cases")
    print("EQUIVALENT")
    return 0


if __name__ == "__main__":
    os.environ.setdefault("OMP_NUM_THREADS", "1")
    sys.exit(main())
