"""Differential test for refactoring 1 (icg_gym.py: named inner predicate, cached length, de Morgan form of `done`).

Run with cwd=/tmp/wt10/U07.  The ORIGINAL package is taken from `git archive HEAD` into a temporary directory; the
refactored package is the worktree.  The same driver runs in one subprocess per tree and pickles plain data
(numpy arrays, python scalars, strings); the two result lists are compared exactly.
"""
import io
import os
import pickle  # nosec
import subprocess  # nosec
import sys
import tarfile
import tempfile

WT = "/tmp/wt10/U07"


# --------------------------------------------------------------------------------------------- generic machinery
def freeze(x):
    """Turn a result into plain, picklable, comparable data (keeping types visible)."""
    import numpy as np
    if isinstance(x, np.ndarray):
        return ("nd", str(x.dtype), x.shape, np.array(x, copy=True))
    if isinstance(x, np.generic):
        return ("npscalar", type(x).__name__, np.array(x))
    if isinstance(x, (bool, int, float, str, type(None))):
        return (type(x).__name__, x)
    if isinstance(x, (list, tuple)):
        return (type(x).__name__, [freeze(y) for y in x])
    if isinstance(x, dict):
        return ("dict", [(freeze(k), freeze(v)) for k, v in x.items()])
    if hasattr(x, "id") and type(x).__name__ == "Coalition":
        return ("Coalition", x.id)
    if hasattr(x, "_values") and hasattr(x, "number_of_players"):
        return ("ICG", x.number_of_players, np.array(x._values, copy=True))
    if hasattr(x, "_graph_matrix"):
        return ("GraphGame", np.array(x._graph_matrix, copy=True))
    return ("repr", type(x).__name__, repr(x))


def same(a, b):
    """Exact comparison of frozen data."""
    import numpy as np
    if type(a) is not type(b):
        return False
    if isinstance(a, np.ndarray):
        return a.dtype == b.dtype and a.shape == b.shape and bool(np.array_equal(a, b, equal_nan=a.dtype.kind in "fc"))
    if isinstance(a, (list, tuple)):
        return len(a) == len(b) and all(same(x, y) for x, y in zip(a, b))
    if isinstance(a, float):
        return a == b or (a != a and b != b)
    return a == b


def first_difference(a, b, path="result"):
    """Locate the first place where two frozen results differ."""
    if type(a) is type(b) and isinstance(a, (list, tuple)) and len(a) == len(b):
        for i, (x, y) in enumerate(zip(a, b)):
            if not same(x, y):
                return first_difference(x, y, f"{path}[{i}]")
    return f"{path}: {a!r} != {b!r}"


def guarded(fn):
    """Run fn, return its frozen result or the exception."""
    import warnings
    with warnings.catch_warnings(record=True) as caught:
        warnings.simplefilter("always")
        try:
            r = ("ok", freeze(fn()))
        except BaseException as e:  # noqa
            r = ("exc", type(e).__name__, str(e))
    return r, [(w.category.__name__, str(w.message)) for w in caught]


def reseed(seed):
    """Reset every global random stream the package may touch."""
    import random

    import numpy as np

    from incomplete_cooperative import generators
    random.seed(seed)
    np.random.seed(seed % 2**32)
    generators._gen.bit_generator.state = np.random.default_rng(seed).bit_generator.state
    generators._LAST_OWNER = 0


def main(worker_cases):
    """Run worker_cases in the original and in the refactored tree, compare."""
    if len(sys.argv) >= 4 and sys.argv[1] == "--worker":
        root, out = sys.argv[2], sys.argv[3]
        sys.path.insert(0, root)
        import incomplete_cooperative
        assert os.path.realpath(incomplete_cooperative.__file__).startswith(os.path.realpath(root)), \
            incomplete_cooperative.__file__  # nosec
        results = worker_cases()
        with open(out, "wb") as f:
            pickle.dump(results, f)
        return 0

    with tempfile.TemporaryDirectory() as tmp:
        orig_root = os.path.join(tmp, "orig")
        os.makedirs(orig_root)
        data = subprocess.run(["git", "-C", WT, "archive", "HEAD", "incomplete_cooperative"],  # nosec
                              check=True, capture_output=True).stdout
        with tarfile.open(fileobj=io.BytesIO(data)) as tar:
            tar.extractall(orig_root)  # nosec
        loaded = []
        for label, root in (("orig", orig_root), ("new", WT)):
            out = os.path.join(tmp, label + ".pkl")
            env = dict(os.environ, OMP_NUM_THREADS="1", MKL_NUM_THREADS="1", PYTHONHASHSEED="0",
                       PYTHONDONTWRITEBYTECODE="1")
            subprocess.run([sys.executable, os.path.abspath(__file__), "--worker", root, out],  # nosec
                           check=True, env=env, cwd=root)
            with open(out, "rb") as f:
                loaded.append(pickle.load(f))  # nosec
    orig, new = loaded
    if len(orig) != len(new):
        print(f"DIFFERENT: number of cases {len(orig)} != {len(new)}")
        return 1
    for (name_o, res_o), (name_n, res_n) in zip(orig, new):
        if name_o != name_n or not same(res_o, res_n):
            print("DIFFERENT")
            print("case:", name_o, name_n)
            print("first difference at", first_difference(res_o, res_n)[:3000])
            return 1
    from collections import Counter
    excs = Counter(f"{name.split('(')[0]}:{r[0][1]}:{r[0][2][:60]}" for name, r in orig if r[0][0] == "exc")
    print(f"EQUIVALENT ({len(orig)} cases, {sum(excs.values())} of them raising identically: {dict(excs)})")
    return 0


# --------------------------------------------------------------------------------------------- the cases
def snapshot(env):
    """Everything observable of the reveal-one-coalition environment."""
    done = env.done
    return {
        "state": env.state, "reward": env.reward, "done": done, "done_type": type(done).__name__,
        "mask": env.action_masks(), "steps_taken": env.steps_taken,
        "table": env.incomplete_game._values.copy(),
        "full": env.full_game, "normalized": env.normalized_game,
    }


def walk(env, drv, n_ops):
    """Random sequence of step / unstep / reset (valid actions, plus a few invalid ones); ignores `done`."""
    import numpy as np
    trace = [snapshot(env)]
    revealed = []
    for _ in range(n_ops):
        mask = env.action_masks()
        valid = [int(i) for i in np.flatnonzero(mask)]
        u = drv.random()
        if u < 0.55 and valid:
            a = valid[int(drv.integers(len(valid)))]
            a = a if drv.random() < 0.5 else np.int64(a)
            res = env.step(a)
            revealed.append(int(a))
            trace.append(("step", int(a), res, type(res[2]).__name__, snapshot(env)))
        elif u < 0.8 and revealed:
            a = revealed.pop(int(drv.integers(len(revealed))))
            res = env.unstep(a)
            trace.append(("unstep", a, res, type(res[2]).__name__, snapshot(env)))
        elif u < 0.9:
            res = env.reset()
            revealed = []
            trace.append(("reset", res, snapshot(env)))
        elif u < 0.95 and revealed:
            a = revealed[0]
            trace.append(("bad-step", a, guarded(lambda: env.step(a))[0], snapshot(env)))  # noqa
        else:
            a = len(mask) + int(drv.integers(3))
            trace.append(("oob-step", a, guarded(lambda: env.step(a))[0], snapshot(env)))  # noqa
    return trace


def gym_case(gen_name, n, bound_name, limit, known_kind, seed, n_ops):
    """Build an ICG_Gym directly and walk it."""
    from functools import partial

    import numpy as np

    from incomplete_cooperative.bounds import BOUNDS
    from incomplete_cooperative.coalitions import (Coalition,
                                                   minimal_game_coalitions)
    from incomplete_cooperative.exploitability import compute_exploitability
    from incomplete_cooperative.game import IncompleteCooperativeGame
    from incomplete_cooperative.generators import GENERATORS
    from incomplete_cooperative.icg_gym import ICG_Gym
    from incomplete_cooperative.norms import l1_norm, l2_norm, linf_norm

    reseed(seed)
    drv = np.random.default_rng(1000 + seed)
    gap = [compute_exploitability, l1_norm, l2_norm, linf_norm][seed % 4]
    game = IncompleteCooperativeGame(n, BOUNDS[bound_name])
    generator = partial(GENERATORS[gen_name], n, np.random.default_rng(seed))
    if known_kind == "minimal":
        known = minimal_game_coalitions(game)
    elif known_kind == "extra":
        extra = [Coalition(int(i)) for i in drv.integers(2**n, size=3)]
        known = list(minimal_game_coalitions(game)) + extra
    elif known_kind == "dup":
        known = list(minimal_game_coalitions(game)) * 2
    else:
        known = []
    if limit == "npint":
        limit = np.int64(2)
    env = ICG_Gym(game, generator, known, gap, limit) if seed % 2 else \
        ICG_Gym(game, generator, known, gap, done_after_n_actions=limit)
    header = {
        "explorable": [c.id for c in env.explorable_coalitions],
        "known": [c.id for c in env.initially_known_coalitions],
        "obs_low": env.observation_space.low, "obs_high": env.observation_space.high,
        "obs_dtype": str(env.observation_space.dtype), "obs_shape": env.observation_space.shape,
        "act_n": env.action_space.n, "act_n_type": type(env.action_space.n).__name__,
        "attrs": sorted(vars(env).keys()),
    }
    return header, walk(env, drv, n_ops)


def model_case(gen_name, n, game_class, linear, limit, seed, solver_name, processes, repetitions):
    """Go through ModelInstance.get_env and evaluate()."""
    import numpy as np

    from incomplete_cooperative.evaluation import evaluate
    from incomplete_cooperative.run.model import ModelInstance
    from incomplete_cooperative.solvers import SOLVERS

    reseed(seed)
    instance = ModelInstance(number_of_players=n, game_class=game_class, game_generator=gen_name, linear=linear,
                             run_steps_limit=limit, seed=seed, parallel_environments=processes)
    env = instance.get_env()
    inner = env.icg_gym if linear else env
    out = {"first": snapshot(inner), "np_random": env.np_random.integers(2**63)}
    drv = np.random.default_rng(seed)
    if not linear:
        out["walk"] = walk(env, drv, 12)
    else:
        steps = []
        env.reset()
        for _ in range(6):
            mask = env.action_masks()
            valid = np.flatnonzero(mask)
            if not len(valid):
                break
            a = int(valid[int(drv.integers(len(valid)))])
            steps.append((a, env.step(a), env.done, env.reward, env.state, snapshot(inner)))
        out["linear_walk"] = steps
    if solver_name is not None and not linear:
        solver = SOLVERS[solver_name](instance)
        steps_limit = limit if limit is not None else 2**n
        out["evaluate"] = evaluate(solver.next_step, instance.get_env, repetitions, steps_limit,
                                   instance.gap_function_callable, processes, solver.after_reset)
    return out


def worker_cases():
    """All cases; a list of (name, result)."""
    from incomplete_cooperative.generators import GENERATORS

    results = []

    def run(name, fn):
        results.append((name, guarded(fn)))

    slow_or_missing = {"convex"}
    all_gens = [g for g in GENERATORS if g not in slow_or_missing]
    bounds = ["superadditive", "superadditive_cached", "sam_apx_1", "sam_apx_10"]
    limits = [None, 0, 1, 3, 50, "npint"]

    # every registered generator, one or two configurations each
    for i, gen_name in enumerate(all_gens):
        for seed in (i, i + 100):
            args = (gen_name, 4, bounds[(i + seed) % len(bounds)], limits[(i + seed // 100) % len(limits)],
                    "minimal", seed, 14)
            run(f"gym{args}", lambda args=args: gym_case(*args))

    # the common generators, more thoroughly
    core = ["factory", "noisy_factory", "factory_cheerleader_next", "xos", "additive", "graph_cycle", "graph",
            "graph_random", "xos_norm_additive", "noisy_factory_square"]
    core = [g for g in core if g in GENERATORS]
    k = 0
    for gen_name in core:
        for n in (3, 4, 5):
            for bound_name in bounds + ["sam_apx_100"]:
                for limit in limits:
                    k += 1
                    if n == 5 and k % 3:
                        continue
                    known_kind = "none" if k % 23 == 0 else ["minimal", "minimal", "extra", "dup", "extra", "minimal", "dup"][k % 7]
                    args = (gen_name, n, bound_name, limit, known_kind, k, 10 if n == 5 else 16)
                    run(f"gym{args}", lambda args=args: gym_case(*args))

    # through ModelInstance / evaluate
    k = 0
    for gen_name in ["factory", "noisy_factory", "xos", "additive", "graph_cycle"]:
        if gen_name not in GENERATORS:
            continue
        for game_class in ("superadditive_cached", "superadditive"):
            for linear in (False, True):
                for limit in (None, 3, 6):
                    k += 1
                    solver = [None, "random", "greedy", "largest", "greedy_worst"][k % 5]
                    processes = 2 if k % 7 == 0 else 1
                    args = (gen_name, 4, game_class, linear, limit, 7 * k, solver, processes, 3)
                    run(f"model{args}", lambda args=args: model_case(*args))
    return results


if __name__ == "__main__":
    sys.exit(main(worker_cases))
