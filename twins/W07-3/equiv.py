"""Differential test for refactoring 3 (solver registry as dict(zip(...)), len() guard in RandomSolver, assert messages in evaluate).

Run with cwd=/tmp/wt12/W07.  The ORIGINAL package is exported from git HEAD into a temporary directory, the REFACTORED
one is the worktree.  Each is imported in its own subprocess (the package uses absolute imports, so it cannot be renamed),
runs the same list of cases and pickles a canonical form of every result; the parent compares them exactly.
"""
import io
import os
import pickle  # nosec
import subprocess  # nosec
import sys
import tarfile
import tempfile
from pathlib import Path

WORKTREE = Path.cwd()


# --------------------------------------------------------------------------------------------------------------------
# canonical forms
def canon(obj):
    """Turn a result into something that can be pickled and compared with ==, bit for bit."""
    import numpy as np
    if isinstance(obj, np.ndarray):
        return ("ndarray", str(obj.dtype), obj.shape, np.ascontiguousarray(obj).tobytes(),
                bool(obj.flags["C_CONTIGUOUS"]), bool(obj.flags["F_CONTIGUOUS"]))
    if isinstance(obj, np.generic):
        return ("npscalar", str(obj.dtype), obj.tobytes())
    if isinstance(obj, float):
        return ("float", obj.hex())
    if isinstance(obj, (bool, int, str, type(None))):
        return (type(obj).__name__, obj)
    if isinstance(obj, (list, tuple)):
        return (type(obj).__name__, [canon(x) for x in obj])
    if isinstance(obj, dict):
        return ("dict", [(canon(k), canon(v)) for k, v in obj.items()])
    if type(obj).__name__ == "Coalition":
        return ("Coalition", obj.id)
    raise TypeError(f"cannot canonicalise {type(obj)}")


def guarded(fn):
    """Run a case; exceptions are part of the observable behaviour."""
    try:
        return ("ok", canon(fn()))
    except BaseException as e:  # noqa
        import re
        return ("exc", type(e).__name__, re.sub(r"0x[0-9a-fA-F]+", "0x?", str(e)))


# --------------------------------------------------------------------------------------------------------------------
# the cases (executed inside the worker, i.e. with one of the two source trees)
class MaskGym:
    """A gym of which only the mask is looked at; counts how often."""

    def __init__(self, mask):
        import numpy as np
        self.mask = np.array(mask, dtype=bool)
        self.calls = 0
        self.np_random = np.random.default_rng(int(self.mask.sum()) + 17 * len(self.mask))

    def action_masks(self):
        self.calls += 1
        return self.mask

    def get_wrapper_attr(self, name):
        return getattr(self, name)


def first_valid(env):
    """A picklable policy: the first valid action."""
    import numpy as np
    return int(np.flatnonzero(env.action_masks())[0])


def noop(env):
    """A picklable `after_reset`."""


def run_cases():
    import inspect
    import json
    import random
    from argparse import ArgumentParser
    from functools import partial
    from pathlib import Path as P

    import numpy as np
    from incomplete_cooperative import evaluation, generators, solvers
    from incomplete_cooperative.evaluation import eval_one, evaluate
    from incomplete_cooperative.generators import GENERATORS
    from incomplete_cooperative.run.model import GAP_FUNCTIONS, ModelInstance
    from incomplete_cooperative.run.solve import add_solve_parser, solve_func
    from incomplete_cooperative.solvers import SOLVERS, RandomSolver

    results = []

    def record(name, fn):
        # the graph generators draw from an unseeded module-level stream: put it into a known state before every case
        generators._gen.bit_generator.state = np.random.default_rng(len(results)).bit_generator.state
        random.seed(len(results))
        results.append((name, guarded(fn)))

    # 1. the registry ------------------------------------------------------------------------------------------------
    def describe(factory):
        if isinstance(factory, partial):
            return ["partial", factory.func.__module__, factory.func.__qualname__, list(factory.args),
                    sorted(factory.keywords.items())]
        return [type(factory).__name__, factory.__module__, factory.__qualname__]
    record("registry", lambda: [type(SOLVERS).__name__, list(SOLVERS.keys()), [describe(f) for f in SOLVERS.values()],
                                [SOLVERS["greedy"] is solvers.GreedySolver, SOLVERS["random"] is solvers.RandomSolver,
                                 SOLVERS["largest"] is solvers.LargestSolver,
                                 SOLVERS["greedy_worst"].func is solvers.GreedySolver],
                                sorted(n for n in vars(solvers) if not n.startswith("_")),
                                list(inspect.signature(RandomSolver.__init__).parameters),
                                [name for name in SOLVERS if isinstance(SOLVERS[name], type)]])

    def parser_case(argv):
        def case():
            ap = ArgumentParser(prog="x")
            add_solve_parser(ap)
            try:
                ns = ap.parse_args(argv)
            except SystemExit as e:
                return ["exit", e.code, ap.format_help()]
            return [sorted((k, v if k != "func" else v.__qualname__) for k, v in vars(ns).items()), ap.format_help()]
        return case
    for argv in ([], ["--solver", "greedy"], ["--solver", "greedy_worst"], ["--solver", "random"], ["--solver", "largest"],
                 ["--solver", "nothing"], ["--solver", "Greedy"], ["--solve-repetitions", "3", "--solver", "random"]):
        record(f"parser {argv}", parser_case(argv))

    def built(name, instance):
        def case():
            solver = SOLVERS[name](instance)
            out = [type(solver).__name__, getattr(solver, "worst", None)]
            if hasattr(solver, "_generator"):
                out.append(solver._generator.getstate() if instance is not None else "unseeded")
            return out
        return case
    for name in ("greedy", "greedy_worst", "random", "largest", "missing", None):
        for seed in (0, 1, 12345678901234567890):
            record(f"build {name} seed={seed}", built(name, ModelInstance(seed=seed, number_of_players=3)))
        record(f"build {name} None", built(name, None))

    # 2. RandomSolver.next_step on masks (the empty one included): the draw, the stream afterwards, the mask reads ---
    mask_rng = np.random.default_rng(99)
    masks = [[], [False], [True], [False] * 5, [True] * 5, [False, True], [True, False]]
    masks += [list(mask_rng.random(int(k)) < p) for k in mask_rng.integers(1, 12, 40) for p in (0.1, 0.5)]
    for mi, mask in enumerate(masks):
        for seed in (0, 7):
            def case(mask=mask, seed=seed):
                solver = RandomSolver(ModelInstance(seed=seed, number_of_players=3))
                gym = MaskGym(mask)
                out = []
                for _ in range(3):
                    out.append(solver.next_step(gym))
                out.append(type(out[0]).__name__)
                out.append(gym.calls)
                out.append(solver._generator.getstate())
                solver.after_reset(gym)
                out.append(solver._generator.getstate())
                out.append(solver.next_step(gym))
                out.append(gym.np_random.bit_generator.state["state"]["state"])
                return out
            record(f"random mask#{mi} seed={seed}", case)

    # 3. evaluate(): every solver, several generators / gap functions / seeds / numbers of processes ------------------
    gen_names = ["factory", "noisy_factory", "factory_cheerleader", "graph_cycle", "xos", "xs", "oxs", "graph_random",
                 "k_budget_generator", "covg_fn_generator", "noisy_factory_square", "predictible_factory"]
    gen_names = [g for g in gen_names if g in GENERATORS]
    combo = 0
    for gen_name in gen_names:
        for solver_name in SOLVERS:
            for seed in (0, 1):
                combo += 1
                gap_name = list(GAP_FUNCTIONS)[combo % len(GAP_FUNCTIONS)]
                n = 3 if combo % 3 else 4
                steps = [1, 3, 4][combo % 3] if n == 3 else 3
                linear = combo % 5 == 0
                for processes in ((1, 2, 3) if seed == 0 and combo % 4 == 1 else (1,)):
                    def case(gen_name=gen_name, solver_name=solver_name, seed=seed, gap_name=gap_name, n=n, steps=steps,
                             processes=processes, linear=linear):
                        instance = ModelInstance(number_of_players=n, game_generator=gen_name, gap_function=gap_name,
                                                 run_steps_limit=steps, seed=seed, parallel_environments=processes,
                                                 linear=linear)
                        solver = SOLVERS[solver_name](instance)
                        gaps, acts = evaluate(solver.next_step, instance.get_env, 4, steps,
                                              instance.gap_function_callable, processes, solver.after_reset)
                        return [gaps, acts, instance.game_generator_rng.bit_generator.state["state"]["state"]]
                    record(f"evaluate {gen_name} {solver_name} seed={seed} gap={gap_name} n={n} steps={steps} "
                           f"p={processes} linear={linear}", case)

    # eval_one alone, and the corner cases of evaluate
    for seed in range(10):
        def one(seed=seed):
            instance = ModelInstance(number_of_players=3, game_generator="noisy_factory", run_steps_limit=2 + seed % 3,
                                     seed=seed)
            env = instance.get_env()
            solver = RandomSolver(instance)
            out = eval_one(solver.next_step, env, 3, instance.gap_function_callable, solver.after_reset)
            return [type(out).__name__, list(out), env.get_wrapper_attr("steps_taken")]
        record(f"eval_one seed={seed}", one)

    def corner(repetitions, steps, processes, after_reset="default", policy=first_valid):
        def case():
            instance = ModelInstance(number_of_players=3, game_generator="factory", run_steps_limit=4, seed=5)
            kwargs = {} if after_reset == "default" else {"after_reset": after_reset}
            return list(evaluate(policy, instance.get_env, repetitions, steps, instance.gap_function_callable,
                                 processes, **kwargs))
        return case
    for repetitions in (0, 1, 2, True, 2.0, -1):
        for steps in (0, 1, 4, 6, -1, -2, None, 1.0):
            for processes in (1, 2):
                if processes == 2 and (steps in (6, None, 1.0) or repetitions in (True, 2.0)):
                    continue
                record(f"corner reps={repetitions!r} steps={steps!r} p={processes}",
                       corner(repetitions, steps, processes, after_reset=noop))
    record("corner default after_reset p=1", corner(2, 2, 1))
    record("corner default after_reset p=2 (a lambda cannot be sent to a worker)", corner(2, 2, 2))
    record("corner invalid action", corner(2, 2, 1, policy=lambda env: 100))

    # 4. the command: solve_func writes the record ------------------------------------------------------------------
    for solver_name in list(SOLVERS) + [None, "unknown"]:
        for seed in (0, 1):
            def solve_case(solver_name=solver_name, seed=seed):
                ap = ArgumentParser()
                add_solve_parser(ap)
                parsed = ap.parse_args(["--solve-repetitions", "3"])
                parsed.solver = solver_name
                directory = P(f"solve_{solver_name}_{seed}")
                instance = ModelInstance(number_of_players=3, game_generator="noisy_factory", seed=seed,
                                         model_dir=directory, unique_name="run", parallel_environments=1 + seed,
                                         run_steps_limit=None if seed else 3)
                try:
                    solve_func(instance, parsed)
                    outcome = "done"
                except BaseException as e:  # noqa
                    outcome = [type(e).__name__, str(e)]
                data = directory / "data.json"
                return [outcome, instance.run_steps_limit, sorted(str(p) for p in directory.rglob("*")),
                        json.loads(data.read_text()) if data.exists() else None]
            record(f"solve_func {solver_name} seed={seed}", solve_case)
    return results


# --------------------------------------------------------------------------------------------------------------------
def worker(root: str, out: str) -> None:
    sys.path.insert(0, root)
    import incomplete_cooperative
    assert Path(incomplete_cooperative.__file__).resolve().is_relative_to(Path(root).resolve()), \
        incomplete_cooperative.__file__  # nosec
    results = run_cases()
    with open(out, "wb") as f:
        pickle.dump(results, f)


def export_original(target: Path) -> None:
    data = subprocess.run(["git", "-C", str(WORKTREE), "archive", "HEAD", "incomplete_cooperative"],  # nosec
                          check=True, capture_output=True).stdout
    with tarfile.open(fileobj=io.BytesIO(data)) as tar:
        tar.extractall(target)  # nosec


def main() -> int:
    env = dict(os.environ, OMP_NUM_THREADS="1", MKL_NUM_THREADS="1", PYTHONDONTWRITEBYTECODE="1")
    env.pop("PYTHONPATH", None)
    with tempfile.TemporaryDirectory() as tmp:
        tmp_path = Path(tmp)
        original_root = tmp_path / "original"
        original_root.mkdir()
        export_original(original_root)
        outputs = {}
        for name, root in (("original", original_root), ("refactored", WORKTREE)):
            out = tmp_path / f"{name}.pkl"
            subprocess.run([sys.executable, __file__, "--worker", str(root), str(out)],  # nosec
                           check=True, env=env, cwd=tmp)
            with out.open("rb") as f:
                outputs[name] = pickle.load(f)  # nosec
    original, refactored = outputs["original"], outputs["refactored"]
    changed = subprocess.run(["git", "-C", str(WORKTREE), "diff", "--stat"], capture_output=True,  # nosec
                             text=True, check=True).stdout.strip()
    print(f"cases: {len(original)}; failing in both trees the same way: "
          f"{sum(1 for _, r in original if r[0] == 'exc')}")
    from collections import Counter
    print("exceptions by case family:", dict(Counter((n.split()[0], r[1]) for n, r in original if r[0] == "exc")))
    print("evaluate cases with an exception:", [(n, r[1:]) for n, r in original if r[0] == "exc" and n.startswith("evaluate")][:3])
    print("worktree diff:", changed.splitlines()[-1] if changed else "(none!)")
    if [n for n, _ in original] != [n for n, _ in refactored]:
        print("DIFFERENT: the case lists differ")
        return 1
    for (name, a), (_, b) in zip(original, refactored):
        if a != b:
            print("DIFFERENT")
            print("case:", name)
            print("original:  ", repr(a)[:2000])
            print("refactored:", repr(b)[:2000])
            return 1
    print("EQUIVALENT")
    return 0


if __name__ == "__main__":
    if len(sys.argv) > 1 and sys.argv[1] == "--worker":
        worker(sys.argv[2], sys.argv[3])
    else:
        sys.exit(main())
