#!/venv/bin/python
"""Differential equivalence check for patch_2 (frozen dataclass carrying the Shapley weights in shapley.py).

Runs the same deterministic driver against the ORIGINAL sources (git HEAD, extracted into a temporary
directory) and against the refactored worktree, each in its own interpreter, and compares the pickled
outcomes byte for byte.  Exit status 0 iff identical.
"""
import os
import pickle
import subprocess
import sys
import tempfile

WORKTREE = os.environ.get("X06_WORKTREE", "/tmp/wt_x4_X06")
GIT_TREE = os.environ.get("X06_GIT_TREE", "/tmp/wt_x4_X06")  # where `git archive HEAD` finds the original sources
PYTHON = sys.executable if os.path.exists(sys.executable) else "/venv/bin/python"

DRIVER = r'''
import itertools, os, pickle, sys, types
from fractions import Fraction
import numpy as np

import incomplete_cooperative
from incomplete_cooperative import coalitions as C
from incomplete_cooperative.coalitions import (Coalition, all_coalitions, disjoint_coalitions, exclude_coalition,
                                               get_known_coalitions, get_sub_coalitions, get_super_coalitions,
                                               grand_coalition, minimal_game_coalitions, player_to_coalition)
from incomplete_cooperative.game import IncompleteCooperativeGame
from incomplete_cooperative.graph_game import GraphCooperativeGame
from incomplete_cooperative.normalize import denormalize_game, normalize_game
from incomplete_cooperative.protocols import Game
from incomplete_cooperative.shapley import compute_shapley_value, compute_shapley_value_for_player
from incomplete_cooperative.bounds import compute_bounds_superadditive
from incomplete_cooperative.exploitability import compute_exploitability
from incomplete_cooperative.icg_gym import ICG_Gym


def canon(x):
    """Turn an outcome into plain picklable data, exactly (arrays as dtype/shape/bytes)."""
    if isinstance(x, Coalition):
        return ("Coalition", canon(x.id))
    if isinstance(x, np.ndarray):
        if x.dtype == object:
            return ("objarray", x.shape, [canon(i) for i in x.ravel().tolist()])
        return ("ndarray", x.dtype.str, x.shape, np.ascontiguousarray(x).tobytes())
    if isinstance(x, np.generic):
        return ("npscalar", x.dtype.str, x.tobytes())
    if isinstance(x, Fraction):
        return ("Fraction", str(x))
    if isinstance(x, (bool, int, float, str, bytes, type(None))):
        return (type(x).__name__, repr(x))
    if isinstance(x, (list, tuple)):
        return (type(x).__name__, [canon(i) for i in x])
    if isinstance(x, dict):
        return ("dict", [(canon(k), canon(v)) for k, v in x.items()])
    if isinstance(x, IncompleteCooperativeGame):
        return ("ICG", x.number_of_players, canon(x._values))
    if isinstance(x, GraphCooperativeGame):
        return ("Graph", x.number_of_players, canon(x._graph_matrix))
    if isinstance(x, (types.GeneratorType, map, filter, itertools.chain)):
        return ("iter:" + type(x).__name__, attempt(lambda: [canon(i) for i in x]))
    return ("other", type(x).__module__, type(x).__qualname__)


def attempt(thunk):
    try:
        return ("ok", canon(thunk()))
    except BaseException as exc:  # noqa
        return ("raised", type(exc).__module__, type(exc).__qualname__, str(exc))


OUT = []


def rec(label, thunk):
    OUT.append((label, attempt(thunk)))


from fractions import Fraction

from incomplete_cooperative.exploitability import MaxGainGame


class SpyGame:
    """A Game that logs every use the Shapley code makes of it (order and arguments)."""

    def __init__(self, inner, log):
        object.__setattr__(self, "_inner", inner)
        object.__setattr__(self, "_log", log)

    @property
    def number_of_players(self):
        self._log.append("number_of_players")
        return self._inner.number_of_players

    def get_values(self, coalitions=None):
        coalitions = list(coalitions) if coalitions is not None else None
        self._log.append(("get_values", None if coalitions is None else [(type(c).__name__, c.id) for c in coalitions]))
        return self._inner.get_values(coalitions)

    def get_value(self, coalition):
        self._log.append(("get_value", coalition.id))
        return self._inner.get_value(coalition)

    def copy(self):
        self._log.append("copy")
        return SpyGame(self._inner.copy(), self._log)

    def __add__(self, other):
        self._log.append("add")
        return SpyGame(self._inner + other._inner, self._log)


class ObjectGame:
    """A Game whose values are exact rationals (object arrays)."""

    def __init__(self, n, values):
        self.number_of_players = n
        self._values = np.array(values, dtype=object)

    def get_values(self, coalitions=None):
        if coalitions is None:
            return self._values
        return self._values[[c.id for c in coalitions]]

    def get_value(self, coalition):
        return self._values[coalition.id]

    def copy(self):
        return ObjectGame(self.number_of_players, self._values.copy())

    def __add__(self, other):
        return ObjectGame(self.number_of_players, self._values + other._values)


class ListGame(ObjectGame):
    """Values come back as plain python lists of floats / ints."""

    def get_values(self, coalitions=None):
        return list(ObjectGame.get_values(self, coalitions))


def icg(n, rng, kind="random", bounds=None):
    game = IncompleteCooperativeGame(n, bounds) if bounds is not None else IncompleteCooperativeGame(n)
    if kind == "random":
        vals = rng.normal(size=2**n) * 10
    elif kind == "big":
        vals = rng.normal(size=2**n) * 10.0**rng.integers(-12, 13, size=2**n)
    elif kind == "ints":
        vals = rng.integers(-5, 6, size=2**n).astype(float)
    elif kind == "additive":
        w = rng.normal(size=n)
        vals = np.array([sum(w[i] for i in Coalition(c).players) for c in range(2**n)], dtype=float)
    elif kind == "special":
        vals = rng.normal(size=2**n)
        vals[rng.integers(0, 2**n)] = np.nan
        vals[rng.integers(0, 2**n)] = np.inf
        vals[rng.integers(0, 2**n)] = -0.0
    elif kind == "convex":
        vals = np.array([len(Coalition(c))**2 for c in range(2**n)], dtype=float)
    vals[0] = 0
    game.set_values(vals)
    return game


count = 0
for n in range(1, 10):
    for seed in range(12 if n < 8 else 3):
        r = np.random.default_rng(977 * n + seed)
        for kind in ("random", "big", "ints", "additive", "special", "convex"):
            g = icg(n, r, kind)
            rec(("all", n, seed, kind), lambda: list(compute_shapley_value(g)))
            rec(("each", n, seed, kind), lambda: [compute_shapley_value_for_player(i, g) for i in range(n)])
            rec(("types", n, seed, kind), lambda: [type(v).__name__ for v in compute_shapley_value(g)])
            count += 1
        # numpy / bool / out-of-range / wrong players
        g = icg(n, r)
        for k, player in enumerate([np.int64(0), np.int32(n - 1), True, False, n, n + 3, -1, 0.0, "0", None, [0], (0, 0)]):
            rec(("player", n, seed, k), lambda: compute_shapley_value_for_player(player, g))

# graph games, max-gain games (the exploitability path), spies, exact rationals, list-valued games
for n in range(1, 7):
    for seed in range(6):
        r = np.random.default_rng(13 * n + seed)
        gg = GraphCooperativeGame(r.random((n, n)))
        rec(("graph-all", n, seed), lambda: list(compute_shapley_value(gg)))
        rec(("graph-each", n, seed), lambda: [compute_shapley_value_for_player(i, gg) for i in range(n)])
        if n >= 2:
            part = IncompleteCooperativeGame(n, compute_bounds_superadditive)
            full = icg(n, r, "convex")
            ids = sorted(set(np.flatnonzero(r.random(2**n) < 0.4).tolist()) | {0, 2**n - 1} | {2**i for i in range(n)})
            known = [Coalition(int(i)) for i in ids]
            part.set_known_values(full.get_values(known), known)
            part.compute_bounds()
            rec(("maxgain", n, seed), lambda: [compute_shapley_value_for_player(p, MaxGainGame(part, p))
                                                for p in range(n)])
            rec(("maxgain-all", n, seed), lambda: [list(compute_shapley_value(MaxGainGame(part, p)))
                                                    for p in range(n)])
            rec(("exploitability", n, seed), lambda: compute_exploitability(part))
            rec(("partial-all", n, seed), lambda: list(compute_shapley_value(part)))
            rec(("partial-each", n, seed), lambda: [attempt(lambda: compute_shapley_value_for_player(p, part))
                                                     for p in range(n)])
        log = []
        spy = SpyGame(icg(n, r), log)
        rec(("spy-all", n, seed), lambda: (list(compute_shapley_value(spy)), log))
        log2 = []
        spy2 = SpyGame(icg(n, r, "ints"), log2)
        rec(("spy-each", n, seed), lambda: ([compute_shapley_value_for_player(p, spy2) for p in range(n)], log2))
        log3 = []
        spy3 = SpyGame(icg(n, r), log3)
        rec(("spy-bad-player", n, seed), lambda: (attempt(lambda: compute_shapley_value_for_player("x", spy3)), log3))
        fr = [Fraction(int(a), int(b)) for a, b in zip(r.integers(-20, 21, size=2**n), r.integers(1, 9, size=2**n))]
        fr[0] = Fraction(0)
        og = ObjectGame(n, fr)
        rec(("fraction-all", n, seed), lambda: [repr(v) for v in compute_shapley_value(og)])
        rec(("fraction-each", n, seed), lambda: [repr(compute_shapley_value_for_player(p, og)) for p in range(n)])
        ints = ObjectGame(n, [int(x) for x in r.integers(-9, 10, size=2**n)])
        rec(("pyint-all", n, seed), lambda: [repr(v) for v in compute_shapley_value(ints)])
        lg = ListGame(n, [float(x) for x in r.normal(size=2**n)])
        rec(("list-all", n, seed), lambda: [repr(v) for v in compute_shapley_value(lg)])
        rec(("list-each", n, seed), lambda: [repr(compute_shapley_value_for_player(p, lg)) for p in range(n)])

# laziness and generator protocol of compute_shapley_value
rec("lazy-none", lambda: type(compute_shapley_value(None)).__name__)
rec("none-consumed", lambda: list(compute_shapley_value(None)))
rec("each-none", lambda: compute_shapley_value_for_player(0, None))
rec("each-both-bad", lambda: compute_shapley_value_for_player("a", None))
rec("zero-players", lambda: list(compute_shapley_value(IncompleteCooperativeGame(0))))
rec("zero-players-each", lambda: compute_shapley_value_for_player(0, IncompleteCooperativeGame(0)))
rec("unknown", lambda: list(compute_shapley_value(IncompleteCooperativeGame(3))))
rec("int-game", lambda: list(compute_shapley_value(3)))
for n in range(2, 6):
    r = np.random.default_rng(n)
    g = icg(n, r)
    log = []
    spy = SpyGame(g, log)

    def protocol(spy=spy, g=g, log=log, n=n):
        gen = compute_shapley_value(spy)
        seen = [len(log)]
        first = next(gen)
        seen.append(len(log))
        g.set_value(100.0, Coalition(2**n - 1))  # a change between two values is seen by the later ones only
        sent = gen.send("ignored")
        closed = gen.close()
        after = attempt(lambda: next(gen))
        return first, sent, closed, after, seen, log
    rec(("protocol", n), protocol)

    def thrown(g=g):
        gen = compute_shapley_value(g)
        next(gen)
        return attempt(lambda: gen.throw(KeyError("stop")))
    rec(("throw", n), thrown)

    def growing(n=n):
        # the number of players is read again when the player loop starts
        class Growing(ObjectGame):
            reads = 0

            @property
            def number_of_players(self):
                type(self).reads += 1
                return n

            @number_of_players.setter
            def number_of_players(self, value):
                pass
        game = Growing(n, [float(len(Coalition(c))) for c in range(2**n)])
        return list(compute_shapley_value(game)), Growing.reads, compute_shapley_value_for_player(0, game), Growing.reads
    rec(("reads", n), growing)

import incomplete_cooperative.shapley as S
rec("public-names", lambda: sorted(k for k in vars(S) if not k.startswith("__") and k in (
    "compute_shapley_value", "compute_shapley_value_for_player", "_get_contributions", "Coalition", "all_coalitions",
    "exclude_coalition", "player_to_coalition", "Game", "Player", "Value", "factorial", "starmap", "np")))
for n in range(0, 12):
    rec(("contributions", n), lambda: S._get_contributions(n))
rec("cases", lambda: count)

with open(sys.argv[1], "wb") as fh:
    pickle.dump({"file": incomplete_cooperative.__file__, "outcomes": OUT}, fh, protocol=4)
'''


def start_side(name, pythonpath, workdir):
    driver = os.path.join(workdir, f"driver_{name}.py")
    out = os.path.join(workdir, f"out_{name}.pkl")
    with open(driver, "w") as fh:
        fh.write(DRIVER)
    env = dict(os.environ, PYTHONPATH=pythonpath, PYTHONHASHSEED="0", OMP_NUM_THREADS="1", PYTHONDONTWRITEBYTECODE="1")
    return subprocess.Popen([PYTHON, driver, out], env=env, cwd=workdir), out


def finish_side(started):
    process, out = started
    if process.wait() != 0:
        raise SystemExit(f"driver failed with status {process.returncode}")
    with open(out, "rb") as fh:
        return pickle.loads(fh.read())


def main():
    with tempfile.TemporaryDirectory(prefix="x06_equiv2_") as tmp:
        orig = os.path.join(tmp, "orig")
        os.mkdir(orig)
        archive = subprocess.run(["git", "archive", "HEAD", "incomplete_cooperative"], cwd=GIT_TREE, check=True,
                                 stdout=subprocess.PIPE).stdout
        subprocess.run(["tar", "-x", "-C", orig], input=archive, check=True)
        side_a = start_side("orig", orig, tmp)  # two separate interpreters, side by side
        side_b = start_side("new", WORKTREE, tmp)
        a, b = finish_side(side_a), finish_side(side_b)
        assert a["file"].startswith(orig), a["file"]
        assert b["file"].startswith(WORKTREE), b["file"]
        oa, ob = a["outcomes"], b["outcomes"]
        same = pickle.dumps(oa, protocol=4) == pickle.dumps(ob, protocol=4)
        raised = sum(1 for _, o in oa if o[0] == "raised")
        print(f"patch 2: {len(oa)} outcomes in the original ({raised} of them exceptions), {len(ob)} in the refactored tree")
        if not same:
            shown = 0
            for (la, xa), (lb, xb) in zip(oa, ob):
                if la != lb or xa != xb:
                    print("DIFF", la, lb, str(xa)[:300], str(xb)[:300])
                    shown += 1
                    if shown > 20:
                        break
            print("NOT EQUIVALENT")
            return 1
        print("identical")
        return 0


if __name__ == "__main__":
    sys.exit(main())
