"""Differential test for refactoring 3 (coalition_ids.py: np.compress + named intermediates; functoolz.py: map/repeat
spelling of the powerset).

Run with cwd=/tmp/wt12/W01.  Loads the ORIGINAL sources from git (HEAD) into a temporary package `ic_orig` and the
working-tree sources into `ic_new`, runs both on the same inputs and compares the results exactly (values, dtypes, order,
exceptions, laziness), and finally runs all bound computers end to end on random games.
"""
import importlib
import os
import shutil
import subprocess
import sys
import tempfile
import warnings

import numpy as np

warnings.simplefilter("ignore")

WT = os.getcwd()
PKG = "incomplete_cooperative"
MODULES = ["__init__", "protocols", "functoolz", "coalitions", "coalition_ids", "game", "bounds", "game_properties"]


def _load(name, original):
    root = tempfile.mkdtemp(prefix=f"{name}_")
    os.makedirs(os.path.join(root, name))
    for mod in MODULES:
        rel = f"{PKG}/{mod}.py"
        if original:
            src = subprocess.run(["git", "-C", WT, "show", f"HEAD:{rel}"], check=True, capture_output=True).stdout
        else:
            with open(os.path.join(WT, rel), "rb") as f:
                src = f.read()
        with open(os.path.join(root, name, f"{mod}.py"), "wb") as f:
            f.write(src)
    sys.path.insert(0, root)
    importlib.invalidate_caches()
    mods = {m: importlib.import_module(f"{name}.{m}") for m in MODULES if m != "__init__"}
    return root, mods


class Different(Exception):
    pass


def same(a, b):
    """Exact, type-aware equality."""
    if isinstance(a, np.ndarray) or isinstance(b, np.ndarray):
        return (isinstance(a, np.ndarray) and isinstance(b, np.ndarray) and a.dtype == b.dtype
                and a.shape == b.shape and np.array_equal(a, b, equal_nan=a.dtype.kind in "fc")
                and a.flags["WRITEABLE"] == b.flags["WRITEABLE"] and a.flags["C_CONTIGUOUS"] == b.flags["C_CONTIGUOUS"])
    if isinstance(a, (tuple, list)) or isinstance(b, (tuple, list)):
        return (isinstance(a, (tuple, list)) and isinstance(b, (tuple, list)) and isinstance(a, tuple) == isinstance(b, tuple)
                and len(a) == len(b) and all(same(x, y) for x, y in zip(a, b)))
    if type(a).__name__ != type(b).__name__:
        return False
    if isinstance(a, (float, np.floating)):
        return bool((np.isnan(a) and np.isnan(b)) or a == b)
    return a == b


def call(f, *args, **kwargs):
    try:
        return ("ok", f(*args, **kwargs))
    except BaseException as e:  # noqa
        return ("exc", type(e).__name__, str(e))


def check(label, a, b):
    if not same(a, b):
        raise Different(f"{label}\n  original: {a!r}\n  refactored: {b!r}")


def popcount(x):
    return bin(x).count("1")


def random_game_values(rng, n, kind):
    v = np.zeros(2**n)
    if kind == "arbitrary":
        v[1:] = rng.normal(size=2**n - 1) * 10
        return v
    for S in sorted(range(1, 2**n), key=popcount):
        best = 0.0
        A = (S - 1) & S
        while A:
            best = max(best, v[A] + v[S ^ A])
            A = (A - 1) & S
        v[S] = best + (float(rng.integers(0, 4)) if kind == "int" else float(rng.random()) * (rng.random() < 0.7))
    return v


def make_plan(rng, n, kind):
    v = random_game_values(rng, n, kind)
    known = set([0, 2**n - 1] + [2**i for i in range(n)])
    mode = rng.choice(["minimal", "minimal", "minimal", "no_grand", "no_singleton", "nothing"])
    if mode == "no_grand":
        known.discard(2**n - 1)
    elif mode == "no_singleton" and n > 1:
        known.discard(2**int(rng.integers(n)))
    elif mode == "nothing":
        known = {0}
    for c in range(2**n):
        if rng.random() < rng.choice([0.0, 0.2, 0.6]):
            known.add(c)
    ops = [("init", sorted(known))]
    for _ in range(int(rng.integers(1, 7))):
        ops.append((rng.choice(["compute", "reveal", "unreveal", "reset", "compute"]), int(rng.integers(2**n)),
                    float(rng.random())))
    ops.append(("compute", 0, 0.0))
    return v, ops


def run_plan(mods, computer_name, n, v, ops):
    Coalition = mods["coalitions"].Coalition
    game = mods["game"].IncompleteCooperativeGame(n, mods["bounds"].BOUNDS[computer_name])
    out = []
    for op in ops:
        if op[0] == "init":
            game.set_known_values(v[op[1]], [Coalition(c) for c in op[1]])
            res = ("ok", None)
        elif op[0] == "compute":
            res = call(game.compute_bounds)
        elif op[0] == "reveal":
            res = call(game.reveal_value, v[op[1]], Coalition(op[1]))
        elif op[0] == "unreveal":
            res = call(game.unreveal_value, Coalition(op[1]))
        elif op[0] == "reset":
            keep = [c for c in range(2**n) if game.is_value_known(Coalition(c)) and (popcount(c) in (0, 1, n) or
                                                                                      (c * 0.37 + op[2]) % 1 < 0.5)]
            res = call(game.set_known_values, v[keep], (Coalition(c) for c in keep))
        out.append((op[0], res, game._values.copy()))
    return out


def drain(it, mutate=None, after=2):
    """Consume an iterator into a list; optionally call `mutate` after `after` items (laziness probe)."""
    out = []
    for i, x in enumerate(it):
        if mutate is not None and i == after:
            mutate()
        out.append(x)
    return out


def main():
    root_o, orig = _load("ic_orig", True)
    root_n, new = _load("ic_new", False)
    cases = 0
    try:
        cio, cin = orig["coalition_ids"], new["coalition_ids"]
        # 1. coalition id helpers: every coalition of every game up to 8 players, several scalar types
        scalar_types = [int, np.int32, np.int64, lambda c: np.array([c], dtype=np.int32)]
        for n in range(0, 9):
            for c in range(2**n):
                for ti, t in enumerate(scalar_types if n <= 5 else scalar_types[:2]):
                    for fname in ("players", "get_size", "sub_coalitions", "super_coalitions"):
                        ro = call(getattr(cio, fname), t(c), n)
                        rn = call(getattr(cin, fname), t(c), n)
                        check(f"{fname}({c!r} as type#{ti}, {n})", ro, rn)
                        cases += 1
            check(f"get_all_coalitions({n})", call(cio.get_all_coalitions, n), call(cin.get_all_coalitions, n))
        # out-of-range / odd inputs: identical exceptions
        for n, c in [(2, 4), (2, 5), (3, 8), (0, 1), (3, -1), (3, -8), (2, np.int32(7)), (3, 2.0), (3, "a"), (-1, 0),
                     (3, None), (3, np.array([1, 2])), (2.0, 1), (3, True)]:
            for fname in ("players", "get_size", "sub_coalitions", "super_coalitions"):
                ro = call(getattr(cio, fname), c, n)
                rn = call(getattr(cin, fname), c, n)
                check(f"{fname}({c!r}, {n!r}) [odd input]", ro, rn)
                cases += 1

        # 2. powerset: values, order, element types, type of the returned object, laziness, errors
        po, pn = orig["functoolz"].powerset, new["functoolz"].powerset
        inputs = [list(range(k)) for k in range(0, 10)] + [tuple(range(4)), "abcd", range(5), [3, 3, 1], [[1], [2]],
                                                           [None, 0.5, "x"], np.arange(4), {1: 2, 3: 4}, {5, 6, 7}]
        for inp in inputs:
            ro, rn = po(inp), pn(inp)
            check(f"powerset type {inp!r}", type(ro).__name__, type(rn).__name__)
            check(f"powerset({inp!r})", drain(ro), drain(rn))
            cases += 1
        for bad in [(x for x in range(3)), 5, None, iter([1, 2])]:
            check(f"powerset bad {type(bad).__name__}", call(po, bad), call(pn, bad))
            cases += 1
        for k in range(1, 7):
            for after in range(0, 2**k, 3):
                lo, ln = list(range(k)), list(range(k))
                ro = drain(po(lo), mutate=lambda: lo.append(99), after=after)
                rn = drain(pn(ln), mutate=lambda: ln.append(99), after=after)
                check(f"powerset laziness k={k} after={after}", ro, rn)
                lo, ln = list(range(k)), list(range(k))
                ro = drain(po(lo), mutate=lambda: lo.clear(), after=after)
                rn = drain(pn(ln), mutate=lambda: ln.clear(), after=after)
                check(f"powerset laziness(clear) k={k} after={after}", ro, rn)
                cases += 2

        # 3. Coalition-level users of powerset
        Co, Cn = orig["coalitions"], new["coalitions"]
        for n in range(0, 8):
            for c in range(2**n):
                so = [x.id for x in Co.get_sub_coalitions(Co.Coalition(c))]
                sn = [x.id for x in Cn.get_sub_coalitions(Cn.Coalition(c))]
                check(f"get_sub_coalitions({c})", so, sn)
                so = [x.id for x in Co.get_super_coalitions(Co.Coalition(c), n)]
                sn = [x.id for x in Cn.get_super_coalitions(Cn.Coalition(c), n)]
                check(f"get_super_coalitions({c}, {n})", so, sn)
                cases += 2

        # 4. the cached coalition structure built from the id helpers
        for n in range(0, 8):
            check(f"structure n={n}", tuple(orig["bounds"]._get_sub_super_coalition_structure(n)),
                  tuple(new["bounds"]._get_sub_super_coalition_structure(n)))
            cases += 1

        # 5. game properties that use sub_coalitions
        for seed in range(150):
            rng = np.random.default_rng([seed, 5])
            n = int(rng.integers(1, 6))
            v = random_game_values(rng, n, ["int", "float", "arbitrary"][seed % 3])
            if seed % 5 == 0:
                v = -v
            res = []
            for mods in (orig, new):
                g = mods["game"].IncompleteCooperativeGame(n)
                g.set_values(v)
                gp = mods["game_properties"]
                res.append((call(gp.is_superadditive, g), call(gp.is_monotone_decreasing, g), call(gp.is_sam, g)))
            check(f"game_properties seed={seed}", res[0], res[1])
            cases += 1

        # 6. all bound computers end to end
        budget = {"superadditive": 200, "superadditive_cached": 200, "sam_apx_1": 80, "sam_apx_10": 40, "sam_apx_100": 12,
                  "sam_apx_1000": 4}
        for name in orig["bounds"].BOUNDS:
            for seed in range(budget[name]):
                rng = np.random.default_rng([seed, len(name), 3])
                max_n = 4 if name in ("sam_apx_100", "sam_apx_1000") else 5
                n = int(rng.integers(1, max_n + 1))
                kind = ["int", "float", "arbitrary"][seed % 3]
                v, ops = make_plan(rng, n, kind)
                check(f"computer={name} seed={seed} n={n} kind={kind} ops={ops}", run_plan(orig, name, n, v, ops),
                      run_plan(new, name, n, v, ops))
                cases += 1
    except Different as e:
        print("DIFFERENT")
        print(e)
        return 1
    finally:
        shutil.rmtree(root_o, ignore_errors=True)
        shutil.rmtree(root_n, ignore_errors=True)
    print(f"EQUIVALENT ({cases} cases)")
    return 0


if __name__ == "__main__":
    sys.exit(main())
