#!/usr/bin/env python
"""Differential equivalence check for patch_3 (incomplete_cooperative/game.py).

The ORIGINAL package is taken from git (`git archive HEAD incomplete_cooperative`) into a temporary directory,
the REFACTORED package is the worktree as it is now (patch applied) -- or, with `--patch FILE`, a second
`git archive` copy to which FILE is applied.  The same worker runs in two separate interpreters (one per tree),
pickles everything it observed, and the two pickles have to be byte-equal.

    /venv/bin/python equiv_3.py [--worktree /tmp/wt_x4_X05] [--patch /tmp/twin_out/X05/patch_3.diff]

Exit status 0 iff everything is identical.
"""
import argparse
import os
import pickle
import subprocess
import sys
import tempfile

WORKTREE_DEFAULT = "/tmp/wt_x4_X05"

WORKER = r'''
import os
import pickle
import sys
import warnings

import numpy as np

warnings.simplefilter("ignore")

import incomplete_cooperative
import incomplete_cooperative.generators as _generators_module
from incomplete_cooperative import game as G
from incomplete_cooperative.bounds import BOUNDS
from incomplete_cooperative.coalitions import (Coalition, all_coalitions, get_known_coalitions, grand_coalition,
                                               minimal_game_coalitions)
from incomplete_cooperative.exploitability import compute_exploitability
from incomplete_cooperative.game import IncompleteCooperativeGame
from incomplete_cooperative.generators import GENERATORS
from incomplete_cooperative.graph_game import GraphCooperativeGame
from incomplete_cooperative.icg_gym import ICG_Gym
from incomplete_cooperative.normalize import denormalize_game, normalize_game
from incomplete_cooperative.protocols import (BoundableIncompleteGame, Game, IncompleteGame)
from incomplete_cooperative.shapley import compute_shapley_value

# some registered generators draw from an unseeded module level generator: make it deterministic
_generators_module._gen.bit_generator.state = np.random.default_rng(20240229).bit_generator.state

RECORDS = []


def enc(obj):
    """Turn an observation into plain, deterministically picklable data (bit exact for floats and arrays)."""
    if isinstance(obj, np.ndarray):
        if obj.dtype == object:
            return ("ndobj", obj.shape, [enc(x) for x in obj.ravel().tolist()])
        return ("nd", obj.dtype.str, obj.shape, np.ascontiguousarray(obj).tobytes())
    if isinstance(obj, np.generic):
        return ("np", type(obj).__name__, obj.dtype.str, obj.tobytes())
    if isinstance(obj, bool) or obj is None or isinstance(obj, (str, bytes)) or type(obj) is int:
        return (type(obj).__name__, obj)
    if isinstance(obj, int):
        return ("intlike", int(obj))  # the private column codes may be spelled as an int subclass
    if isinstance(obj, float):
        return ("float", obj.hex())
    if isinstance(obj, Coalition):
        return ("Coalition", enc(obj.id))
    if isinstance(obj, BaseException):
        return ("exc", type(obj).__name__, str(obj))
    if isinstance(obj, (tuple, list)):
        return (type(obj).__name__, [enc(x) for x in obj])
    if isinstance(obj, dict):
        return ("dict", [(enc(k), enc(v)) for k, v in obj.items()])
    if isinstance(obj, IncompleteCooperativeGame):
        return ("ICG", obj.number_of_players, enc(obj._values), sorted(vars(obj)),
                getattr(obj._bounds_computer, "__name__", "?"), pickle.dumps(obj, protocol=4))
    if isinstance(obj, GraphCooperativeGame):
        return ("GCG", obj.number_of_players, enc(obj._graph_matrix))
    return ("obj", type(obj).__module__, type(obj).__qualname__)


def record(label, fn, *state):
    """Call `fn`, store its result (or exception) and the state of the objects it may have touched."""
    try:
        out = ("ok", enc(fn()))
    except BaseException as e:  # noqa
        out = ("raised", enc(e))
    RECORDS.append((label, out, [enc(s) for s in state]))


def dummy_bounds(game):
    game.set_upper_bounds(np.ones(2**game.number_of_players))
    game.set_lower_bounds(np.zeros(2**game.number_of_players))


def coalition_args(n, rng):
    """Ways of naming coalitions: all, lists, generators, empty, duplicates, out of range, not coalitions."""
    size = 2**n
    some = [Coalition(int(i)) for i in rng.choice(size, size=min(size, 3), replace=False)]
    dupl = [Coalition(int(i)) for i in rng.integers(0, size, 4)]
    return {
        "none": lambda: None,
        "some": lambda: list(some),
        "tuple": lambda: tuple(some),
        "gen": lambda: (c for c in some),
        "dupl": lambda: list(dupl),
        "all": lambda: list(all_coalitions(n)),
        "empty": lambda: [],
        "outside": lambda: [Coalition(size)],
        "negative": lambda: [Coalition(-1)],
        "ints": lambda: [0, 1],
        "one": lambda: Coalition(0),
    }


def observe(label, game, rng):
    """Every read access of the class."""
    n = game.number_of_players
    for name, make in coalition_args(n, rng).items():
        for method in ("get_values", "get_upper_bounds", "get_lower_bounds", "get_intervals", "are_values_known",
                       "get_known_values"):
            record(f"{label}/{method}/{name}", lambda: getattr(game, method)(make()))
        record(f"{label}/_get_coalition_map/{name}", lambda: game._get_coalition_map(make()))
        record(f"{label}/_get_coalition_map3/{name}", lambda: game._get_coalition_map(make(), 3))
        record(f"{label}/_filter_out_coalitions/{name}",
               lambda: game._filter_out_coalitions(np.arange(2.0**n), make()))
    for c in [Coalition(int(i)) for i in rng.integers(0, 2**n, 3)] + [Coalition(2**n), Coalition(-1), Coalition(-2**n),
                                                                        2, None]:
        cid = getattr(c, "id", c)
        for method in ("get_value", "get_upper_bound", "get_lower_bound", "get_interval", "is_value_known",
                       "get_known_value"):
            record(f"{label}/{method}/{cid}", lambda: getattr(game, method)(c))
    record(f"{label}/full", lambda: game.full)
    record(f"{label}/known", lambda: list(get_known_coalitions(game)))
    record(f"{label}/isinstance", lambda: (isinstance(game, Game), isinstance(game, IncompleteGame)))


def value_args(n, rng, count):
    return {
        "float": rng.normal(size=count),
        "int": rng.integers(-4, 9, count),
        "list": list(map(float, rng.integers(0, 5, count))),
        "bool": rng.random(count) < 0.5,
        "short": rng.random(max(count - 1, 0)),
        "long": rng.random(count + 1),
        "nan": np.full(count, np.nan),
        "str": ["a"] * count,
        "two_d": rng.random((count, 2)),
    }


def mutate(label, game, rng):
    """Every write access of the class, each followed by a look at the whole state."""
    n = game.number_of_players
    size = 2**n
    ops = ["set_value", "unset_value", "set_values", "set_values_some", "set_known_values", "reveal", "unreveal",
           "set_upper_bounds", "set_lower_bounds", "set_upper_bounds_some", "set_lower_bounds_some", "set_upper_bound",
           "set_lower_bound", "compute_bounds", "interval_view", "bounds_view", "neg", "add", "eq", "copy", "reinit"]
    for step in range(40):
        op = ops[int(rng.integers(0, len(ops)))]
        c = Coalition(int(rng.integers(0, size + (rng.random() < 0.05))))
        some = [Coalition(int(i)) for i in rng.choice(size, size=int(rng.integers(0, min(size, 4) + 1)), replace=False)]
        lab = f"{label}/{step}/{op}"
        value = [rng.normal(), int(rng.integers(0, 9)), np.float64(rng.random()), np.inf, True][int(rng.integers(0, 5))]
        if op == "set_value":
            record(lab, lambda: game.set_value(value, c), game)
        elif op == "unset_value":
            record(lab, lambda: game.unset_value(c), game)
        elif op == "set_values":
            kind = list(value_args(n, rng, size))[int(rng.integers(0, 9))]
            record(f"{lab}/{kind}", lambda: game.set_values(value_args(n, rng, size)[kind]), game)
        elif op == "set_values_some":
            kind = list(value_args(n, rng, len(some)))[int(rng.integers(0, 9))]
            form = int(rng.integers(0, 2))
            record(f"{lab}/{kind}/{form}",
                   lambda: game.set_values(value_args(n, rng, len(some))[kind], some if form else iter(some)), game)
        elif op == "set_known_values":
            kind = ["float", "int", "list", "short", "long", "own_view", "own_gen"][int(rng.integers(0, 7))]
            if kind == "own_view":
                record(f"{lab}/{kind}", lambda: game.set_known_values(game.get_upper_bounds(some), some), game)
            elif kind == "own_gen":
                record(f"{lab}/{kind}", lambda: game.set_known_values((game.get_upper_bound(x) for x in some),
                                                                       (x for x in some)), game)
            else:
                record(f"{lab}/{kind}", lambda: game.set_known_values(value_args(n, rng, len(some))[kind], some), game)
        elif op == "reveal":
            record(lab, lambda: game.reveal_value(value, c), game)
        elif op == "unreveal":
            record(lab, lambda: game.unreveal_value(c), game)
        elif op in ("set_upper_bounds", "set_lower_bounds"):
            kind = list(value_args(n, rng, size))[int(rng.integers(0, 9))]
            record(f"{lab}/{kind}", lambda: getattr(game, op)(value_args(n, rng, size)[kind]), game)
        elif op in ("set_upper_bounds_some", "set_lower_bounds_some"):
            kind = list(value_args(n, rng, len(some)))[int(rng.integers(0, 9))]
            form = int(rng.integers(0, 2))
            record(f"{lab}/{kind}/{form}", lambda: getattr(game, op[:-5])(value_args(n, rng, len(some))[kind],
                                                                        some if form else iter(some)), game)
        elif op == "set_upper_bound":
            record(lab, lambda: game.set_upper_bound(value, c), game)
        elif op == "set_lower_bound":
            record(lab, lambda: game.set_lower_bound(value, c), game)
        elif op == "compute_bounds":
            record(lab, lambda: game.compute_bounds(), game)
        elif op == "interval_view":
            def write_interval():
                interval = game.get_interval(c)
                interval += 1  # a view of the table
                return interval, game.get_intervals(), np.shares_memory(interval, game._values)
            record(lab, write_interval, game)
        elif op == "bounds_view":
            def write_bounds():
                upper, lower, picked = game.get_upper_bounds(), game.get_lower_bounds(), game.get_upper_bounds(some)
                upper *= 2
                lower -= 1
                picked += 100  # a copy
                return [np.shares_memory(x, game._values) for x in (upper, lower, picked)]
            record(lab, write_bounds, game)
        elif op == "neg":
            record(lab, lambda: -game, game)
        elif op == "add":
            other = game.copy()
            if rng.random() < 0.5:
                other.set_values(rng.normal(size=size))
            record(lab, lambda: game + other, game, other)
            record(lab + "/smaller", lambda: game + IncompleteCooperativeGame(max(n - 1, 0)), game)
            record(lab + "/notagame", lambda: game + 3, game)
        elif op == "eq":
            other = game.copy()
            record(lab + "/same", lambda: game == other)
            other.set_value(17, c) if c.id < size else None
            record(lab + "/changed", lambda: game == other)
            record(lab + "/ne", lambda: game != other)
            record(lab + "/other_size", lambda: game == IncompleteCooperativeGame(n + 1))
            record(lab + "/notagame", lambda: game == 3)
            record(lab + "/graph", lambda: game == GraphCooperativeGame(np.zeros((n, n))))
        elif op == "copy":
            def copy_is_independent():
                other = game.copy()
                other.set_value(99, Coalition(0))
                return other, other._bounds_computer is game._bounds_computer, np.shares_memory(other._values,
                                                                                                game._values)
            record(lab, copy_is_independent, game)
        elif op == "reinit":
            record(lab, lambda: game._init_values(), game)
        if step % 8 == 0:
            observe(f"{label}/{step}/observe", game, rng)
    record(f"{label}/pickle", lambda: pickle.loads(pickle.dumps(game)), game)


# ---------------------------------------------------------------- the class on its own
record("codes", lambda: [IncompleteCooperativeGame._values_is_known_index, IncompleteCooperativeGame._values_lower_index,
                         IncompleteCooperativeGame._values_upper_index])
record("codes/arith", lambda: [IncompleteCooperativeGame._values_lower_index + 1,
                               IncompleteCooperativeGame(2)._values_upper_index * 2,
                               list(range(IncompleteCooperativeGame._values_upper_index))])
record("names", lambda: [(k, hasattr(G, k)) for k in (
    "Any", "BoundableIncompleteGame", "Callable", "Coalition", "CoalitionPlayers", "Coalitions",
    "IncompleteCooperativeGame", "Iterable", "LOGGER", "Literal", "Value", "ValueIn", "Values", "annotations",
    "logging", "np", "_none_bounds")])
record("members", lambda: sorted(k for k in vars(IncompleteCooperativeGame) if not k.startswith("__")))
for bad in (-1, 2.0, "2", None, 2**5 + 0.5):
    record(f"construct/{bad!r}", lambda: IncompleteCooperativeGame(bad))
record("static", lambda: IncompleteCooperativeGame(2)._filter_out_coalitions(np.arange(4.0), [Coalition(3)]))

computers = {"none": None, "dummy": dummy_bounds, "superadditive": BOUNDS["superadditive"],
             "superadditive_cached": BOUNDS["superadditive_cached"]}
for n in range(0, 6):
    for cname, computer in computers.items():
        for seed in range(5 if n < 5 else 2):
            rng = np.random.default_rng(1000 * n + seed)
            game = IncompleteCooperativeGame(n) if computer is None else IncompleteCooperativeGame(n, computer)
            record(f"fresh/{n}/{cname}/{seed}", lambda: game, game)
            observe(f"fresh/{n}/{cname}/{seed}/observe", game, rng)
            mutate(f"ops/{n}/{cname}/{seed}", game, rng)

# ---------------------------------------------------------------- the users of the class
for name in sorted(GENERATORS):
    if name.startswith("convex"):
        continue  # needs pyfmtools, which is not installed
    for n in (3, 4):
        rng = np.random.default_rng(n)
        try:
            full = GENERATORS[name](n, rng)
        except BaseException as e:  # noqa
            RECORDS.append((f"gen/{name}/{n}", ("generator raised", enc(e)), []))
            continue
        record(f"gen/{name}/{n}/game", lambda: full, full)
        if not isinstance(full, IncompleteCooperativeGame):
            continue
        for bname in ("superadditive", "superadditive_cached"):
            game = IncompleteCooperativeGame(n, BOUNDS[bname])
            known = [c for c in all_coalitions(n) if rng.random() < 0.4] + list(minimal_game_coalitions(n))
            record(f"gen/{name}/{n}/{bname}/known", lambda: game.set_known_values(full.get_values(known), known), game)
            record(f"gen/{name}/{n}/{bname}/bounds", lambda: game.compute_bounds(), game)
            record(f"gen/{name}/{n}/{bname}/exploitability", lambda: compute_exploitability(game), game)
            for c in all_coalitions(n):
                if not game.is_value_known(c) and rng.random() < 0.5:
                    record(f"gen/{name}/{n}/{bname}/reveal{c.id}", lambda: game.reveal_value(full.get_value(c), c))
                    record(f"gen/{name}/{n}/{bname}/bounds{c.id}", lambda: game.compute_bounds(), game)
        copy = full.copy()
        info = []
        record(f"gen/{name}/{n}/normalize", lambda: info.append(normalize_game(copy)) or info[-1], copy)
        if info:
            record(f"gen/{name}/{n}/denormalize", lambda: denormalize_game(copy, info[-1]), copy)
        record(f"gen/{name}/{n}/shapley", lambda: list(compute_shapley_value(full)))
        record(f"gen/{name}/{n}/neg_add", lambda: (-full) + full)

for gname in ("factory", "graph", "xos", "k_budget_generator"):
    for n in (3, 4):
        for seed in range(3):
            rng = np.random.default_rng(seed + 17)

            def generator(rng=rng, n=n, gname=gname):
                return GENERATORS[gname](n, rng)
            incomplete = IncompleteCooperativeGame(n, BOUNDS["superadditive"])
            env = ICG_Gym(incomplete, generator, minimal_game_coalitions(n), compute_exploitability)
            record(f"gym/{gname}/{n}/{seed}/init", lambda: (env.state, env.reward, env.done, env.action_masks()),
                   incomplete, env.normalized_game)
            actions = np.random.default_rng(seed).permutation(len(env.explorable_coalitions))
            for a in actions[:6]:
                record(f"gym/{gname}/{n}/{seed}/step{a}", lambda: env.step(int(a)), incomplete)
            record(f"gym/{gname}/{n}/{seed}/again", lambda: env.step(int(actions[0])), incomplete)  # AssertionError
            record(f"gym/{gname}/{n}/{seed}/unstep", lambda: env.unstep(int(actions[0])), incomplete)
            record(f"gym/{gname}/{n}/{seed}/reset", lambda: env.reset(seed=seed)[0], incomplete, env.normalized_game)

with open(sys.argv[1], "wb") as f:
    pickle.dump({"where": os.path.dirname(os.path.abspath(incomplete_cooperative.__file__)), "records": RECORDS}, f,
                protocol=4)
'''


def _run(cmd, **kw):
    return subprocess.run(cmd, check=True, **kw)


def _archive(worktree, dest):
    os.makedirs(dest)
    tar = subprocess.run(["git", "-C", worktree, "archive", "HEAD", "incomplete_cooperative"],
                         check=True, stdout=subprocess.PIPE).stdout
    _run(["tar", "-x", "-C", dest], input=tar)


def _worker(root, worker, out, cwd):
    env = dict(os.environ, PYTHONPATH=root, PYTHONHASHSEED="0", OMP_NUM_THREADS="1", PYTHONDONTWRITEBYTECODE="1")
    _run([sys.executable, worker, out], env=env, cwd=cwd)
    with open(out, "rb") as f:
        raw = f.read()
    return pickle.loads(raw)


def main():
    ap = argparse.ArgumentParser()
    ap.add_argument("--worktree", default=WORKTREE_DEFAULT)
    ap.add_argument("--patch", default=None, help="apply this diff to a second copy instead of using the worktree")
    args = ap.parse_args()
    worktree = os.path.abspath(args.worktree)
    with tempfile.TemporaryDirectory(prefix="equiv3_") as tmp:
        base = os.path.join(tmp, "base")
        _archive(worktree, base)
        if args.patch:
            new = os.path.join(tmp, "new")
            _archive(worktree, new)
            _run(["git", "apply", os.path.abspath(args.patch)], cwd=new)
        else:
            new = worktree
        worker = os.path.join(tmp, "worker.py")
        with open(worker, "w") as f:
            f.write(WORKER)
        a = _worker(base, worker, os.path.join(tmp, "a.pkl"), tmp)
        b = _worker(new, worker, os.path.join(tmp, "b.pkl"), tmp)
        for res, root in ((a, base), (b, new)):
            expected = os.path.join(os.path.realpath(root), "incomplete_cooperative")
            if os.path.realpath(res["where"]) != expected:
                print(f"worker imported the package from {res['where']}, expected {expected}")
                return 2
        same_sources = subprocess.run(["diff", "-rq", "-x", "__pycache__", os.path.join(base, "incomplete_cooperative"),
                                       os.path.join(new, "incomplete_cooperative")],
                                      stdout=subprocess.PIPE).returncode == 0
        if same_sources:
            print("WARNING: the two trees have identical sources (is the patch applied?)")
        ra, rb = a["records"], b["records"]
        bad = 0
        if len(ra) != len(rb):
            print(f"different number of records: {len(ra)} vs {len(rb)}")
            bad += 1
        for x, y in zip(ra, rb):
            if pickle.dumps(x, protocol=4) != pickle.dumps(y, protocol=4):
                bad += 1
                if bad <= 5:
                    print("DIFFERENCE at", x[0], "\n  original:  ", repr(x)[:300], "\n  refactored:", repr(y)[:300])
        if pickle.dumps(ra, protocol=4) != pickle.dumps(rb, protocol=4) and not bad:
            bad += 1
        raised = sum(1 for r in ra if r[1][0] == "raised")
        print(f"{len(ra)} records compared ({raised} of them exceptions), {bad} differences")
        return 1 if bad else 0


if __name__ == "__main__":
    sys.exit(main())
