"""Differential test for refactoring 3 (run/greedy.py: mean per candidate named once, ndarray-method / flatnonzero spellings).

Run with cwd=/tmp/wt9/T07.  The ORIGINAL package is taken from `git archive HEAD incomplete_cooperative` into a temporary
directory; the refactored one is the worktree.  Each is imported in its own worker process (so that both are really called
`incomplete_cooperative`, absolute imports included), runs the same cases and pickles the results; the parent compares them
exactly.
"""
import os
import pickle
import re
import subprocess
import sys
import tempfile
from pathlib import Path

WORKTREE = Path("/tmp/wt9/T07")


# ----------------------------------------------------------------------------------------------------------------- worker
def _norm(obj):
    """Turn a result into something picklable and exactly comparable."""
    import numpy as np
    if isinstance(obj, np.ndarray):
        return ("nd", str(obj.dtype), obj.shape, obj.tobytes() if obj.dtype != object else repr(obj.tolist()))
    if isinstance(obj, np.generic):
        return ("np", type(obj).__name__, repr(obj.item()))
    if isinstance(obj, (list, tuple)):
        return (type(obj).__name__, [_norm(x) for x in obj])
    if isinstance(obj, dict):
        return ("dict", [(_norm(k), _norm(v)) for k, v in obj.items()])
    if isinstance(obj, float):
        return ("float", obj.hex() if obj == obj else "nan")
    if isinstance(obj, (int, str, bool, type(None))):
        return (type(obj).__name__, obj)
    if type(obj).__name__ == "Coalition":
        return ("Coalition", obj.id)
    return ("repr", repr(obj))


def _game_state(game):
    return [game._values.copy() if hasattr(game, "_values") else None,
            game.get_lower_bounds().copy(), game.get_upper_bounds().copy(), game.are_values_known().copy()]


def _rng_state(rng):
    return repr(rng.bit_generator.state)


class _LogCatcher:
    def __init__(self):
        import logging
        self.records = []
        outer = self

        class H(logging.Handler):
            def emit(self, record):
                msg = record.getMessage()
                msg = re.sub(r"0x[0-9a-fA-F]+", "ADDR", msg)
                msg = re.sub(r"[0-9.e+-]+", "#", msg)
                outer.records.append((record.name, record.levelname, msg))
        self.handler = H()
        lg = logging.getLogger("incomplete_cooperative.gameplay")
        lg.addHandler(self.handler)
        lg.setLevel(logging.INFO)
        lg.propagate = False

    def take(self):
        out, self.records = self.records, []
        return out


def run_cases(root):
    import random
    import warnings
    from argparse import Namespace
    from types import SimpleNamespace
    from unittest.mock import patch

    import numpy as np

    import incomplete_cooperative
    assert Path(incomplete_cooperative.__file__).resolve().is_relative_to(Path(root).resolve()), incomplete_cooperative.__file__
    from incomplete_cooperative import generators
    from incomplete_cooperative.coalitions import Coalition
    from incomplete_cooperative.generators import GENERATORS
    from incomplete_cooperative.run import greedy as run_greedy
    from incomplete_cooperative.run.model import GAP_FUNCTIONS, ModelInstance

    logs = _LogCatcher()
    results = {}

    def reseed_module_gen(seed):
        generators._gen.bit_generator.state = np.random.default_rng(seed).bit_generator.state
        generators._LAST_OWNER = 0

    def record(key, fn):
        try:
            with warnings.catch_warnings():
                warnings.simplefilter("ignore")
                val = ("ok", _norm(fn()))
        except BaseException as e:  # noqa
            val = ("exc", type(e).__name__, re.sub(r"0x[0-9a-fA-F]+", "ADDR", str(e)))
        results[key] = (val, logs.take())

    gen_names = list(GENERATORS)
    gap_names = list(GAP_FUNCTIONS)
    bound_names = ["superadditive", "superadditive_cached", "sam_apx_1"]

    # A: expected-greedy search on real environments, all generators, deterministic and randomised tie-breaking
    for gi, name in enumerate(gen_names):
        for seed in range(2):
            for randomized in (False, True):
                n = 3 if (gi + seed + randomized) % 3 == 0 else 4

                def run_a(name=name, seed=seed, randomized=randomized, n=n, gi=gi):
                    reseed_module_gen(100 + seed)
                    instance = ModelInstance(number_of_players=n, game_generator=name, seed=seed + 7 * gi,
                                             gap_function=gap_names[(gi + seed) % len(gap_names)],
                                             game_class=bound_names[(gi + seed) % len(bound_names)], run_steps_limit=3)
                    env = instance.get_env()
                    rng = random.Random(seed + gi) if randomized else None
                    max_steps = [2, 3, 1, 0, 20][(gi + seed) % 5] if n == 3 else [2, 1, 3, 0][(gi + seed) % 4]
                    reps = 1 + (gi + 2 * seed) % 4
                    args = [env, max_steps, reps, instance.gap_function_callable]
                    if randomized or gi % 2:
                        args += [1 + gi % 2, rng]
                    out = run_greedy.get_greedy_rewards(*args)
                    return [out[0], out[1], _game_state(env.incomplete_game), _rng_state(instance.game_generator_rng),
                            _rng_state(env.generator.args[1]), env.steps_taken, rng.getstate() if rng else None]
                record(("A", name, seed, randomized), run_a)

    # B: the two commands (greedy / greedy_randomized), output captured from the saver
    for gi, name in enumerate(gen_names):
        for randomized in (False, True):
            def run_b(name=name, randomized=randomized, gi=gi):
                reseed_module_gen(300)
                args = Namespace(number_of_players=3 + (gi + randomized) % 2, game_generator=name, seed=gi % 4,
                                 run_steps_limit=[2, 3][gi % 2], sampling_repetitions=1 + gi % 3,
                                 parallel_environments=1 + gi % 2, gap_function=gap_names[gi % len(gap_names)],
                                 func="foobar", model_dir=Path(tempfile.gettempdir()) / "unused", unique_name="x")
                instance = ModelInstance.from_parsed_arguments(args)
                captured = []
                with patch("incomplete_cooperative.run.save.SAVERS",
                           {"saver": lambda path, unique_name, output: captured.append(output)}):
                    with tempfile.TemporaryDirectory() as d:
                        instance.model_dir = Path(d)
                        run_greedy.greedy_func(instance, args, randomize=randomized)
                output, = captured
                return [output.data, output.actions, _rng_state(instance.game_generator_rng)]
            record(("B", name, randomized), run_b)

    # C: the selection alone: crafted gap tables (exact ties, ties within EPSILON, NaN, inf, float32) through the public
    #    function, with the two gameplay functions replaced by table look-ups
    rnd = random.Random(777)
    pool = [0.0, 0.5, 0.25, 0.1 + 0.2, 0.3, 0.3 + 4e-7, 0.3 - 4e-7, 0.3 + 1e-6, 0.3 + 2e-6, 1.0, np.nan, np.inf,
            -np.inf, 1e308, -1.0]
    for case in range(700):
        m = rnd.randrange(0, 7)          # explorable coalitions
        reps = rnd.randrange(0 if case % 25 == 0 else 1, 5)
        max_steps = rnd.randrange(0, 9)
        coalitions = [Coalition(i) for i in rnd.sample(range(3, 40), m)]
        mode = case % 4
        table_seed = rnd.randrange(10**9)
        dtype = np.float32 if case % 11 == 0 else np.float64

        def run_c(m=m, reps=reps, max_steps=max_steps, coalitions=coalitions, mode=mode, table_seed=table_seed,
                  dtype=dtype, case=case):
            def gaps(full_games, action_sequence):
                key = tuple(sorted(c.id for c in action_sequence))
                r = random.Random(hash((table_seed, key)) if mode != 3 else hash((table_seed, len(key))))
                if mode == 0:
                    vals = [r.choice(pool) for _ in full_games]
                elif mode == 1:
                    vals = [r.randrange(0, 3) / 4 for _ in full_games]
                elif mode == 2:
                    vals = [0.3 + r.randrange(-3, 4) * 4e-7 for _ in full_games]
                else:
                    vals = [1.0 / (1 + len(key))] * len(full_games)
                return vals
            calls = []

            def fake_single(game, full_games, action_sequence, gap_func, processes=1):
                calls.append(("single", [c.id for c in action_sequence], processes))
                return iter(gaps(full_games, action_sequence))

            def fake_stacked(game, full_games, action_sequences, gap_func, processes=1):
                calls.append(("stacked", [[c.id for c in s] for s in action_sequences], processes))
                for s in action_sequences:
                    yield np.array(gaps(full_games, s), dtype=dtype)
            made = []
            env = SimpleNamespace(incomplete_game="GAME", generator=lambda: made.append(1) or len(made),
                                  get_wrapper_attr=lambda attr: {"explorable_coalitions": list(coalitions)}[attr])
            out = []
            for rng in (None, random.Random(case), random.Random(case + 1)):
                calls.clear()
                made.clear()

                def go():
                    with patch.object(run_greedy, "get_exploitabilities_of_action_sequence", fake_single), \
                            patch.object(run_greedy, "get_stacked_exploitabilities_of_action_sequences", fake_stacked):
                        res = run_greedy.get_greedy_rewards(env, max_steps, reps, "GAP", 2, rng)
                    return ["ok", res[0], res[1]]
                try:
                    res = go()
                except BaseException as e:  # noqa
                    res = ["exc", type(e).__name__, str(e)]
                # set iteration order of coalitions is the same in both (hash = id), so the call log is comparable
                out.append([res, list(calls), len(made), rng.getstate() if rng else None])
            return out
        record(("C", case), run_c)
    return results


# ----------------------------------------------------------------------------------------------------------------- parent
def main():
    if len(sys.argv) == 4 and sys.argv[1] == "--worker":
        root, out = sys.argv[2], sys.argv[3]
        sys.path.insert(0, root)
        res = run_cases(root)
        with open(out, "wb") as f:
            pickle.dump(res, f)
        return 0

    assert Path.cwd().resolve() == WORKTREE.resolve(), "run with cwd=/tmp/wt9/T07"
    with tempfile.TemporaryDirectory(prefix="equiv_T07_") as tmp:
        orig = Path(tmp) / "orig"
        orig.mkdir()
        archive = subprocess.run(["git", "-C", str(WORKTREE), "archive", "HEAD", "incomplete_cooperative"],
                                 check=True, capture_output=True).stdout
        subprocess.run(["tar", "-x", "-C", str(orig)], input=archive, check=True)
        env = dict(os.environ, OMP_NUM_THREADS="1", MKL_NUM_THREADS="1", PYTHONDONTWRITEBYTECODE="1", MPLBACKEND="Agg")
        env.pop("PYTHONPATH", None)
        outs = {}
        procs = {}
        for label, root in (("original", orig), ("refactored", WORKTREE)):
            outs[label] = Path(tmp) / f"{label}.pkl"
            procs[label] = subprocess.Popen([sys.executable, __file__, "--worker", str(root), str(outs[label])],
                                            cwd=tmp, env=env)
        for label, p in procs.items():
            if p.wait() != 0:
                print(f"DIFFERENT: worker {label} crashed")
                return 1
        res = {label: pickle.loads(outs[label].read_bytes()) for label in outs}
    a, b = res["original"], res["refactored"]
    if list(a) != list(b):
        print("DIFFERENT: case lists differ")
        return 1
    n_exc = 0
    for key in a:
        if a[key] != b[key]:
            print("DIFFERENT", key)
            print(" original:  ", str(a[key])[:2000])
            print(" refactored:", str(b[key])[:2000])
            return 1
        n_exc += a[key][0][0] == "exc"
    print(f"{len(a)} cases compared ({n_exc} of them raise the same exception in both)")
    print("EQUIVALENT")
    return 0


if __name__ == "__main__":
    sys.exit(main())
