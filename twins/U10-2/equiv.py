"""Differential test for refactoring 2 (run/best_states.py: `best_states_func` and `get_best_exploitability`).

Run with cwd=/tmp/wt10/U10.  The ORIGINAL package is materialised from `git show HEAD:<path>` into a temporary
directory, the REFACTORED one is the worktree.  The same driver (this file with `--driver`) is run in a subprocess against
each of the two trees, from a fresh scratch directory (relative paths, so that messages of exceptions are comparable), and
the two pickled traces are compared exactly.
"""
from __future__ import annotations

import hashlib
import os
import pickle
import subprocess
import sys
import tempfile
from pathlib import Path

WORKTREE = Path("/tmp/wt10/U10")
PYTHON = "/venv/bin/python"


# --------------------------------------------------------------------------------------------------------------------
# driver: runs inside a subprocess, against whichever `incomplete_cooperative` is first on PYTHONPATH
# --------------------------------------------------------------------------------------------------------------------
def driver(out_file: str, expected_root: str) -> None:
    import itertools
    import json
    import shutil
    import warnings
    from argparse import Namespace
    from unittest.mock import patch

    import numpy as np

    import incomplete_cooperative
    assert Path(incomplete_cooperative.__file__).resolve().is_relative_to(Path(expected_root).resolve()), \
        incomplete_cooperative.__file__
    from incomplete_cooperative import gameplay, generators
    from incomplete_cooperative.bounds import BOUNDS
    from incomplete_cooperative.coalitions import Coalition
    from incomplete_cooperative.generators import GENERATORS
    from incomplete_cooperative.run import best_states as bs
    from incomplete_cooperative.run import save as save_mod
    from incomplete_cooperative.run.model import GAP_FUNCTIONS, ModelInstance
    from incomplete_cooperative.run.save import save_json

    warnings.simplefilter("ignore")
    trace: list = []
    case = 0

    class InProcessPool:
        """`multiprocessing.Pool` without processes: arguments are copied through pickle as a real pool does."""

        def __init__(self, processes=None):
            self.processes = processes

        def __enter__(self):
            return self

        def __exit__(self, *exc):
            return False

        def starmap(self, func, iterable):
            return [func(*pickle.loads(pickle.dumps(args))) for args in iterable]

    def reseed_module_generator(seed: int) -> None:
        generators._gen.bit_generator.state = np.random.default_rng(seed).bit_generator.state

    def run_case(label, real_pool: bool = False, **kwargs) -> None:
        seed = kwargs["seed"]
        reseed_module_generator(seed + 17)
        root = Path("case")
        captured: list = []

        def recording_saver(path, unique_name, output):
            captured.append((type(path).__name__, str(path), unique_name, output.data, output.actions,
                             str(output.data.dtype), str(output.actions.dtype)))

        args = Namespace(func=bs.best_states_func, model_dir=root, unique_name=f"run-{seed}", **kwargs)
        try:
            instance = ModelInstance.from_parsed_arguments(args)
            with patch.object(save_mod, "SAVERS", {"data.json": save_json, "rec": recording_saver}):
                if real_pool:
                    bs.best_states_func(instance, args)
                else:
                    with patch.object(gameplay, "Pool", InProcessPool):
                        bs.best_states_func(instance, args)
            result = ("ok", captured, (root / "data.json").read_bytes(),
                      repr(instance.game_generator_rng.bit_generator.state), repr(generators._gen.bit_generator.state),
                      instance.run_steps_limit)
        except BaseException as e:  # noqa
            result = ("exc", type(e).__name__, str(e), captured)
        trace.append((label, result))
        shutil.rmtree(root, ignore_errors=True)

    # ---- A: every generator of the registry, 3 and 4 players ---------------------------------------------------------
    bounds_names = list(BOUNDS.keys())
    gap_names = list(GAP_FUNCTIONS.keys())
    rng = np.random.default_rng(20240)
    for gen_name in GENERATORS:
        for players in (3, 4):
            for rep in range(2):
                limit = int(rng.integers(0, 4 if players == 3 else 3))
                game_class = bounds_names[int(rng.integers(0, 4))]  # superadditive(_cached), sam_apx_1, sam_apx_10
                run_case(("A", gen_name, players, rep),
                         number_of_players=players, game_generator=gen_name, game_class=game_class,
                         gap_function=gap_names[int(rng.integers(0, len(gap_names)))],
                         run_steps_limit=limit, sampling_repetitions=int(rng.integers(1, 4)),
                         eval_repetitions=int(rng.integers(1, 4)), parallel_environments=1,
                         seed=int(rng.integers(0, 2**31)))
                case += 1

    # ---- B: every bounds computer and gap function, a few seeds ------------------------------------------------------
    for game_class, gap, seed in itertools.product(bounds_names, gap_names, range(3)):
        run_case(("B", game_class, gap, seed), number_of_players=3 if "100" in game_class else 4,
                 game_generator=["factory", "noisy_factory", "xos"][seed], game_class=game_class, gap_function=gap,
                 run_steps_limit=2, sampling_repetitions=2, eval_repetitions=2, parallel_environments=1, seed=seed)
        case += 1

    # ---- C: degenerate arguments -----------------------------------------------------------------------------------------
    for i, extra in enumerate([dict(eval_repetitions=0), dict(sampling_repetitions=0), dict(run_steps_limit=0),
                               dict(run_steps_limit=7), dict(run_steps_limit=-1), dict(number_of_players=2),
                               dict(eval_repetitions=4, sampling_repetitions=1), dict(game_generator="nope")]):
        kwargs = dict(number_of_players=3, game_generator="noisy_factory", game_class="superadditive",
                      gap_function="exploitability", run_steps_limit=2, sampling_repetitions=2, eval_repetitions=2,
                      parallel_environments=1, seed=77 + i)
        kwargs.update(extra)
        run_case(("C", i), **kwargs)
        case += 1

    # ---- D: real process pools -------------------------------------------------------------------------------------------
    for seed in range(4):
        run_case(("D", seed), real_pool=True, number_of_players=3, game_generator=["factory", "noisy_factory", "graph", "xos"][seed],
                 game_class="superadditive", gap_function="exploitability", run_steps_limit=2, sampling_repetitions=2,
                 eval_repetitions=2, parallel_environments=2, seed=500 + seed)
        case += 1

    # ---- E: `get_best_exploitability` on hand-made samples (ties, NaN, infinities, unordered sizes) ---------------------
    class StubGame:
        number_of_players = 4

    class StubEnv:
        def __init__(self):
            self.incomplete_game = StubGame()
            self.generated = 0

        def generator(self):
            self.generated += 1
            return ("game", self.generated)

    for seed in range(400):
        r = np.random.default_rng(40000 + seed)
        max_steps = int(r.integers(0, 5))
        repetitions = int(r.integers(1, 5))
        n_seq = int(r.integers(0, 14))
        sizes = r.integers(0, max_steps + 1 + (1 if seed % 25 == 0 else 0), size=n_seq)
        if seed % 3 == 0:
            sizes = np.sort(sizes)
        sequences = [[Coalition(int(c)) for c in r.integers(0, 16, size=int(s))] for s in sizes]
        kind = seed % 5
        values = r.normal(size=(repetitions, n_seq))
        if kind == 1:
            values = np.round(values)  # ties between means
        elif kind == 2:
            values[r.random(values.shape) < 0.25] = np.nan
        elif kind == 3:
            values[r.random(values.shape) < 0.2] = np.inf
            values[r.random(values.shape) < 0.2] = -np.inf
        elif kind == 4:
            values = values.astype(np.float32) if seed % 2 else np.asfortranarray(values)
        env = StubEnv()
        seen: list = []

        def stub_sampler(game, full_game_generator, gap_func, samples=1, **kwargs):
            seen.append((game is env.incomplete_game, gap_func, samples, sorted(kwargs.items()),
                         [full_game_generator(game.number_of_players) for _ in range(samples)]))
            return sequences, values

        try:
            with patch.object(bs, "sample_exploitabilities_of_action_sequences", stub_sampler):
                best, acts = bs.get_best_exploitability(env, max_steps, repetitions, "gap", processes=int(r.integers(1, 3)))
            result = ("ok", best, str(best.dtype), acts, seen, env.generated)
        except BaseException as e:  # noqa
            result = ("exc", type(e).__name__, str(e), seen, env.generated)
        trace.append((("E", seed), result))
        case += 1

    # ---- F: `best_states_func` around a stubbed search: stacking over repetitions and the NaN padded action tensor -------
    for seed in range(200):
        r = np.random.default_rng(60000 + seed)
        limit = int(r.integers(0, 5))
        sampling = int(r.integers(1, 4))
        eval_reps = int(r.integers(0, 5))
        calls: list = []

        def stub_search(env, max_steps, repetitions, gap_func, processes=1):
            calls.append((type(env).__name__, max_steps, repetitions, getattr(gap_func, "__name__", None), processes))
            data = r.normal(size=(max_steps + 1, repetitions))
            data[r.random(data.shape) < 0.2] = np.nan
            # sizes that were never seen keep an empty list; a short list is possible too
            acts = [list(map(int, r.integers(0, 32, size=int(r.integers(0, i + 1))))) for i in range(max_steps + 1)]
            return data, acts

        captured = []
        args = Namespace(func=bs.best_states_func, model_dir=Path("caseF"), unique_name="u", number_of_players=4,
                         run_steps_limit=limit, sampling_repetitions=sampling, eval_repetitions=eval_reps, seed=seed,
                         parallel_environments=int(r.integers(1, 3)))
        try:
            instance = ModelInstance.from_parsed_arguments(args)
            with patch.object(bs, "get_best_exploitability", stub_search), \
                    patch.object(save_mod, "SAVERS", {"data.json": save_json,
                                                      "rec": lambda p, n, o: captured.append((str(p), n, o.data, o.actions))}):
                bs.best_states_func(instance, args)
            result = ("ok", captured, calls, (Path("caseF") / "data.json").read_bytes())
        except BaseException as e:  # noqa
            result = ("exc", type(e).__name__, str(e), calls)
        trace.append((("F", seed), result))
        shutil.rmtree("caseF", ignore_errors=True)
        case += 1

    n_ok = sum(1 for t in trace if t[1][0] == "ok")
    with open(out_file, "wb") as f:
        pickle.dump({"cases": case, "trace": trace, "ok": n_ok}, f)


# --------------------------------------------------------------------------------------------------------------------
# comparison
# --------------------------------------------------------------------------------------------------------------------
def same(a, b) -> bool:
    import numpy as np
    if type(a) is not type(b):
        return False
    if isinstance(a, np.ndarray):
        if a.dtype != b.dtype or a.shape != b.shape:
            return False
        if a.dtype.kind in "fc":
            return bool(np.array_equal(a, b, equal_nan=True)) and bool(np.array_equal(np.signbit(a), np.signbit(b)))
        return bool(np.array_equal(a, b))
    if isinstance(a, (list, tuple)):
        return len(a) == len(b) and all(same(x, y) for x, y in zip(a, b))
    if isinstance(a, dict):
        return list(a.keys()) == list(b.keys()) and all(same(a[k], b[k]) for k in a)
    if isinstance(a, float):
        return a == b or (a != a and b != b)
    return a == b


def materialise_original(dest: Path) -> None:
    names = subprocess.run(["git", "-C", str(WORKTREE), "ls-tree", "-r", "--name-only", "HEAD", "incomplete_cooperative"],
                           check=True, capture_output=True, text=True).stdout.split("\n")
    for name in filter(None, names):
        blob = subprocess.run(["git", "-C", str(WORKTREE), "show", f"HEAD:{name}"], check=True, capture_output=True).stdout
        target = dest / name
        target.parent.mkdir(parents=True, exist_ok=True)
        target.write_bytes(blob)


def run_driver(script: Path, package_root: Path, scratch: Path, out: Path) -> dict:
    scratch.mkdir()
    env = dict(os.environ, PYTHONPATH=str(package_root), OMP_NUM_THREADS="1", MKL_NUM_THREADS="1", MPLBACKEND="Agg",
               PYTHONDONTWRITEBYTECODE="1", PYTHONHASHSEED="0")
    subprocess.run([PYTHON, str(script), "--driver", str(out), str(package_root)], cwd=scratch, env=env, check=True)
    with out.open("rb") as f:
        return pickle.load(f)


def main() -> int:
    script = Path(__file__).resolve()
    with tempfile.TemporaryDirectory(prefix="equiv_U10_") as tmp_name:
        tmp = Path(tmp_name)
        materialise_original(tmp / "orig")
        changed = subprocess.run(["git", "-C", str(WORKTREE), "diff", "--stat"], check=True, capture_output=True, text=True).stdout
        if not changed.strip():
            print("WARNING: the worktree has no change, comparing the original with itself")
        original = run_driver(script, tmp / "orig", tmp / "scratch_orig", tmp / "orig.pkl")
        refactored = run_driver(script, WORKTREE, tmp / "scratch_new", tmp / "new.pkl")
    if original["cases"] != refactored["cases"] or len(original["trace"]) != len(refactored["trace"]):
        print("DIFFERENT: number of cases", original["cases"], refactored["cases"])
        return 1
    for a, b in zip(original["trace"], refactored["trace"]):
        if not same(a, b):
            print("DIFFERENT")
            print("original  :", repr(a)[:3000])
            print("refactored:", repr(b)[:3000])
            return 1
    print(f"{original['cases']} cases ({original['ok']} without exception), {len(original['trace'])} trace records compared")
    print("EQUIVALENT")
    return 0


if __name__ == "__main__":
    if len(sys.argv) >= 2 and sys.argv[1] == "--driver":
        driver(sys.argv[2], sys.argv[3])
    else:
        sys.exit(main())
