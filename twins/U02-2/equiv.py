"""Differential test for refactoring 2 (bounds.py: _get_sub_super_coalition_structure, sam_apx sweep).

Run with cwd=/tmp/wt10/U02:  OMP_NUM_THREADS=1 /venv/bin/python /tmp/twin2_out/U02/equiv_2.py

The ORIGINAL package is taken from git (`git archive HEAD incomplete_cooperative`) into a temporary directory.
The REFACTORED package is the worktree itself if it is dirty; if the worktree is clean and patch_1.diff exists,
a second copy of HEAD is made and the patch is applied to it.  Each version is imported in its own subprocess
(the package uses absolute self-imports, so it cannot be imported under a second name), runs the same
deterministic list of cases, and pickles canonical results (dtype / shape / raw bytes of every array, type and
message of every exception).  The parent compares the two result lists exactly.
"""
import os
import pickle
import subprocess
import sys
import tempfile
from pathlib import Path

K = 2
WORKTREE = Path("/tmp/wt10/U02")
OUT = Path("/tmp/twin2_out/U02")
TOUCHED = ["incomplete_cooperative/bounds.py"]


# --------------------------------------------------------------------------------------------------------------
# worker side
# --------------------------------------------------------------------------------------------------------------
def canon(x):
    """Canonical, exactly comparable form of a result."""
    import numpy as np
    if isinstance(x, np.ndarray):
        return ("nd", str(x.dtype), x.shape, np.ascontiguousarray(x).tobytes())
    if isinstance(x, np.generic):
        return ("np", type(x).__name__, x.tobytes())
    if isinstance(x, (list, tuple)):
        return (type(x).__name__, [canon(y) for y in x])
    if isinstance(x, dict):
        return ("dict", [(canon(k), canon(v)) for k, v in x.items()])
    if isinstance(x, (bool, int, float, str, type(None))):
        return (type(x).__name__, repr(x))
    return ("obj", type(x).__name__, repr(x))


class Recorder:
    def __init__(self):
        self.results = []

    def __call__(self, tag, fn):
        import warnings
        with warnings.catch_warnings(record=True) as w:
            warnings.simplefilter("always")
            try:
                out = ("ok", canon(fn()))
            except BaseException as e:  # noqa
                out = ("exc", type(e).__name__, str(e))
        self.results.append((tag, out, sorted({(x.category.__name__, str(x.message)) for x in w})))


def value_table(rng, n, kind):
    """A full value table of a game with n players."""
    import numpy as np
    size = 2**n
    sizes = np.array([bin(i).count("1") for i in range(size)])
    if kind == "square":
        v = (sizes**2).astype(float)
    elif kind == "float":
        v = rng.uniform(0, 10, size)
    elif kind == "ties":
        v = rng.integers(0, 4, size).astype(float)
    elif kind == "negative":
        v = -rng.integers(0, 6, size).astype(float) - sizes
    elif kind == "supadd":
        w = rng.uniform(0, 3, n)
        v = np.array([sum(w[j] for j in range(n) if i >> j & 1) for i in range(size)]) ** 1.5
    elif kind == "special":
        v = rng.uniform(-5, 5, size)
        pos = rng.choice(size, 2, replace=False)
        v[pos[0]] = np.inf
        v[pos[1]] = -0.0
    else:
        raise AssertionError(kind)
    v[0] = 0
    return v


def known_set(rng, n, kind):
    size = 2**n
    minimal = {0, size - 1} | {2**i for i in range(n)}
    others = [i for i in range(size) if i not in minimal]
    if kind == "minimal":
        return sorted(minimal)
    if kind == "extra":
        k = int(rng.integers(0, len(others) + 1)) if others else 0
        return sorted(minimal | set(rng.choice(others, k, replace=False).tolist() if k else []))
    if kind == "nosingle":  # only empty + grand guaranteed
        rest = [i for i in range(1, size - 1)]
        k = int(rng.integers(0, len(rest) + 1))
        return sorted({0, size - 1} | set(rng.choice(rest, k, replace=False).tolist() if k else []))
    if kind == "nogrand":
        rest = [i for i in range(1, size - 1)]
        k = int(rng.integers(0, len(rest) + 1))
        return sorted({0} | set(rng.choice(rest, k, replace=False).tolist() if k else []))
    if kind == "full":
        return list(range(size))
    raise AssertionError(kind)


def snapshot(game):
    return (game._values.copy(), game.get_lower_bounds().copy(), game.get_upper_bounds().copy(),
            game.are_values_known().copy())


def bounds_cases(rec, seeds, names=None):
    import numpy as np
    from incomplete_cooperative.bounds import BOUNDS
    from incomplete_cooperative.coalitions import Coalition
    from incomplete_cooperative.game import IncompleteCooperativeGame

    names = list(BOUNDS) if names is None else names
    vkinds = ["square", "float", "ties", "negative", "supadd", "special"]
    kkinds = ["minimal", "extra", "extra", "nosingle", "nogrand", "full"]
    for seed in seeds:
        for n in (1, 2, 3, 4, 5):
            for name in names:
                heavy = name in ("sam_apx_100", "sam_apx_1000")
                if heavy and (n > 3 or seed % 4):
                    continue
                if name == "sam_apx_10" and n > 4:
                    continue
                rng = np.random.default_rng([seed, n])  # same inputs for every registry entry
                vkind = vkinds[(seed + n) % len(vkinds)]
                kkind = kkinds[(seed * 7 + n * 3) % len(kkinds)]
                v = value_table(rng, n, vkind)
                known = known_set(rng, n, kkind)
                tag = f"bounds/{name}/seed{seed}/n{n}/{vkind}/{kkind}"
                game = IncompleteCooperativeGame(n, BOUNDS[name])
                game.set_known_values(v[known], [Coalition(int(i)) for i in known])
                if seed % 3 == 0:  # stale garbage in the bounds of the unknown coalitions
                    game.set_lower_bounds(rng.uniform(-9, 9, 2**n))
                    game.set_upper_bounds(rng.uniform(-9, 9, 2**n))
                rec(tag + "/compute", lambda: (game.compute_bounds(), snapshot(game)))
                rec(tag + "/again", lambda: (game.compute_bounds(), snapshot(game)))
                # a reveal / unreveal history with recomputation
                unknown = [i for i in range(2**n) if i not in known]
                order = rng.permutation(unknown).tolist()[:4 if not heavy else 2]
                for c in order:
                    rec(tag + f"/reveal{c}", lambda: (game.reveal_value(v[c], Coalition(c)),
                                                      game.compute_bounds(), snapshot(game)))
                for c in rng.permutation(order).tolist():
                    rec(tag + f"/unreveal{c}", lambda: (game.unreveal_value(Coalition(c)),
                                                        game.compute_bounds(), snapshot(game)))
                # calling the registry entry directly returns None and is idempotent
                rec(tag + "/direct", lambda: (BOUNDS[name](game), snapshot(game)))


def structure_cases(rec):
    import numpy as np
    from incomplete_cooperative import bounds

    def describe(result):
        """The three arrays plus everything else a caller could observe about them."""
        return (result, [(x.flags["C_CONTIGUOUS"], x.flags["WRITEABLE"], x.strides, x.ndim) for x in result],
                len(result), type(result).__name__)
    for n in range(0, 8):
        rec(f"structure/{n}", lambda: describe(bounds._get_sub_super_coalition_structure(n)))
        rec(f"structure_wrapped/{n}", lambda: describe(bounds._get_sub_super_coalition_structure.__wrapped__(n)))
        rec(f"structure_cached_identity/{n}", lambda: all(
            a is b for a, b in zip(bounds._get_sub_super_coalition_structure(n),
                                   bounds._get_sub_super_coalition_structure(n))))
    # arguments outside the contract: the same exception (or result) must come out
    for label, arg in [("float", 3.0), ("half", 2.5), ("neg", -1), ("neg2", -2), ("str", "a"), ("none", None),
                       ("true", True), ("false", False), ("npint64", np.int64(3)), ("npint32", np.int32(2)),
                       ("npint8", np.int8(3)), ("npfloat", np.float64(2.0)), ("list", [2]), ("arr", np.array([1, 2])),
                       ("arr0", np.array(2))]:
        rec(f"structure_odd/{label}", lambda: describe(bounds._get_sub_super_coalition_structure.__wrapped__(arg)))
    rec("registry", lambda: [(k, type(f).__name__, getattr(f, "keywords", None),
                              getattr(getattr(f, "func", f), "__name__", None)) for k, f in bounds.BOUNDS.items()])


def sam_direct_cases(rec, seeds):
    """The approximation with repetition counts that are not in the registry (0, 2, 3, 5), called directly."""
    import numpy as np
    from incomplete_cooperative.bounds import compute_bounds_superadditive_monotone_approx_cached
    from incomplete_cooperative.coalitions import Coalition
    from incomplete_cooperative.game import IncompleteCooperativeGame
    for seed in seeds:
        for n in (2, 3, 4, 5):
            for repetitions in (0, 2, 3, 5, -1):
                rng = np.random.default_rng([7, seed, n])
                v = value_table(rng, n, ["negative", "ties", "float", "supadd"][(seed + n) % 4])
                known = known_set(rng, n, ["minimal", "extra", "nosingle"][(seed + repetitions) % 3])
                game = IncompleteCooperativeGame(n)
                game.set_known_values(v[known], [Coalition(int(i)) for i in known])
                tag = f"samdirect/seed{seed}/n{n}/rep{repetitions}"
                rec(tag, lambda: (compute_bounds_superadditive_monotone_approx_cached(game, repetitions),
                                  snapshot(game)))
                rec(tag + "/kw", lambda: (compute_bounds_superadditive_monotone_approx_cached(
                    game, repetitions=repetitions), snapshot(game)))


def game_api_cases(rec, seeds):
    import numpy as np
    from incomplete_cooperative.bounds import BOUNDS
    from incomplete_cooperative.coalitions import Coalition
    from incomplete_cooperative.game import IncompleteCooperativeGame
    for seed in seeds:
        rng = np.random.default_rng([99, seed])
        n = int(rng.integers(2, 6))
        size = 2**n
        v = value_table(rng, n, "float")
        known = known_set(rng, n, ["extra", "nosingle", "full"][seed % 3])
        kc = [Coalition(int(i)) for i in known]
        tag = f"api/seed{seed}/n{n}"
        game = IncompleteCooperativeGame(n, BOUNDS["superadditive_cached"])
        rec(tag + "/set_known_gen", lambda: (game.set_known_values((x for x in v[known]), iter(kc)), snapshot(game)))
        rec(tag + "/compute", lambda: (game.compute_bounds(), snapshot(game)))
        some = [Coalition(int(i)) for i in rng.integers(0, size, 5)]
        rec(tag + "/get_values_all", lambda: game.get_values())
        rec(tag + "/get_values_some", lambda: game.get_values(iter(some)))
        rec(tag + "/get_values_known", lambda: game.get_values(kc))
        rec(tag + "/get_known_values_all", lambda: game.get_known_values())
        rec(tag + "/get_known_values_some", lambda: game.get_known_values(iter(some)))
        rec(tag + "/get_known_value", lambda: [game.get_known_value(c) for c in some])
        rec(tag + "/get_value", lambda: [game.get_value(c) for c in kc[:3]])
        rec(tag + "/get_value_err", lambda: [game.get_value(c) for c in some])
        rec(tag + "/known_some", lambda: game.are_values_known(iter(some)))
        rec(tag + "/lower_some", lambda: game.get_lower_bounds(iter(some)))
        rec(tag + "/upper_some", lambda: game.get_upper_bounds(some))
        rec(tag + "/intervals_some", lambda: game.get_intervals(iter(some)))
        rec(tag + "/intervals_all", lambda: game.get_intervals())
        rec(tag + "/interval", lambda: [game.get_interval(c) for c in some])
        rec(tag + "/bad_coalition", lambda: game.get_lower_bounds([1, 2]))
        rec(tag + "/bad_index", lambda: game.get_lower_bounds([Coalition(size + 3)]))
        rec(tag + "/empty_list", lambda: game.get_lower_bounds([]))
        vals = rng.uniform(-3, 3, len(some))
        rec(tag + "/set_upper_some", lambda: (game.set_upper_bounds(vals, iter(some)), snapshot(game)))
        rec(tag + "/set_lower_some", lambda: (game.set_lower_bounds(vals, some), snapshot(game)))
        rec(tag + "/set_upper_all", lambda: (game.set_upper_bounds(rng.uniform(0, 1, size)), snapshot(game)))
        rec(tag + "/set_lower_all", lambda: (game.set_lower_bounds(rng.uniform(0, 1, size)), snapshot(game)))
        rec(tag + "/set_values_some", lambda: (game.set_values(vals, iter(some)), snapshot(game)))
        rec(tag + "/set_values_mismatch", lambda: (game.set_values(vals[:2], some), snapshot(game)))
        rec(tag + "/neg", lambda: snapshot(-game))
        rec(tag + "/copy_eq", lambda: (game.copy() == game, game == 3))
        rec(tag + "/full", lambda: game.full)
        rec(tag + "/add", lambda: snapshot(game + game))
        rec(tag + "/set_values_all", lambda: (game.set_values(v), snapshot(game), game.full, snapshot(game + game)))
        rec(tag + "/unset", lambda: (game.unset_value(some[0]), game.unreveal_value(some[0]), snapshot(game)))
        rec(tag + "/reveal_known", lambda: (game.reveal_value(1.0, kc[0]), snapshot(game)))
        rec(tag + "/self_view", lambda: (game.set_known_values(game.get_values(kc), kc), snapshot(game)))


def gym_cases(rec, seeds):
    import numpy as np
    from incomplete_cooperative.bounds import BOUNDS
    from incomplete_cooperative.coalitions import Coalition, minimal_game_coalitions
    from incomplete_cooperative.exploitability import compute_exploitability
    from incomplete_cooperative.game import IncompleteCooperativeGame
    from incomplete_cooperative.generators import factory_generator, k_budget_generator
    from incomplete_cooperative.icg_gym import ICG_Gym
    from incomplete_cooperative.solvers.greedy import GreedySolver
    for seed in seeds:
        for name in ("superadditive", "superadditive_cached", "sam_apx_1", "sam_apx_10"):
            n = 3 + seed % 2
            worst = bool(seed % 2)
            tag = f"gym/{name}/seed{seed}/n{n}/worst{worst}"

            def build():
                rng = np.random.default_rng(1000 + seed)
                if name.startswith("sam"):
                    full = k_budget_generator(n, rng)
                else:
                    full = factory_generator(n, rng, random_weights=True)
                game = IncompleteCooperativeGame(n, BOUNDS[name])
                return ICG_Gym(game, lambda: full.copy(), list(minimal_game_coalitions(n)), compute_exploitability)
            holder = {}
            rec(tag + "/build", lambda: holder.setdefault("gym", build()).state)
            if "gym" not in holder:
                continue
            gym = holder["gym"]
            solver = GreedySolver(worst=worst)
            rec(tag + "/reset", lambda: (gym.reset()[0], gym.reward, gym.done, gym.action_masks(),
                                         snapshot(gym.incomplete_game)))
            for step in range(4):
                if gym.done:
                    break
                act = {}
                rec(tag + f"/next{step}", lambda: act.setdefault("a", solver.next_step(gym)))
                rec(tag + f"/after_next{step}", lambda: (gym.state, gym.reward, snapshot(gym.incomplete_game)))
                if "a" not in act:
                    break
                a = act["a"]
                rec(tag + f"/step{step}", lambda: (gym.step(a), snapshot(gym.incomplete_game)))
                rec(tag + f"/unstep{step}", lambda: (gym.unstep(a), snapshot(gym.incomplete_game)))
                rec(tag + f"/restep{step}", lambda: (gym.step(a), gym.action_masks(), snapshot(gym.incomplete_game)))


def worker(root, outfile):
    sys.path.insert(0, root)
    import incomplete_cooperative
    assert Path(incomplete_cooperative.__file__).resolve().is_relative_to(Path(root).resolve()), \
        (incomplete_cooperative.__file__, root)
    rec = Recorder()
    structure_cases(rec)
    bounds_cases(rec, seeds=range(24))
    sam_direct_cases(rec, seeds=range(8))
    game_api_cases(rec, seeds=range(12))
    gym_cases(rec, seeds=range(4))
    with open(outfile, "wb") as f:
        pickle.dump(rec.results, f)


# --------------------------------------------------------------------------------------------------------------
# parent side
# --------------------------------------------------------------------------------------------------------------
def extract_head(dest):
    dest.mkdir(parents=True)
    archive = subprocess.run(["git", "-C", str(WORKTREE), "archive", "HEAD", "incomplete_cooperative"],
                             check=True, capture_output=True).stdout
    subprocess.run(["tar", "-x", "-C", str(dest)], input=archive, check=True)


def main():
    with tempfile.TemporaryDirectory(prefix="equiv_U02_") as tmp:
        tmp = Path(tmp)
        orig_root = tmp / "orig"
        extract_head(orig_root)
        dirty = subprocess.run(["git", "-C", str(WORKTREE), "diff", "--quiet"]).returncode != 0
        patch = OUT / f"patch_{K}.diff"
        if dirty:
            new_root = WORKTREE
        elif patch.exists():
            new_root = tmp / "new"
            extract_head(new_root)
            subprocess.run(["patch", "-s", "-p1", "-d", str(new_root), "-i", str(patch)], check=True)
        else:
            print("worktree is clean and there is no patch: nothing to compare")
            return 2
        changed = [p for p in TOUCHED if (orig_root / p).read_bytes() != (Path(new_root) / p).read_bytes()]
        print(f"original: git HEAD in {orig_root}; refactored: {new_root}; files that differ: {changed}")
        if not changed:
            print("the refactored tree does not differ from HEAD")
            return 2
        outs = []
        for label, root in (("orig", orig_root), ("new", new_root)):
            outfile = tmp / f"{label}.pkl"
            env = dict(os.environ, OMP_NUM_THREADS="1", MKL_NUM_THREADS="1", PYTHONDONTWRITEBYTECODE="1")
            env.pop("PYTHONPATH", None)
            subprocess.run([sys.executable, __file__, "--worker", str(root), str(outfile)], check=True, env=env,
                           cwd=str(tmp))
            outs.append(pickle.loads(outfile.read_bytes()))
    a, b = outs
    n_exc = sum(1 for x in a if x[1][0] == "exc")
    print(f"{len(a)} cases from the original, {len(b)} from the refactored version; {n_exc} of them raise")
    if len(a) != len(b):
        print("DIFFERENT: number of cases", len(a), len(b))
        return 1
    for x, y in zip(a, b):
        if x != y:
            print("DIFFERENT")
            print("first counterexample:", x[0])
            print("  original  :", repr(x[1])[:1500], x[2])
            print("  refactored:", repr(y[1])[:1500], y[2])
            return 1
    print("EQUIVALENT")
    return 0


if __name__ == "__main__":
    if len(sys.argv) > 1 and sys.argv[1] == "--worker":
        worker(sys.argv[2], sys.argv[3])
    else:
        sys.exit(main())
