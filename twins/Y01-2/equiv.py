#!/usr/bin/env python
"""Differential equivalence check for patch_2 (Output.metadata, the json loaders, the plot savers and coalition distributions in run/save.py).

The original package is extracted from git HEAD into a temporary directory.  The refactored tree is the worktree
if it is dirty (the patch is applied there); if the worktree is clean a second copy of HEAD is made and
patch_2.diff (next to this script) is applied to it.  Both are driven by the same deterministic driver in
separate interpreters; the pickled outcomes must be byte-identical.
"""
import os
import pickle
import shutil
import subprocess
import sys
import tempfile
from pathlib import Path

WORKTREE = Path(os.environ.get("WORKTREE", "/tmp/wt_y5_Y01"))
PATCH = Path(__file__).resolve().with_name("patch_2.diff")
PYTHON = os.environ.get("PYTHON", "/venv/bin/python")

DRIVER = r'''
import datetime, io, json, os, pickle, sys
from argparse import Namespace
from pathlib import Path
from types import SimpleNamespace
from contextlib import redirect_stderr

import matplotlib
matplotlib.use("Agg")
import numpy as np

import incomplete_cooperative.run.save as S
from incomplete_cooperative.coalitions import Coalition
from incomplete_cooperative.run.save import (Output, approx_game, get_coalition_distribution,
                                             get_coalition_distribution2, get_outputs, get_outputs_from_file, save,
                                             save_data_plot, save_draw_coalitions, save_json)

out = []


def norm(x):
    """Make results picklable and exactly comparable (dtype / shape / type kept)."""
    if isinstance(x, Output):
        return ("Output", norm(x.data), norm(x.actions), type(x.parsed_args).__name__, norm(vars(x.parsed_args)))
    if isinstance(x, np.ndarray):
        return ("nd", x.dtype.str, x.shape, x.tobytes() if x.dtype != object else x.tolist())
    if isinstance(x, np.generic):
        return ("npscalar", type(x).__name__, x.tobytes())
    if isinstance(x, Coalition):
        return ("Coalition", x.id)
    if isinstance(x, dict):
        return (type(x).__name__, [(norm(k), norm(v)) for k, v in x.items()])
    if isinstance(x, (list, tuple)):
        return (type(x).__name__, [norm(v) for v in x])
    if isinstance(x, float):
        return ("float", x.hex())
    if callable(x):
        return ("callable", getattr(x, "__name__", "?"))
    try:
        return (type(x).__name__, repr(x))
    except RuntimeError:
        return (type(x).__name__, "<no repr>")


def outcome(fn, *a):
    try:
        return ("ok", norm(fn(*a)))
    except BaseException as e:  # noqa
        return ("exc", type(e).__module__, type(e).__qualname__, str(e), repr(getattr(e, "args", None)))


def tree(root):
    return [(str(p), "d" if p.is_dir() else p.read_bytes()) for p in sorted(Path(root).rglob("*"))]


rng = np.random.default_rng(987654321)


def eval_func(): pass
def learn_func(): pass
class Evaluator:
    def __repr__(self): return "the evaluator"
class BadRepr:
    def __repr__(self): raise RuntimeError("no repr")


# ---------------------------------------------------------------- Output.metadata / json
FUNCS = ["eval", "learn", "evaluate", "", "EVAL", eval_func.__name__, Evaluator(), len, None, 3, BadRepr(), b"eval",
         ("x", "eval")]
KEYS = ["foo", "baz", "run_type", "number_of_players", "model_path", "seed", "when", "zz"]
VALS = ["bar", 42, "previous", 5, Path("a/b"), None, datetime.date(2022, 3, 4), [1, 2.5]]
namespaces = [Namespace(), Namespace(foo=1), SimpleNamespace(func="eval", a=1), object(), None, {"func": "eval"}]
for func in FUNCS:
    for _ in range(12):
        n = int(rng.integers(0, len(KEYS) + 1))
        chosen = list(rng.permutation(len(KEYS))[:n])
        items = [(KEYS[i], VALS[i]) for i in chosen]
        items.insert(int(rng.integers(0, n + 1)), ("func", func))
        namespaces.append(Namespace(**dict(items)))
for ns in namespaces:
    o = Output(rng.random((3, 2)), rng.integers(0, 8, (2, 2)).astype(float), ns)
    before = norm(getattr(ns, "__dict__", None))
    r1 = outcome(lambda: o.metadata)
    r2 = outcome(lambda: o.metadata)  # repeatable, the arguments are left alone
    r3 = outcome(lambda: o.json)
    out.append(("metadata", r1, r2, r3, before == norm(getattr(ns, "__dict__", None)), before))
    m = None
    try:
        m = o.metadata
    except BaseException:
        pass
    if m is not None:
        out.append(("metadata-type", type(m).__name__, list(m), m is not vars(ns)))


# ---------------------------------------------------------------- outputs, loaders
def make_output(rng, kind, players=None):
    steps, reps = int(rng.integers(1, 4)), int(rng.integers(1, 5))
    players = players or int(rng.integers(2, 6))
    data = rng.random((steps + 1, reps))
    actions = rng.integers(0, 2 ** players, (steps, reps)).astype(float)
    if rng.random() < 0.4:
        actions[rng.integers(0, steps), rng.integers(0, reps)] = np.nan
    if kind == 0:
        args = Namespace(foo="bar", baz=42, func="eval")
    elif kind == 1:
        args = Namespace(func="learn_func", model_path=Path("some/where"), when=datetime.date(2021, 1, 2),
                         number_of_players=players, seed=int(rng.integers(0, 99)))
    elif kind == 2:
        args = Namespace(run_type="older", func="eval", z=float("inf"), t=(1, Path("t")), n=None)
    else:
        args = Namespace(foo=1)
    return Output(data, actions, args)


NAMES = ["foobar", "baz", "2024-01-01T10:00:00.123", "a/b", "50%", "", "back\\slash", "ünï", "x.png", "..", "."]
TEXTS = [None, "{}", "[]", "null", "{broken", "", '{"foobar": 3}', '{"foobar": {"data": [[1]], "actions": [[2]]}}',
         '{"foobar": {"data": [[1], [2, 3]], "actions": [[2]], "metadata": {"run_type": "eval"}}}',
         '{"foobar": {"data": [[1]], "actions": [[NaN]], "metadata": {"run_type": "eval", "x": 1}, "extra": 0}}',
         '{"foobar": {"data": [[1, 2]], "actions": [["a"]], "metadata": {"run_type": "learn", "func": "gone", "q": []}},'
         ' "baz": {"data": [], "actions": [[3, null]], "metadata": {"run_type": 7}}}',
         '{"foobar": {"data": [[1]], "actions": [[2]], "metadata": {"x": 1}}}', "DIR"]
root = Path("ld")
for i, text in enumerate(TEXTS):
    path = root / str(i) / "data.json"
    path.parent.mkdir(parents=True)
    if text == "DIR":
        path.mkdir()
    elif text is not None:
        path.write_text(text)
    for name in ["foobar", "baz", "nope"]:
        out.append(("from_file", i, name, outcome(Output.from_file, path, name)))
    out.append(("outputs_from_file", i, outcome(get_outputs_from_file, path)))
    if text not in (None, "DIR"):
        try:
            raw = json.loads(text)
        except ValueError:
            continue
        out.append(("get_outputs", i, outcome(get_outputs, raw), norm(raw)))  # the mutation of the input included
for case in range(150):
    path = root / f"rt{case}" / "data.json"
    path.parent.mkdir(parents=True)
    log = []
    for _ in range(int(rng.integers(1, 4))):
        name = NAMES[int(rng.integers(0, len(NAMES)))]
        o = make_output(rng, int(rng.integers(0, 4)))
        log.append((name, outcome(save_json, path, name, o), outcome(Output.from_file, path, name)))
        log.append(outcome(lambda: Output.from_file(path, name).metadata))
        log.append(outcome(lambda: Output.from_file(path, name).json))
    log.append(outcome(get_outputs_from_file, path))
    out.append(("roundtrip", case, log, tree(path.parent)))
out.append(("open-files", len(os.listdir("/proc/self/fd"))))

# ---------------------------------------------------------------- coalition distributions
for case in range(400):
    players = int(rng.integers(1, 6))
    n = 2 ** players
    size = int(rng.integers(0, 12))
    dtype = [float, int, np.float32][case % 3]
    hi = n if case % 5 else n + 3  # sometimes ids out of range: IndexError
    data = rng.integers(-1 if case % 7 == 0 else 0, hi, size).astype(dtype)
    if dtype is not int and size and case % 2:
        data = data.copy()
        data[rng.integers(0, size, 2)] = np.nan
    if case % 11 == 0 and size:
        data = data.astype(float) + 0.5
    if case % 13 == 0:
        data = data.reshape(-1, 1)
    keep = data.copy()
    out.append(("dist", case, outcome(get_coalition_distribution, n, data, []), norm(data), np.array_equal(keep, data, equal_nan=dtype is not int)))
    err = io.StringIO()
    with redirect_stderr(err):
        r = outcome(get_coalition_distribution2, data)
    out.append(("dist2", case, r, err.getvalue()))
    out.append(("approx", case, outcome(approx_game, data)))
for bad in [np.array([]), np.full(3, np.nan), np.array(["a"]), None, [1.0, 2.0], np.float64(3.0), np.array([[np.inf]])]:
    out.append(("dist-bad", outcome(get_coalition_distribution, 8, bad, [])))
    out.append(("approx-bad", outcome(approx_game, bad)))

# ---------------------------------------------------------------- the plot savers (png bytes compared)
root = Path("pl")
for case in range(16):
    base = root / str(case)
    log = []
    for k, name in enumerate([NAMES[case % len(NAMES)], "run.1", "a/b%", "run.1"]):
        o = make_output(rng, case % 3, players=2 + case % 4)
        if case % 6 == 5 and k == 0:
            o = Output(o.data, np.full_like(o.actions, np.nan), o.parsed_args)  # nothing chosen at all
        if case % 6 == 4 and k == 1:
            o = Output(o.data[0], o.actions, o.parsed_args)  # 1-D data: np.mean(.., 1) fails
        log.append((name, "plot", outcome(save_data_plot, base / "data_plots", name, o)))
        log.append((name, "coal", outcome(save_draw_coalitions, base / "chosen_coalitions", name, o)))
    out.append(("plots", case, log, tree(base)))
for case in range(8):
    base = root / f"s{case}" / "model"
    log = []
    for name in ["one.two", "a/b", "one.two", "."]:
        log.append((name, outcome(save, base, name, make_output(rng, case % 4))))
    out.append(("save", case, log, tree(base.parent)))
import matplotlib.pyplot as plt
out.append(("figures-left", plt.get_fignums()))
out.append(("importable", sorted(n for n in dir(S) if not n.startswith("__")), list(S.SAVERS),
            pickle.dumps(Output), pickle.dumps(save_data_plot), pickle.dumps(get_coalition_distribution),
            pickle.dumps(Output(np.arange(4.0).reshape(2, 2), np.ones((1, 2)), Namespace(func="eval", a=1)))))

sys.stdout.buffer.write(pickle.dumps(out, protocol=4))
'''


def run(tree: Path, scratch: Path, driver: Path) -> bytes:
    scratch.mkdir(parents=True)
    env = {k: v for k, v in os.environ.items() if k not in ("PYTHONPATH", "PYTHONSTARTUP")}
    env.update(PYTHONPATH=str(tree), PYTHONHASHSEED="0", MPLBACKEND="Agg", OMP_NUM_THREADS="1",
               PYTHONDONTWRITEBYTECODE="1", MPLCONFIGDIR=str(scratch.parent / "mpl"))
    proc = subprocess.run([PYTHON, str(driver)], cwd=scratch, env=env, stdout=subprocess.PIPE, stderr=subprocess.PIPE)
    if proc.returncode != 0:
        sys.stderr.write(proc.stderr.decode(errors="replace"))
        raise SystemExit(f"driver failed on {tree}")
    return proc.stdout


def main() -> int:
    tmp = Path(tempfile.mkdtemp(prefix="y01_equiv2_"))
    try:
        orig = tmp / "orig"
        orig.mkdir()
        subprocess.run(f"git -C {WORKTREE} archive HEAD incomplete_cooperative | tar -x -C {orig}",
                       shell=True, check=True)
        dirty = subprocess.run(["git", "-C", str(WORKTREE), "diff", "--quiet"]).returncode != 0
        if dirty:
            new = WORKTREE
        else:
            new = tmp / "new"
            shutil.copytree(orig, new)
            subprocess.run(["patch", "-p1", "-s", "-d", str(new), "-i", str(PATCH)], check=True)
        if (orig / "incomplete_cooperative/run/save.py").read_bytes() == \
                (new / "incomplete_cooperative/run/save.py").read_bytes():
            raise SystemExit("the refactored tree does not differ from HEAD")
        driver = tmp / "driver.py"
        driver.write_text(DRIVER)
        a = run(orig, tmp / "a" / "w", driver)
        b = run(new, tmp / "b" / "w", driver)
        if a == b:
            print(f"identical: {len(pickle.loads(a))} records, {len(a)} bytes")
            return 0
        ra, rb = pickle.loads(a), pickle.loads(b)
        print(f"DIFFERENT: {len(ra)} vs {len(rb)} records")
        for x, y in zip(ra, rb):
            if pickle.dumps(x) != pickle.dumps(y):
                print("first difference:\n ", repr(x)[:1500], "\n ", repr(y)[:1500])
                break
        return 1
    finally:
        shutil.rmtree(tmp, ignore_errors=True)


if __name__ == "__main__":
    sys.exit(main())
