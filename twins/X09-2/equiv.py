#!/usr/bin/env python
"""Differential equivalence check for patch_2 (incomplete_cooperative/game.py, incomplete_cooperative/icg_gym.py).

Runs the same deterministic workload against the ORIGINAL sources (git archive HEAD) and against the current
worktree (patch applied), each in its own interpreter, and compares the canonicalised outcomes exactly.
Exit status 0 iff everything is identical.
"""
import os
import pickle
import struct
import subprocess
import sys
import tempfile

WORKTREE = "/tmp/wt_x4_X09"


# --------------------------------------------------------------------------------------------------------------------
# canonical form of outcomes: nested tuples of tagged primitives / raw bytes (NaN-safe, dtype- and shape-exact)
# --------------------------------------------------------------------------------------------------------------------
def canon(x):
    import numpy as np
    from argparse import Namespace
    from pathlib import PurePath
    if x is None or type(x) in (str, bytes):
        return x
    if isinstance(x, (str, bytes)):
        return ("sub", type(x).__name__, str(x) if isinstance(x, str) else bytes(x))
    if isinstance(x, bool):
        return ("bool", int(x))
    if isinstance(x, np.ndarray):
        if x.dtype == object:
            return ("ndo", x.shape, tuple(canon(y) for y in x.ravel().tolist()))
        return ("nd", x.dtype.str, x.shape, np.ascontiguousarray(x).tobytes())
    if isinstance(x, np.generic):
        return ("npscalar", x.dtype.str, x.tobytes())
    if isinstance(x, int):
        return ("int", type(x).__name__, int(x))
    if isinstance(x, float):
        return ("float", struct.pack("<d", x))
    if isinstance(x, (list, tuple)):
        return (type(x).__name__, tuple(canon(y) for y in x))
    if isinstance(x, dict):
        return ("dict", tuple((canon(k), canon(v)) for k, v in x.items()))
    if isinstance(x, (set, frozenset)):
        return ("set", tuple(sorted(repr(canon(y)) for y in x)))
    if isinstance(x, PurePath):
        return ("path", str(x))
    if isinstance(x, Namespace):
        return ("ns", canon(vars(x)))
    if isinstance(x, BaseException):
        return ("exc", type(x).__name__, str(x))
    cls = type(x).__name__
    if hasattr(x, "_values") and hasattr(x, "number_of_players"):
        return ("game", cls, x.number_of_players, canon(x._values))
    if hasattr(x, "_graph_matrix"):
        return ("graphgame", cls, x.number_of_players, canon(x._graph_matrix))
    if cls == "Coalition":
        return ("coalition", x.id)
    return ("obj", cls)


def attempt(fn, *args, **kwargs):
    """Call and canonicalise result or exception."""
    try:
        return ("ok", canon(fn(*args, **kwargs)))
    except BaseException as e:  # noqa
        return canon(e)


# --------------------------------------------------------------------------------------------------------------------
# the workload (runs in a subprocess with PYTHONPATH pointing to one of the two trees)
# --------------------------------------------------------------------------------------------------------------------
def driver(out_path, expected_root):
    import itertools
    import warnings
    warnings.filterwarnings("ignore")
    from functools import partial

    import numpy as np

    import incomplete_cooperative
    assert os.path.realpath(incomplete_cooperative.__file__).startswith(os.path.realpath(expected_root)), \
        (incomplete_cooperative.__file__, expected_root)
    from incomplete_cooperative import game as GM
    from incomplete_cooperative import generators as G
    from incomplete_cooperative import icg_gym as IG
    from incomplete_cooperative.bounds import BOUNDS
    from incomplete_cooperative.coalitions import (Coalition, all_coalitions,
                                                   grand_coalition,
                                                   minimal_game_coalitions)
    from incomplete_cooperative.game import IncompleteCooperativeGame
    from incomplete_cooperative.generators import GENERATORS
    from incomplete_cooperative.icg_gym import ICG_Gym, compute_reward
    from incomplete_cooperative.run.model import GAP_FUNCTIONS, ModelInstance

    # some graph families draw from a module-level generator seeded from OS entropy: pin its state
    G._gen.bit_generator.state = np.random.default_rng(20240229).bit_generator.state

    results = []

    def rec(tag, value):
        results.append((tag, value))

    def pickled(obj):
        return pickle.dumps(obj, protocol=4)

    # public / private names stay importable, class constants keep their integer values
    for mod, names in ((GM, ("IncompleteCooperativeGame", "_none_bounds", "Coalitions", "CoalitionPlayers", "LOGGER",
                             "Coalition", "BoundableIncompleteGame", "Value", "ValueIn", "Values", "np", "logging")),
                       (IG, ("ICG_Gym", "compute_reward", "Coalition", "all_coalitions", "grand_coalition",
                             "NormalizableGame", "normalize_game", "gym", "np"))):
        rec("names/" + mod.__name__, tuple((n, hasattr(mod, n)) for n in names))
    K = IncompleteCooperativeGame
    rec("columns", tuple(int(x) for x in (K._values_is_known_index, K._values_lower_index, K._values_upper_index)))
    rec("columns-eq", (K._values_is_known_index == 0, K._values_lower_index == 1, K._values_upper_index == 2,
                       isinstance(K._values_lower_index, int), K._values_upper_index + 1, hash(K._values_upper_index)))

    # ---------------------------------------------------------------------------------------------------------------
    # 1. the game class: every method, random operation sequences, exceptional paths
    # ---------------------------------------------------------------------------------------------------------------
    rng = np.random.default_rng(2024)

    def snapshot(tag, g):
        rec(tag + "/values", canon(g._values))
        rec(tag + "/pickle", pickled(g))

    for n in (1, 2, 3, 4, 5):
        size = 2**n
        coals = [Coalition(i) for i in range(size)]
        for rep in range(14):
            g = IncompleteCooperativeGame(n, BOUNDS["superadditive"] if rep % 2 else GM._none_bounds)
            tag = f"game/{n}/{rep}"
            snapshot(tag + "/init", g)
            for op_i in range(30):
                op = int(rng.integers(0, 22))
                t = f"{tag}/{op_i}/{op}"
                k = int(rng.integers(0, size + 1))
                subset = [coals[i] for i in rng.permutation(size)[:k]]
                vals = rng.normal(size=k) * 10.0**rng.integers(-2, 3)
                c = coals[int(rng.integers(0, size))]
                if op == 0:
                    rec(t, attempt(g.set_values, rng.normal(size=size)))
                elif op == 1:
                    rec(t, attempt(g.set_values, vals, subset))
                elif op == 2:   # wrong lengths, both directions, and wrong length without coalitions
                    rec(t, attempt(g.set_values, vals, subset[:-1] if k else [coals[0]]))
                    rec(t + "b", attempt(g.set_values, vals[:-1], subset))
                    rec(t + "c", attempt(g.set_values, rng.normal(size=size + 1)))
                elif op == 3:
                    rec(t, attempt(g.set_known_values, vals, subset))
                elif op == 4:
                    rec(t, attempt(g.set_known_values, (float(v) for v in vals), iter(subset)))
                elif op == 5:
                    rec(t, attempt(g.set_value, float(vals[0]) if k else 1, c))
                elif op == 6:
                    rec(t, attempt(g.unset_value, c))
                elif op == 7:
                    rec(t, attempt(g.reveal_value, 3.25, c))
                elif op == 8:
                    rec(t, attempt(g.unreveal_value, c))
                elif op == 9:
                    rec(t, attempt(g.get_values))
                    rec(t + "b", attempt(g.get_values, subset))
                    rec(t + "c", attempt(g.get_values, iter(subset)))
                elif op == 10:
                    rec(t, attempt(g.get_known_values))
                    rec(t + "b", attempt(g.get_known_values, subset))
                elif op == 11:
                    rec(t, attempt(g.are_values_known))
                    rec(t + "b", attempt(g.are_values_known, subset))
                    rec(t + "c", attempt(g.is_value_known, c))
                    rec(t + "d", attempt(g.get_known_value, c))
                    rec(t + "e", attempt(g.get_value, c))
                elif op == 12:
                    rec(t, attempt(g.compute_bounds))
                elif op == 13:
                    rec(t, attempt(g.get_upper_bounds))
                    rec(t + "b", attempt(g.get_lower_bounds, subset))
                    rec(t + "c", attempt(g.get_upper_bound, c))
                    rec(t + "d", attempt(g.get_lower_bound, c))
                    rec(t + "e", attempt(g.get_interval, c))
                    rec(t + "f", attempt(g.get_intervals))
                    rec(t + "g", attempt(g.get_intervals, subset))
                elif op == 14:
                    rec(t, attempt(g.set_upper_bounds, vals, subset))
                    rec(t + "b", attempt(g.set_lower_bounds, vals - 1, subset))
                elif op == 15:
                    rec(t, attempt(g.set_upper_bounds, rng.normal(size=size)))
                    rec(t + "b", attempt(g.set_lower_bounds, rng.normal(size=size)))
                elif op == 16:
                    rec(t, attempt(g.set_upper_bound, 9.5, c))
                    rec(t + "b", attempt(g.set_lower_bound, -9.5, c))
                elif op == 17:
                    rec(t, attempt(lambda: -g))
                    rec(t + "b", attempt(lambda: g.copy()))
                    rec(t + "c", attempt(lambda: g == g.copy()))
                    rec(t + "d", attempt(lambda: g == (-g)))
                    rec(t + "e", attempt(lambda: g == 3))
                    rec(t + "f", attempt(lambda: g.full))
                elif op == 18:
                    other = IncompleteCooperativeGame(n)
                    other.set_values(rng.normal(size=size))
                    rec(t, attempt(lambda: g + other))
                    full = g.copy()
                    full.set_values(rng.normal(size=size))
                    rec(t + "b", attempt(lambda: full + other))
                    rec(t + "c", attempt(lambda: full + IncompleteCooperativeGame(n + 1)))
                elif op == 19:  # the argument is a view of the table itself
                    rec(t, attempt(g.set_values, g.get_upper_bounds()))
                elif op == 20:
                    rec(t, attempt(g.set_known_values, g.get_upper_bounds(subset), subset))
                elif op == 21:
                    rec(t, attempt(g._get_coalition_map, None))
                    rec(t + "b", attempt(g._get_coalition_map, subset))
                    rec(t + "c", attempt(g._filter_out_coalitions, np.arange(size, dtype=float), subset))
                    rec(t + "d", attempt(g._init_values))
                snapshot(t, g)
            # odd arguments
            for bad in (None, "x", [[1.0, 2.0]], object()):
                rec(f"{tag}/bad/{bad!r:.10}", attempt(g.set_values, bad))
                rec(f"{tag}/bad2/{bad!r:.10}", attempt(g.set_values, bad, coals[:1]))
            rec(f"{tag}/badcoal", attempt(g.set_values, [1.0], [3]))
            rec(f"{tag}/badcoal2", attempt(g.get_value, Coalition(size)))
            snapshot(tag + "/end", g)

    # ---------------------------------------------------------------------------------------------------------------
    # 2. the environment
    # ---------------------------------------------------------------------------------------------------------------
    def env_snapshot(tag, env):
        rec(tag + "/state", attempt(lambda: env.state))
        rec(tag + "/reward", attempt(lambda: env.reward))
        rec(tag + "/done", attempt(lambda: env.done))
        rec(tag + "/masks", attempt(env.action_masks))
        rec(tag + "/known", canon(env.incomplete_game._values))
        rec(tag + "/steps", canon(env.steps_taken))

    def make_env(gen_name, n, gap, budget, known=None, seed=0):
        grng = np.random.default_rng([seed, n, 5])
        game = IncompleteCooperativeGame(n, BOUNDS["superadditive"])
        known = minimal_game_coalitions(n) if known is None else known
        return ICG_Gym(game, partial(GENERATORS[gen_name], n, grng), known, gap, budget)

    families = [k for k in GENERATORS if k != "convex"]
    arng = np.random.default_rng(77)

    # 2a. n = 3: every action sequence without repetition, every gap function, budgets None / 2
    for gen_name in ("factory", "graph_cycle", "xos", "k_budget_generator"):
        for gap_name, gap in GAP_FUNCTIONS.items():
            for budget in (None, 2):
                env = make_env(gen_name, 3, gap, budget)
                tag = f"env3/{gen_name}/{gap_name}/{budget}"
                rec(tag + "/known_list", canon(env.initially_known_coalitions))
                rec(tag + "/explorable", canon(env.explorable_coalitions))
                rec(tag + "/spaces", (repr(env.observation_space), repr(env.action_space)))
                for perm in itertools.permutations(range(len(env.explorable_coalitions))):
                    rec(tag + f"/{perm}/reset", attempt(env.reset))
                    for a in perm:
                        rec(tag + f"/{perm}/step{a}", attempt(env.step, a))
                    env_snapshot(tag + f"/{perm}", env)
                    rec(tag + f"/{perm}/unstep", attempt(env.unstep, perm[-1]))
                    rec(tag + f"/{perm}/unstep-again", attempt(env.unstep, perm[-1]))   # AssertionError
                    rec(tag + f"/{perm}/step-twice", attempt(env.step, perm[0]))        # AssertionError
                    env_snapshot(tag + f"/{perm}/after", env)

    # 2b. n = 4, 5: every family, sampled sequences with unsteps, odd budgets (numpy integers, 0, too large)
    budgets = (None, 0, 3, np.int64(2), 1000, np.float64(2.5))
    for i, gen_name in enumerate(families):
        for n in (4, 5):
            gap_name = list(GAP_FUNCTIONS)[(i + n) % 4]
            budget = budgets[(i + n) % len(budgets)]
            known = None
            if i % 3 == 1:   # more initial knowledge, given as a generator with duplicates
                extra = [Coalition(int(c)) for c in arng.integers(0, 2**n, size=4)]
                known = itertools.chain(minimal_game_coalitions(n), extra, extra)
            tag = f"env/{gen_name}/{n}/{gap_name}/{budget!r}"
            try:
                env = make_env(gen_name, n, GAP_FUNCTIONS[gap_name], budget, known, seed=i)
            except BaseException as e:  # noqa
                rec(tag + "/construct", canon(e))
                continue
            rec(tag + "/known_list", canon(env.initially_known_coalitions))
            rec(tag + "/explorable", canon(env.explorable_coalitions))
            if "graph" not in gen_name:  # those registry entries hold a generator seeded from OS entropy
                rec(tag + "/pickle", attempt(pickled, env))
            for episode in range(2):
                rec(tag + f"/{episode}/reset", attempt(env.reset, seed=episode))
                rec(tag + f"/{episode}/full", canon(env.full_game))
                rec(tag + f"/{episode}/normalized", canon(env.normalized_game))
                order = [int(a) for a in arng.permutation(len(env.explorable_coalitions))]
                taken = []
                for a in order[:6 + episode]:
                    rec(tag + f"/{episode}/step{a}", attempt(env.step, a))
                    taken.append(a)
                    if arng.random() < 0.3:
                        b = taken.pop(int(arng.integers(0, len(taken))))
                        rec(tag + f"/{episode}/unstep{b}", attempt(env.unstep, b))
                    env_snapshot(tag + f"/{episode}/{a}", env)
                rec(tag + f"/{episode}/bad-action", attempt(env.step, len(order)))
                rec(tag + f"/{episode}/neg-action", attempt(env.step, -1))
                rec(tag + f"/{episode}/reward-fn", attempt(compute_reward, env.incomplete_game, env.gap_func))
            rec(tag + "/pickle-end", attempt(pickled, env.incomplete_game))

    # 2c. the environments the commands build, the linear wrapper included; all steps till done
    for n, linear, gen_name, limit in itertools.product((3, 4), (False, True), ("factory", "graph", "xos3"), (None, 3)):
        inst = ModelInstance(number_of_players=n, game_generator=gen_name, linear=linear, run_steps_limit=limit,
                             seed=n * 100 + 7, unique_name="u", gap_function="l1_norm" if linear else "exploitability")
        env = inst.get_env()
        tag = f"instance/{n}/{linear}/{gen_name}/{limit}"
        rec(tag + "/pickle", attempt(pickled, env))
        for episode in range(3):
            rec(tag + f"/{episode}/reset", attempt(env.reset))
            for _ in range(2**n):
                masks = env.action_masks()
                if env.get_wrapper_attr("done") or not masks.any():
                    break
                a = int(env.np_random.choice(np.flatnonzero(masks)))
                rec(tag + f"/{episode}/step{a}", attempt(env.step, a))
            rec(tag + f"/{episode}/done", attempt(lambda: env.get_wrapper_attr("done")))

    with open(out_path, "wb") as f:
        pickle.dump(results, f, protocol=4)


# --------------------------------------------------------------------------------------------------------------------
def main():
    with tempfile.TemporaryDirectory(prefix="equiv2_") as tmp:
        orig = os.path.join(tmp, "orig")
        os.makedirs(orig)
        archive = subprocess.Popen(["git", "-C", WORKTREE, "archive", "HEAD", "incomplete_cooperative"],
                                   stdout=subprocess.PIPE)
        subprocess.check_call(["tar", "-x", "-C", orig], stdin=archive.stdout)
        assert archive.wait() == 0
        run_dir = os.path.join(tmp, "run")
        os.makedirs(run_dir)
        loaded = {}
        raw = {}
        second = orig if "--selfcheck" in sys.argv else WORKTREE  # --selfcheck: original against itself (determinism)
        for label, root in (("orig", orig), ("new", second)):
            out = os.path.join(tmp, label + ".pkl")
            env = dict(os.environ, PYTHONPATH=root, OMP_NUM_THREADS="1", PYTHONHASHSEED="0", MPLBACKEND="Agg",
                       PYTHONDONTWRITEBYTECODE="1")
            subprocess.check_call([sys.executable, os.path.abspath(__file__), "--driver", out, root],
                                  env=env, cwd=run_dir)
            with open(out, "rb") as f:
                raw[label] = f.read()
            loaded[label] = pickle.loads(raw[label])
    a, b = loaded["orig"], loaded["new"]
    bad = 0
    if len(a) != len(b):
        print(f"DIFFERENT number of outcomes: {len(a)} vs {len(b)}")
        bad += 1
    for (ta, va), (tb, vb) in zip(a, b):
        if ta != tb or va != vb:
            bad += 1
            if bad < 20:
                print("DIFF at", ta, tb, "\n   orig:", repr(va)[:300], "\n   new: ", repr(vb)[:300])
    nexc = sum(1 for _, v in a if isinstance(v, tuple) and v and v[0] == "exc")
    print(f"{len(a)} outcomes compared ({nexc} of them exceptions), pickles byte-equal: {raw['orig'] == raw['new']}, "
          f"differences: {bad}")
    sys.exit(1 if bad else 0)


if __name__ == "__main__":
    if len(sys.argv) > 1 and sys.argv[1] == "--driver":
        driver(sys.argv[2], sys.argv[3])
    else:
        main()
