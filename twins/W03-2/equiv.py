"""Differential test for patch_2 (game.py: `_filter_out_coalitions` body moved to the module-level `_take_coalitions`
with the `None` guard turned around, `get_values` reads the bound column after the check, `unset_value` zeroes its
three cells in column order, `set_known_values` no longer returns the `None` of `set_values`).

Run with cwd=/tmp/wt12/W03.  The ORIGINAL package is exported from git HEAD into a temporary directory; the same
workload is run in two separate interpreter processes (original / refactored) and the pickled records are compared
exactly (dtype, shape, bits with equal_nan, exception type and message, order of results).
"""
import os
import pickle
import subprocess
import sys
import tempfile

import numpy as np

WORKTREE = os.getcwd()


# --------------------------------------------------------------------------------------------------------------- worker
def _exc(fn):
    try:
        return ("ok", fn())
    except BaseException as e:  # noqa
        return ("exc", type(e).__name__, str(e))


def _arr(game, x):
    """Array result together with the fact whether it is a view of the table of the game."""
    if isinstance(x, np.ndarray):
        return (x.copy(), bool(np.shares_memory(x, game._values)), x.flags.writeable)
    return x


def _table(game):
    return game._values.copy()


class _Weird:
    """A coalition-like object with an arbitrary id."""

    def __init__(self, id):
        self.id = id


def _getters(game, Coalition, sel):
    """All read accessors on a selection (None, list, generator, tuple)."""
    out = []
    for name in ["get_values", "get_upper_bounds", "get_lower_bounds", "get_intervals", "are_values_known",
                 "get_known_values"]:
        for form in ["list", "gen", "none", "tuple"]:
            if form == "none":
                arg = None
            elif form == "list":
                arg = [Coalition(i) for i in sel]
            elif form == "tuple":
                arg = tuple(Coalition(i) for i in sel)
            else:
                arg = (Coalition(i) for i in sel)
            out.append((name, form, _exc(lambda: _arr(game, getattr(game, name)(arg)))))
    out.append(("filter", _exc(lambda: _arr(game, game._filter_out_coalitions(game._values, [Coalition(i) for i in sel])))))
    out.append(("filter-none", _exc(lambda: game._filter_out_coalitions(game._values, None) is game._values)))
    out.append(("full", game.full, repr(game.are_values_known().tolist())))
    return out


def workload():
    import incomplete_cooperative.bounds as bounds
    import incomplete_cooperative.game as mod_game
    from incomplete_cooperative.coalitions import Coalition, all_coalitions
    from incomplete_cooperative.exploitability import compute_exploitability
    from incomplete_cooperative.generators import factory_generator
    from incomplete_cooperative.icg_gym import ICG_Gym
    from incomplete_cooperative.norms import l1_norm, l2_norm, linf_norm
    from incomplete_cooperative.solvers import SOLVERS
    Game = mod_game.IncompleteCooperativeGame
    records = []
    cases = 0
    keys = ["superadditive", "superadditive_cached", "sam_apx_1", "sam_apx_10"]
    none_computer = [("none", mod_game._none_bounds)]
    # --- random operation histories on the game, every accessor recorded after every operation
    for seed in range(60):
        rng = np.random.default_rng(7000 + seed)
        for n in [3, 4, 2, 5]:
            for key, computer in none_computer + [(k, bounds.BOUNDS[k]) for k in keys]:
                game = Game(n, computer)
                size = 2**n
                w = rng.integers(0, 6, size=n) if seed % 2 else rng.random(n) * 3
                values = np.array([sum(w[i] for i in range(n) if c >> i & 1) ** 2 for c in range(size)], dtype=float)
                rec = [("history", seed, n, key)]
                minimal = [0, size - 1] + [2**i for i in range(n)]
                extra = [int(i) for i in rng.permutation(size)[:int(rng.integers(0, size))]]
                ids = list(dict.fromkeys(minimal + extra))
                order = [int(i) for i in rng.permutation(len(ids))]
                ids = [ids[i] for i in order]
                rec.append(("set_known_values", _exc(lambda: game.set_known_values(
                    (values[i] for i in ids), (Coalition(i) for i in ids))), _table(game)))
                rec.append(("compute", _exc(game.compute_bounds), _table(game)))
                for step in range(8):
                    op = int(rng.integers(0, 9))
                    c = int(rng.integers(0, size))
                    if op == 0:
                        r = _exc(lambda: game.reveal_value(values[c], Coalition(c)))
                    elif op == 1:
                        r = _exc(lambda: game.unreveal_value(Coalition(c)))
                    elif op == 2:
                        r = _exc(lambda: game.unset_value(Coalition(c)))
                    elif op == 3:
                        r = _exc(lambda: game.set_value(values[c], Coalition(c)))
                    elif op == 4:  # unusual ids: numpy integers, negative, out of range, not an index at all
                        weird = [np.int32(c), np.int64(c), -1 - c % 3, size + c, -size - 1, 1.5, "a", None,
                                 [1, 2], slice(0, 2), np.array([0, 1])][int(rng.integers(0, 11))]
                        r = (repr(weird), _exc(lambda: game.unset_value(_Weird(weird))),
                             _exc(lambda: game.unset_value(weird)))
                    elif op == 5:
                        sel = [int(i) for i in rng.integers(0, size, size=int(rng.integers(0, 5)))]
                        r = _exc(lambda: game.set_known_values(game.get_known_values([Coalition(i) for i in sel]),
                                                              [Coalition(i) for i in sel]))
                    elif op == 6:  # arguments that are views of this very game
                        known = [int(i) for i in np.flatnonzero(game.are_values_known())]
                        r = _exc(lambda: game.set_known_values(game.get_values((Coalition(i) for i in known)),
                                                              (Coalition(i) for i in known)))
                    elif op == 7:
                        r = _exc(lambda: game.set_known_values(iter(values)))
                    else:
                        r = ("noop",)
                    rec.append((op, c, r, _table(game)))
                    if rng.random() < 0.7:
                        rec.append(("compute", _exc(game.compute_bounds), _table(game)))
                        rec.append(("compute-again", _exc(game.compute_bounds), _table(game)))
                    sel = [int(i) for i in rng.integers(0, size, size=int(rng.integers(0, 6)))]
                    if step % 3 == 0:
                        sel = sel + [size + 3, -1]  # out of range / negative
                    rec.append(("getters", sel, _getters(game, Coalition, sel)))
                    rec.append(("gaps", [_exc(lambda: f(game)) for f in (compute_exploitability, l1_norm, l2_norm, linf_norm)]))
                neg = _exc(lambda: (-game)._values.copy())
                cp = game.copy()
                rec.append(("neg-copy", neg, cp._values.copy(), cp == game, cp._values is game._values))
                records.append(rec)
                cases += 1
    # --- reveal / un-reveal through the environment, greedy solvers (step + unstep), several bound computers
    for seed in range(12):
        for n in [4, 3, 5]:
            for key in keys[:3] if n == 5 else keys:
                rng = np.random.default_rng(seed)
                game = Game(n, bounds.BOUNDS[key])
                initially = [Coalition(0), Coalition(2**n - 1)] + [Coalition(2**i) for i in range(n)]

                def gen():
                    return factory_generator(n, rng, random_weights=bool(seed % 2))
                env = ICG_Gym(game, gen, initially, compute_exploitability, done_after_n_actions=3 if n == 5 else None)
                for solver_name in ["greedy", "greedy_worst", "largest"]:
                    solver = SOLVERS[solver_name]()
                    obs, info = env.reset()
                    rec = [("env", seed, n, key, solver_name), (obs.copy(), _table(game), env.reward, env.done)]
                    solver.after_reset(env)
                    steps = 0
                    while not env.done and steps < (3 if n == 5 else 6):
                        before = (_table(game), env.state.copy(), env.reward)
                        action = int(solver.next_step(env))
                        after_probe = (_table(game), env.state.copy(), env.reward)
                        rec.append(("probe-restores", same(before, after_probe) is None, before))
                        obs, reward, done, trunc, inf = env.step(action)
                        rec.append(("step", action, obs.copy(), reward, done, trunc, inf, _table(game)))
                        if steps % 2 == 0:
                            r = env.unstep(action)
                            rec.append(("unstep", r[0].copy(), r[1:], _table(game)))
                            r = env.step(action)
                            rec.append(("restep", r[0].copy(), r[1:], _table(game)))
                        steps += 1
                    records.append(rec)
                    cases += 1
    records.append(("cases", cases))
    return records


# --------------------------------------------------------------------------------------------------------------- driver
def same(a, b, path="root"):
    if type(a) is not type(b):
        return f"{path}: type {type(a).__name__} != {type(b).__name__} ({a!r} vs {b!r})"
    if isinstance(a, np.ndarray):
        if a.dtype != b.dtype or a.shape != b.shape:
            return f"{path}: dtype/shape {a.dtype}{a.shape} != {b.dtype}{b.shape}"
        if a.dtype.kind in "fc":
            ok = np.array_equal(a, b, equal_nan=True) and np.array_equal(np.signbit(a), np.signbit(b))
        else:
            ok = np.array_equal(a, b)
        return None if ok else f"{path}: arrays differ\n{a}\n{b}"
    if isinstance(a, (list, tuple)):
        if len(a) != len(b):
            return f"{path}: len {len(a)} != {len(b)}"
        for i, (x, y) in enumerate(zip(a, b)):
            r = same(x, y, f"{path}[{i}]")
            if r:
                return r
        return None
    if isinstance(a, dict):
        if list(a.keys()) != list(b.keys()):
            return f"{path}: keys {list(a)} != {list(b)}"
        for k in a:
            r = same(a[k], b[k], f"{path}[{k!r}]")
            if r:
                return r
        return None
    if isinstance(a, (float, np.floating)):
        ok = (a == b) or (a != a and b != b)
        return None if ok else f"{path}: {a!r} != {b!r}"
    return None if a == b else f"{path}: {a!r} != {b!r}"


def run_worker(root, out):
    env = dict(os.environ, OMP_NUM_THREADS="1", MKL_NUM_THREADS="1", PYTHONDONTWRITEBYTECODE="1", PYTHONHASHSEED="0")
    subprocess.run([sys.executable, os.path.abspath(__file__), "--worker", root, out], check=True, env=env, cwd=root)
    with open(out, "rb") as f:
        return pickle.load(f)


def main():
    if len(sys.argv) > 1 and sys.argv[1] == "--worker":
        sys.path.insert(0, sys.argv[2])
        import incomplete_cooperative
        assert os.path.dirname(os.path.dirname(os.path.abspath(incomplete_cooperative.__file__))) == \
            os.path.abspath(sys.argv[2]), incomplete_cooperative.__file__
        with open(sys.argv[3], "wb") as f:
            pickle.dump(workload(), f)
        return 0
    with tempfile.TemporaryDirectory(prefix="equiv_W03_") as tmp:
        orig_root = os.path.join(tmp, "orig")
        os.makedirs(orig_root)
        archive = subprocess.run(["git", "-C", WORKTREE, "archive", "HEAD", "incomplete_cooperative"],
                                 check=True, capture_output=True).stdout
        subprocess.run(["tar", "-x", "-C", orig_root], input=archive, check=True)
        res_orig = run_worker(orig_root, os.path.join(tmp, "orig.pkl"))
        res_new = run_worker(WORKTREE, os.path.join(tmp, "new.pkl"))
    if len(res_orig) != len(res_new):
        print("DIFFERENT: number of records", len(res_orig), len(res_new))
        return 1
    for i, (a, b) in enumerate(zip(res_orig, res_new)):
        r = same(a, b, f"record[{i}]")
        if r:
            print("DIFFERENT")
            print("first counterexample:", a[0] if isinstance(a, (list, tuple)) else a)
            print(r)
            return 1
    print(f"EQUIVALENT ({res_orig[-1][1]} cases, {len(res_orig)} records)")
    return 0


if __name__ == "__main__":
    sys.exit(main())
