"""Differential test for refactoring 3 (exploitability.py / norms.py: lambda -> named inner function, reordered independent
statements with a cached local, redundant `1 if .. else 0` dropped, named intermediate for the interval widths).

Run with cwd=/tmp/wt10/U01.  Loads the ORIGINAL package from `git show HEAD:` into a temporary directory and the refactored
one from the worktree, drives both with identical operation sequences and compares the whole value table exactly.
"""
import atexit
import importlib
import io
import os
import shutil
import subprocess
import sys
import tarfile
import tempfile
import traceback

import numpy as np

WT = os.getcwd()
PKG = "incomplete_cooperative"
MODULES = ["bounds", "game", "coalitions", "coalition_ids", "functoolz", "norms", "exploitability", "protocols"]


def _purge():
    for name in [m for m in sys.modules if m == PKG or m.startswith(PKG + ".")]:
        del sys.modules[name]


def load_pkg(root):
    """Import the package that lives in `root` and return a namespace of its modules."""
    _purge()
    sys.path.insert(0, root)
    try:
        ns = {m: importlib.import_module(f"{PKG}.{m}") for m in MODULES}
        for mod in ns.values():
            assert os.path.realpath(mod.__file__).startswith(os.path.realpath(root)), mod.__file__
    finally:
        sys.path.remove(root)
        _purge()
    return ns


def original_tree():
    tmp = tempfile.mkdtemp(prefix="U01_orig_pkg_")
    atexit.register(shutil.rmtree, tmp, ignore_errors=True)
    data = subprocess.run(["git", "-C", WT, "archive", "HEAD", PKG], check=True, capture_output=True).stdout
    with tarfile.open(fileobj=io.BytesIO(data)) as tar:
        tar.extractall(tmp)
    return tmp


def superadditive_table(rng, n, integer):
    """A random superadditive game as a value vector indexed by coalition id."""
    size = 2 ** n
    v = np.zeros(size)
    order = sorted(range(1, size), key=lambda c: bin(c).count("1"))
    for c in order:
        best = 0.0
        sub = (c - 1) & c
        while sub:
            best = max(best, v[sub] + v[c ^ sub])
            sub = (sub - 1) & c
        inc = float(rng.integers(0, 6)) if integer else float(rng.random() * 3)
        v[c] = best + inc
    return v


def arbitrary_table(rng, n, integer):
    size = 2 ** n
    v = rng.integers(-5, 20, size).astype(float) if integer else rng.normal(size=size) * 7
    v[0] = 0
    return v


def outcome(fn):
    try:
        return ("ok", fn())
    except BaseException as e:  # noqa
        return ("exc", type(e).__name__, str(e))


def same(a, b):
    if a[0] != b[0]:
        return False
    if a[0] == "exc":
        return a == b
    x, y = a[1], b[1]
    if x is None or y is None:
        return x is None and y is None
    x, y = np.asarray(x), np.asarray(y)
    return x.dtype == y.dtype and x.shape == y.shape and np.array_equal(x, y, equal_nan=True)



def gym_trace(ns, n, seed, bounds_name, gap_name):
    """Drive the gym environment (reset / step / unstep) and record everything it returns."""
    import importlib
    C = ns["coalitions"].Coalition
    G = ns["game"].IncompleteCooperativeGame
    rng = np.random.default_rng([seed, n, 99])
    tables = [superadditive_table(rng, n, k % 2 == 0) for k in range(3)]
    counter = [0]

    def generator():
        g = G(n)
        g.set_values(tables[counter[0] % len(tables)])
        counter[0] += 1
        return g
    gaps = {"l1": ns["norms"].l1_norm, "l2": ns["norms"].l2_norm, "linf": ns["norms"].linf_norm,
            "expl": ns["exploitability"].compute_exploitability}
    minimal = list(ns["coalitions"].minimal_game_coalitions(n))
    env = ns["icg_gym"].ICG_Gym(G(n, ns["bounds"].BOUNDS[bounds_name]), generator, minimal, gaps[gap_name])
    out = []
    for episode in range(2):
        state, _ = env.reset()
        out.append(np.array(state))
        taken = []
        for _ in range(len(env.explorable_coalitions)):
            mask = env.action_masks()
            out.append(mask.copy())
            if not mask.any():
                break
            if taken and rng.random() < 0.25:
                a = taken.pop(int(rng.integers(0, len(taken))))
                res = env.unstep(a)
            else:
                a = int(rng.choice(np.flatnonzero(mask)))
                taken.append(a)
                res = env.step(a)
            out.append(np.array(res[0]))
            out.append(np.array([res[1], float(res[2]), float(res[3]), res[4]["chosen_coalition"]]))
            out.append(env.incomplete_game._values.copy())
    return out



ORDS = [None, 1, 2, np.inf, -np.inf, 0, 3, 0.5, -1, 2.5, "fro", "nuc"]
FORMS = ["list", "gen", "tuple", "objarr", "npint", "bad"]


def coals(C, ids, form):
    if ids is None:
        return None
    if form == "list":
        return [C(int(i)) for i in ids]
    if form == "gen":
        return (C(int(i)) for i in ids)
    if form == "tuple":
        return tuple(C(int(i)) for i in ids)
    if form == "npint":
        return [C(np.int32(i)) for i in ids]
    if form == "objarr":
        arr = np.empty(len(ids), dtype=object)
        for k, i in enumerate(ids):
            arr[k] = C(int(i))
        return arr
    if form == "bad":
        return [int(i) for i in ids]
    raise AssertionError(form)


def probe(ns, g, rng_seed):
    """Everything observable from the touched code on game `g` (a list of outcomes)."""
    rng = np.random.default_rng(rng_seed)
    C = ns["coalitions"].Coalition
    E, N = ns["exploitability"], ns["norms"]
    n = g.number_of_players
    size = 2 ** n
    out = []
    before = g._values.copy()
    out.append(outcome(lambda: E.compute_exploitability(g)))
    for ord_ in ORDS:
        out.append(outcome(lambda: N.lp_norm(g, ord_)))
    out.append(outcome(lambda: N.lp_norm(g)))
    for f in (N.l1_norm, N.l2_norm, N.linf_norm):
        out.append(outcome(lambda: f(g)))
        out.append(outcome(lambda: f(g, ord=3)))
        out.append(outcome(lambda: (f.func.__name__, f.args, dict(f.keywords))[2]["ord"]))
    for player in list(range(n)) + [n, n + 3, -1, np.int64(0), 0.5, True]:
        mg = outcome(lambda: E.MaxGainGame(g, player))
        if mg[0] == "exc":
            out.append(mg)
            continue
        mg = mg[1]
        out.append(("ok", mg._player_mask))
        out.append(outcome(lambda: mg.number_of_players))
        out.append(outcome(lambda: mg.get_values()))
        for _ in range(3):
            ids = rng.integers(0, size, int(rng.integers(0, size + 1))).tolist()
            form = str(rng.choice(FORMS))
            out.append(outcome(lambda: mg.get_values(coals(C, ids, form))))
        for c in rng.integers(0, size, 3).tolist():
            out.append(outcome(lambda: mg.get_value(C(int(c)))))
        out.append(outcome(lambda: ns["shapley"].compute_shapley_value_for_player(player, mg)))
    out.append(("ok", g._values.copy()))
    assert np.array_equal(before, g._values, equal_nan=True)
    return out


def states(ns, n, seed, bounds_name):
    """Yield a sequence of game states: reveal sequences with recomputation, un-reveals, poisoned bound columns."""
    C = ns["coalitions"].Coalition
    G = ns["game"].IncompleteCooperativeGame
    rng = np.random.default_rng([seed, n, 5])
    size = 2 ** n
    table = superadditive_table(rng, n, seed % 2 == 0) if seed % 4 else arbitrary_table(rng, n, seed % 2 == 0)
    g = G(n, ns["bounds"].BOUNDS[bounds_name]) if bounds_name else G(n)
    yield "fresh", g
    minimal = [0, size - 1] + [2 ** i for i in range(n)]
    g.set_known_values([table[i] for i in minimal], [C(i) for i in minimal])
    yield "minimal-nocompute", g
    g.compute_bounds()
    yield "minimal", g
    order = [c for c in rng.permutation(size).tolist() if c not in minimal]
    for k, c in enumerate(order):
        g.reveal_value(table[c], C(c))
        g.compute_bounds()
        if n <= 3 or k % 3 == 0 or k == len(order) - 1:
            yield f"reveal{k}", g
    if order:
        g.unreveal_value(C(order[0]))
        g.compute_bounds()
        yield "unreveal", g
    g.unreveal_value(C(size - 1))  # grand coalition unknown: compute_exploitability must fail identically
    yield "no-grand", g
    h = G(n)
    h._values[:, 1] = rng.normal(size=size)
    h._values[:, 2] = rng.normal(size=size)
    h._values[:, 0] = rng.integers(0, 2, size)
    h._values[size - 1, 0] = 1
    yield "garbage", h
    h = h.copy()
    h._values[rng.integers(0, size), 2] = np.inf
    yield "inf", h
    h = h.copy()
    h._values[rng.integers(0, size), 1] = np.nan
    yield "nan", h
    full = G(n)
    full.set_values(table)
    yield "full", full


def main():
    MODULES.extend(["icg_gym", "normalize", "shapley"])
    orig = load_pkg(original_tree())
    new = load_pkg(WT)
    assert orig["exploitability"].__file__ != new["exploitability"].__file__
    names = [None] + list(new["bounds"].BOUNDS)
    cases = comparisons = exceptions = 0
    for name in names:
        if name in ("sam_apx_1000", "sam_apx_100"):
            plan = [(2, 2), (3, 2)]
        else:
            plan = [(1, 2), (2, 4), (3, 8), (4, 5), (5, 1)]
        for n, seeds in plan:
            for seed in range(seeds):
                sa, sb = states(orig, n, seed, name), states(new, n, seed, name)
                for (la, ga), (lb, gb) in zip(sa, sb):
                    assert la == lb
                    if not np.array_equal(ga._values, gb._values, equal_nan=True):
                        print("DIFFERENT\nstate tables differ", name, n, seed, la)
                        return 1
                    pa, pb = probe(orig, ga, [seed, n, 3]), probe(new, gb, [seed, n, 3])
                    cases += 1
                    if len(pa) != len(pb):
                        print("DIFFERENT\nnumber of records", name, n, seed, la, len(pa), len(pb))
                        return 1
                    for k, (x, y) in enumerate(zip(pa, pb)):
                        comparisons += 1
                        exceptions += x[0] == "exc"
                        if not same(x, y) or (x[0] == "ok" and type(x[1]) is not type(y[1])):
                            print("DIFFERENT")
                            print("bounds:", name, "n:", n, "seed:", seed, "state:", la, "record:", k)
                            print("original  :", x)
                            print("refactored:", y)
                            print("table:", ga._values.tolist())
                            return 1
    for bounds_name in ["superadditive", "superadditive_cached", "sam_apx_1", "sam_apx_10"]:
        for gap_name in ["l1", "l2", "linf", "expl"]:
            for n, seeds in [(3, 6), (4, 6), (5, 2)]:
                for seed in range(seeds):
                    ta = outcome(lambda: gym_trace(orig, n, seed, bounds_name, gap_name))
                    tb = outcome(lambda: gym_trace(new, n, seed, bounds_name, gap_name))
                    cases += 1
                    if ta[0] != tb[0] or (ta[0] == "exc" and ta != tb) or len(ta[1]) != len(tb[1]):
                        print("DIFFERENT\ngym", bounds_name, gap_name, n, seed, ta if ta[0] == "exc" else "", tb if tb[0] == "exc" else "")
                        return 1
                    if ta[0] == "exc":
                        print("DIFFERENT (harness: gym trace raised)", ta)
                        return 1
                    for k, (x, y) in enumerate(zip(ta[1], tb[1])):
                        comparisons += 1
                        if not same(("ok", x), ("ok", y)):
                            print("DIFFERENT\ngym", bounds_name, gap_name, "n:", n, "seed:", seed, "record:", k, x, y)
                            return 1
    print(f"EQUIVALENT ({cases} game states / gym traces, {comparisons} exact comparisons, "
          f"of which {exceptions} compared identical exceptions; gap functions: exploitability, l1, l2, linf, lp_norm with {len(ORDS)} orders)")
    return 0


if __name__ == "__main__":
    try:
        sys.exit(main())
    except SystemExit:
        raise
    except BaseException:  # noqa
        traceback.print_exc()
        print("DIFFERENT (harness error)")
        sys.exit(1)
