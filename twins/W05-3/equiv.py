"""Differential test for refactoring 3 (icg_gym.py: the `done` property is split into three predicate methods, the None guard is an early return).

Run with cwd=/tmp/wt12/W05.  The ORIGINAL package is exported from git HEAD into a temporary directory; the original and the
refactored package are each exercised in their own interpreter (both are imported as `incomplete_cooperative`, so absolute and
relative imports resolve inside the same tree) and the recorded results are compared bit for bit.
"""
import os
import pickle
import shutil
import struct
import subprocess
import sys
import tempfile
import warnings

WORKTREE = os.path.abspath(os.getcwd())


# ----------------------------------------------------------------------------------------------------------- canonical form
def canon(x):
    """Turn a result into a picklable structure that compares bit for bit."""
    import numpy as np
    if isinstance(x, BaseException):
        return ("EXC", type(x).__name__, str(x))
    if isinstance(x, np.ndarray):
        if x.dtype == object:
            return ("ndo", x.shape, [canon(y) for y in x.ravel().tolist()])
        return ("nd", x.dtype.str, x.shape, np.ascontiguousarray(x).tobytes())
    if isinstance(x, np.generic):
        return ("ng", x.dtype.str, x.tobytes())
    if isinstance(x, bool) or x is None or isinstance(x, (int, str, bytes)):
        return (type(x).__name__, x)
    if isinstance(x, float):
        return ("float", struct.pack("<d", x))
    if isinstance(x, (tuple, list)):
        return (type(x).__name__, [canon(y) for y in x])
    if isinstance(x, dict):
        return ("dict", [(canon(k), canon(v)) for k, v in x.items()])
    name = type(x).__name__
    if name == "Coalition":
        return ("Coalition", x.id)
    if name == "IncompleteCooperativeGame":
        return ("ICG", x.number_of_players, canon(x._values))
    if name == "GraphCooperativeGame":
        return ("GG", x.number_of_players, canon(x._graph_matrix))
    return ("obj", type(x).__module__, name)


class Recorder:
    """Collect labelled results, exceptions and warnings."""

    def __init__(self):
        self.records = []

    def call(self, label, fn):
        with warnings.catch_warnings(record=True) as caught:
            warnings.simplefilter("always")
            try:
                result = canon(fn())
            except Exception as e:  # noqa
                result = canon(e)
        warns = [(w.category.__name__, str(w.message)) for w in caught]
        self.records.append((label, result, warns))


# ------------------------------------------------------------------------------------------------------------------- worker
def reseed_module_generator(generators, seed):
    """`graph_generator` draws from a module-level generator: put it into a known state (in place: it is bound in partials)."""
    import numpy as np
    generators._gen.bit_generator.state = np.random.default_rng(seed).bit_generator.state


def worker(out_path):
    import numpy as np
    import incomplete_cooperative
    assert os.path.abspath(incomplete_cooperative.__file__).startswith(os.path.abspath(os.getcwd()) + os.sep), \
        incomplete_cooperative.__file__
    import incomplete_cooperative.generators as G
    from incomplete_cooperative.bounds import BOUNDS
    from incomplete_cooperative.coalitions import Coalition, minimal_game_coalitions
    from incomplete_cooperative.game import IncompleteCooperativeGame
    from incomplete_cooperative.icg_gym import ICG_Gym
    from incomplete_cooperative.icg_gym_linear import ICG_Gym_Linear
    from incomplete_cooperative.run.model import GAP_FUNCTIONS, ModelInstance
    from incomplete_cooperative.solvers.greedy import GreedySolver
    from incomplete_cooperative.solvers.largest_coalition import LargestSolver
    from incomplete_cooperative.solvers.random import RandomSolver

    rec = Recorder()
    case = 0

    def snapshot(env):
        """Everything the property statement talks about, and the type of `done`."""
        done = env.done
        return (env.state, env.reward, done, type(done).__name__, env.action_masks(), env.steps_taken,
                env.incomplete_game._values.copy(), env.full_game, env.normalized_game,
                env.initially_known_coalitions, env.explorable_coalitions)

    generator_names = ["factory", "factory_square", "noisy_factory", "factory_cheerleader_next", "xos", "xs", "xs3",
                       "k_budget_generator", "covg_fn_generator", "graph_cycle", "graph_random", "graph", "graph_poiss_1"]
    budgets = [None, 0, 1, 2, 3, 1000, -1, np.int64(2), 2.5, True]
    for n in (3, 4, 5):
        for gname in generator_names:
            for bname in BOUNDS:
                if bname == "sam_apx_1000" or (bname == "sam_apx_100" and n == 5) or (bname == "superadditive" and n == 5):
                    continue
                for gapname in GAP_FUNCTIONS:
                    case += 1
                    if (case + n) % 3 and n > 3:       # thin out the larger games: still every combination at n=3
                        continue
                    budget = budgets[case % len(budgets)]
                    reseed_module_generator(G, case)
                    gen_rng = np.random.default_rng(case)
                    act_rng = np.random.default_rng(case + 1)
                    incomplete = IncompleteCooperativeGame(n, BOUNDS[bname])
                    label = f"case {case} n={n} gen={gname} bounds={bname} gap={gapname} budget={budget!r}"
                    holder = []
                    extra = [Coalition(int(c)) for c in act_rng.integers(0, 2**n, int(act_rng.integers(0, 3)))]
                    known = list(minimal_game_coalitions(incomplete)) + extra
                    rec.call(label + " init", lambda: holder.append(ICG_Gym(
                        incomplete, lambda: G.GENERATORS[gname](n, gen_rng), known, GAP_FUNCTIONS[gapname],
                        done_after_n_actions=budget)) or 0)
                    if not holder:
                        continue
                    env = holder[0]
                    rec.call(label + " after init", lambda: snapshot(env))
                    for episode in range(2):
                        rec.call(label + f" reset {episode}", lambda: env.reset(seed=episode))
                        rec.call(label + f" after reset {episode}", lambda: snapshot(env))
                        taken = []
                        for t in range(len(env.explorable_coalitions) + 2):
                            valid = np.flatnonzero(env.action_masks())
                            move = int(act_rng.integers(0, 10))
                            if move == 0 and taken:                       # undo
                                action = taken.pop(int(act_rng.integers(len(taken))))
                                rec.call(label + f" ep {episode} t {t} unstep {action}", lambda: env.unstep(action))
                            elif move == 1:                                # invalid: already known or out of range
                                known_positions = np.flatnonzero(~env.action_masks())
                                action = int(act_rng.choice(known_positions)) if len(known_positions) and t % 2 \
                                    else len(env.explorable_coalitions) + int(act_rng.integers(0, 3))
                                rec.call(label + f" ep {episode} t {t} invalid step {action}", lambda: env.step(action))
                            elif move == 2 and len(valid):                 # invalid unstep of an unknown coalition
                                action = int(act_rng.choice(valid))
                                rec.call(label + f" ep {episode} t {t} invalid unstep {action}",
                                         lambda: env.unstep(action))
                            elif len(valid):
                                action = int(act_rng.choice(valid))
                                taken.append(action)
                                rec.call(label + f" ep {episode} t {t} step {action}", lambda: env.step(action))
                            else:
                                break
                            rec.call(label + f" ep {episode} t {t} snapshot", lambda: snapshot(env))
                            # the three reasons taken apart by hand, straight from the statement of the property
                            rec.call(label + f" ep {episode} t {t} done again", lambda: (env.done, env.done))

    # --- budgets that make the comparison fail, or that are no numbers
    for budget in ("3", [1], object(), np.array([1, 2]), np.nan, float("inf")):
        case += 1
        incomplete = IncompleteCooperativeGame(4, BOUNDS["superadditive_cached"])
        gen_rng = np.random.default_rng(case)
        label = f"case {case} odd budget {type(budget).__name__}"
        holder = []
        rec.call(label + " init", lambda: holder.append(ICG_Gym(
            incomplete, lambda: G.GENERATORS["noisy_factory"](4, gen_rng), minimal_game_coalitions(incomplete),
            GAP_FUNCTIONS["l2_norm"], done_after_n_actions=budget)) or 0)
        if holder:
            rec.call(label + " done", lambda: (holder[0].done, type(holder[0].done).__name__))
            rec.call(label + " step", lambda: holder[0].step(1))
            holder[0].done_after_n_actions = None
            rec.call(label + " run", lambda: [holder[0].step(a) for a in range(2, len(holder[0].explorable_coalitions))])
            holder[0].done_after_n_actions = budget
            rec.call(label + " done at the end", lambda: (holder[0].done, type(holder[0].done).__name__))

    # --- a gap function / bounds computer leaving infinite or nan bounds: the degenerate-interval test sees them
    def wild_bounds(game):
        unknown = ~game.are_values_known()
        lower = np.where(unknown, -np.inf, game.get_lower_bounds())
        upper = np.where(unknown, np.inf, game.get_upper_bounds())
        upper[unknown & (np.arange(len(upper)) % 3 == 0)] = -np.inf      # inf - inf = nan
        game.set_lower_bounds(lower)
        game.set_upper_bounds(upper)
    for n in (3, 4):
        case += 1
        incomplete = IncompleteCooperativeGame(n, wild_bounds)
        gen_rng = np.random.default_rng(case)
        env = ICG_Gym(incomplete, lambda: G.GENERATORS["factory"](n, gen_rng), minimal_game_coalitions(incomplete),
                      GAP_FUNCTIONS["linf_norm"])
        for a in range(len(env.explorable_coalitions)):
            rec.call(f"case {case} wild n={n} step {a}", lambda: env.step(a))
            rec.call(f"case {case} wild n={n} snapshot {a}", lambda: snapshot(env))

    # --- the linear wrapper, the model instance and the solvers read `done`
    for n in (3, 4, 5):
        for gapname in GAP_FUNCTIONS:
            for linear in (False, True):
                for limit in (None, 2):
                    case += 1
                    label = f"case {case} model n={n} gap={gapname} linear={linear} limit={limit}"
                    instance = ModelInstance(number_of_players=n, game_class="superadditive_cached",
                                             game_generator="noisy_factory_square", gap_function=gapname,
                                             run_steps_limit=limit, linear=linear, seed=case)
                    env = instance.get_env()
                    rec.call(label + " reset", env.reset)
                    for t in range(2**n):
                        masks = env.action_masks()
                        if not masks.any():
                            break
                        action = int(np.flatnonzero(masks)[t % int(masks.sum())])
                        rec.call(label + f" t {t} step {action}", lambda: env.step(action))
                        rec.call(label + f" t {t} done", lambda: (env.done, type(env.done).__name__, env.reward))
                        if env.done:
                            break
    for n in (3, 4):
        for solver_cls in (GreedySolver, LargestSolver, RandomSolver):
            for limit in (None, 1, 3):
                case += 1
                label = f"case {case} solver {solver_cls.__name__} n={n} limit={limit}"
                instance = ModelInstance(number_of_players=n, game_class="superadditive_cached",
                                         game_generator="xos3", gap_function="exploitability",
                                         run_steps_limit=limit, seed=case)
                env = instance.get_env()

                def play():
                    solver = solver_cls(instance)
                    trace = []
                    env.reset()
                    solver.after_reset(env)
                    while not env.done:
                        action = solver.next_step(env)
                        trace.append((action, env.step(action)))
                    return trace
                rec.call(label, play)

    rec.call("number of cases", lambda: case)
    with open(out_path, "wb") as f:
        pickle.dump(rec.records, f)


# ------------------------------------------------------------------------------------------------------------------- driver
def export_original(dst):
    """Write the package as of git HEAD into `dst`."""
    files = subprocess.run(["git", "-C", WORKTREE, "ls-tree", "-r", "--name-only", "HEAD", "incomplete_cooperative"],
                           check=True, capture_output=True, text=True).stdout.split("\n")
    for path in filter(None, files):
        target = os.path.join(dst, path)
        os.makedirs(os.path.dirname(target), exist_ok=True)
        with open(target, "wb") as f:
            f.write(subprocess.run(["git", "-C", WORKTREE, "show", f"HEAD:{path}"], check=True, capture_output=True).stdout)


def main():
    tmp = tempfile.mkdtemp(prefix="equiv3_")
    try:
        original = os.path.join(tmp, "original")
        os.makedirs(original)
        export_original(original)
        results = {}
        for name, root in (("original", original), ("refactored", WORKTREE)):
            out = os.path.join(tmp, name + ".pkl")
            env = dict(os.environ, OMP_NUM_THREADS="1", MKL_NUM_THREADS="1", PYTHONPATH=root, PYTHONDONTWRITEBYTECODE="1",
                       PYTHONHASHSEED="0")
            subprocess.run([sys.executable, os.path.abspath(__file__), "--worker", out], cwd=root, env=env, check=True)
            with open(out, "rb") as f:
                results[name] = pickle.load(f)
    finally:
        shutil.rmtree(tmp, ignore_errors=True)
    a, b = results["original"], results["refactored"]
    for ra, rb in zip(a, b):
        if ra != rb:
            print("DIFFERENT")
            print("original:  ", repr(ra)[:2000])
            print("refactored:", repr(rb)[:2000])
            return 1
    if len(a) != len(b):
        print("DIFFERENT: number of records", len(a), len(b))
        return 1
    exceptions = sum(1 for r in a if r[1][0] == "EXC")
    print(f"compared {len(a)} records ({exceptions} of them exceptions, {a[-1][1]} cases)")
    print("EQUIVALENT")
    return 0


if __name__ == "__main__":
    if len(sys.argv) == 3 and sys.argv[1] == "--worker":
        sys.path.insert(0, os.getcwd())
        worker(sys.argv[2])
    else:
        sys.exit(main())
