"""Differential equivalence check for patch 1 (bounds.py: IntEnum relation codes, np.full, filterfalse, dict union).

Usage: /venv/bin/python equiv_1.py            (driver: exits 0 iff original == refactored)
       /venv/bin/python equiv_1.py --worker OUT   (internal)
The refactored tree is the worktree (override with EQUIV_NEW_ROOT for development).
"""
import hashlib
import os
import pickle
import subprocess
import sys
import tarfile
import tempfile
import io

WORKTREE = "/tmp/wt_x4_X03"
PYTHON = "/venv/bin/python"


def arr(a):
    """Exact, NaN-aware, dtype- and shape-aware description of an array."""
    import numpy as np
    a = np.asarray(a)
    return (str(a.dtype), a.shape, hashlib.sha256(np.ascontiguousarray(a).tobytes()).hexdigest())


def worker(out_path):
    import numpy as np
    import warnings
    warnings.simplefilter("ignore")
    from incomplete_cooperative import bounds
    from incomplete_cooperative.bounds import BOUNDS
    from incomplete_cooperative.coalitions import Coalition, minimal_game_coalitions
    from incomplete_cooperative.game import IncompleteCooperativeGame
    from incomplete_cooperative.run.model import ModelInstance
    import incomplete_cooperative

    assert os.path.dirname(os.path.dirname(incomplete_cooperative.__file__)) == os.environ["EXPECT_ROOT"], \
        incomplete_cooperative.__file__

    out = []

    def rec(tag, fn):
        try:
            r = fn()
            out.append((tag, "ok", r))
        except BaseException as e:  # noqa
            out.append((tag, "exc", type(e).__name__, str(e)))

    # --- registry -------------------------------------------------------------------------------------------------
    out.append(("keys", list(BOUNDS.keys())))
    out.append(("types", [type(v).__name__ for v in BOUNDS.values()]))
    out.append(("partials", [(k, v.func.__module__, v.func.__qualname__, v.args, sorted(v.keywords.items()))
                             for k, v in BOUNDS.items() if hasattr(v, "func")]))
    out.append(("pickled registry", [pickle.dumps(v, protocol=4) for v in BOUNDS.values()]))
    out.append(("public names", sorted(n for n in vars(bounds) if not n.startswith("_")
                                       and n not in ("IntEnum", "filterfalse", "TypeAlias"))))
    out.append(("type(BOUNDS)", type(BOUNDS).__name__))

    def snapshot(game):
        return arr(game._values)

    def structure(n):
        s = bounds._get_sub_super_coalition_structure(n)
        return (type(s).__name__, len(s), [arr(x) for x in s],
                [bool(x.flags.c_contiguous) for x in s], [bool(x.flags.writeable) for x in s])

    def make_game(n, computer, rng, kind, density):
        game = IncompleteCooperativeGame(n, computer)
        size = np.array([bin(i).count("1") for i in range(2**n)])
        if kind == "int":
            vals = (size ** 2 + rng.integers(0, 3, 2**n) * 0).astype(float)  # convex, exact
            vals = vals + np.floor(rng.random(2**n) * 0)  # keep exact
        elif kind == "intrand":
            vals = rng.integers(0, 50, 2**n).astype(float)
        elif kind == "float":
            vals = size ** 1.5 + rng.random(2**n) * 0.1
        else:  # arbitrary, possibly negative
            vals = rng.normal(size=2**n) * 10
        vals[0] = 0
        known = set(minimal_game_coalitions(n))
        for i in range(2**n):
            if rng.random() < density:
                known.add(Coalition(i))
        known = sorted(known, key=lambda c: c.id)
        game.set_known_values(vals[[c.id for c in known]], known)
        return game, vals

    names = ["superadditive", "superadditive_cached", "sam_apx_1", "sam_apx_10"]
    rng = np.random.default_rng(20240603)

    # cached structure before any use, for some n; then interleaved
    for n in (3, 2, 5):
        rec(("structure-first", n), lambda: structure(n))
    out.append(("cache_info", tuple(bounds._get_sub_super_coalition_structure.cache_info())))

    # --- main sweep: interleaved player counts --------------------------------------------------------------------
    order = [2, 3, 4, 5, 3, 6, 2, 4, 7, 5, 3, 4, 6, 2, 5, 4, 3, 8, 4, 5, 3, 6, 4, 2, 7, 3, 5, 4]
    case = 0
    for rep in range(9):
        for n in order:
            if n == 8 and rep > 1:
                continue
            if n == 7 and rep > 3:
                continue
            kind = ["int", "intrand", "float", "normal"][case % 4]
            density = [0.0, 0.15, 0.4, 0.8, 1.0][case % 5]
            seed = int(rng.integers(2**32))
            for name in names:
                if n >= 7 and name == "sam_apx_10":
                    continue
                g, _ = make_game(n, BOUNDS[name], np.random.default_rng(seed), kind, density)
                rec(("bounds", case, n, name, kind, density), lambda: (g.compute_bounds(), snapshot(g))[1])
                # repeated invocation on the same object
                rec(("bounds-again", case, n, name), lambda: (g.compute_bounds(), snapshot(g))[1])
                # reveal something and recompute (history)
                unknown = np.flatnonzero(~g.are_values_known())
                if len(unknown):
                    c = Coalition(int(unknown[case % len(unknown)]))
                    g.reveal_value(float(case % 7), c)
                    rec(("bounds-revealed", case, n, name), lambda: (g.compute_bounds(), snapshot(g))[1])
                    g.unreveal_value(c)
                    rec(("bounds-unrevealed", case, n, name), lambda: (g.compute_bounds(), snapshot(g))[1])
                rec(("pickle game", case, n, name), lambda: pickle.dumps(g, protocol=4))
            case += 1
    out.append(("cases", case))

    # --- exceptional paths ----------------------------------------------------------------------------------------
    for n in (2, 3, 4, 5):
        for name in list(BOUNDS):
            if name in ("sam_apx_100", "sam_apx_1000") and n > 3:
                continue
            # nothing known but the empty coalition
            g = IncompleteCooperativeGame(n, BOUNDS[name])
            rec(("exc-empty", n, name), lambda: (g.compute_bounds(), snapshot(g))[1])
            rec(("exc-empty-state", n, name), lambda: snapshot(g))
            # grand coalition known, singletons unknown
            g = IncompleteCooperativeGame(n, BOUNDS[name])
            g.set_value(10, Coalition(2**n - 1))
            rec(("exc-nosingletons", n, name), lambda: (g.compute_bounds(), snapshot(g))[1])
            rec(("exc-nosingletons-state", n, name), lambda: snapshot(g))
            # one singleton missing
            g = IncompleteCooperativeGame(n, BOUNDS[name])
            g.set_value(10, Coalition(2**n - 1))
            for i in range(1, n):
                g.set_value(1, Coalition(2**i))
            rec(("exc-onesingleton", n, name), lambda: (g.compute_bounds(), snapshot(g))[1])
            rec(("exc-onesingleton-state", n, name), lambda: snapshot(g))
            # empty coalition unset
            g = IncompleteCooperativeGame(n, BOUNDS[name])
            g.set_value(10, Coalition(2**n - 1))
            g.unset_value(Coalition(0))
            rec(("exc-noempty", n, name), lambda: (g.compute_bounds(), snapshot(g))[1])
            # full game: nothing to do
            g = IncompleteCooperativeGame(n, BOUNDS[name])
            g.set_values(np.arange(2**n, dtype=float))
            rec(("full", n, name), lambda: (g.compute_bounds(), snapshot(g))[1])
            # NaN / inf values
            g = IncompleteCooperativeGame(n, BOUNDS[name])
            known = list(minimal_game_coalitions(n))
            vals = np.arange(len(known), dtype=float)
            vals[-1] = np.nan
            vals[1] = np.inf
            g.set_known_values(vals, known)
            rec(("naninf", n, name), lambda: (g.compute_bounds(), snapshot(g))[1])

    # structure helper itself: bad arguments, cache identity
    for bad in (0, 1, -1, 2.0, "3", None, True):
        rec(("structure-bad", repr(bad)), lambda: structure(bad))
    for n in range(2, 9):
        rec(("structure", n), lambda: structure(n))
        rec(("structure-identity", n), lambda: all(
            a is b for a, b in zip(bounds._get_sub_super_coalition_structure(n),
                                   bounds._get_sub_super_coalition_structure(n))))
    out.append(("cache_info-end", tuple(bounds._get_sub_super_coalition_structure.cache_info())))

    # --- through the model registry -------------------------------------------------------------------------------
    for gc in BOUNDS:
        for n in (3, 4):
            for seed in (1, 2, 3):
                def run():
                    inst = ModelInstance(number_of_players=n, game_class=gc, seed=seed, run_steps_limit=4,
                                         unique_name="u")
                    env = inst.get_env()
                    res = [snapshot(env.incomplete_game), arr(env.state), pickle.dumps(env.reward)]
                    for _ in range(3):
                        masks = env.action_masks()
                        a = int(np.flatnonzero(masks)[0])
                        s, r, d, t, info = env.step(a)
                        res.append((arr(s), pickle.dumps(r), d, t, info, snapshot(env.incomplete_game)))
                    env.reset()
                    res.append(snapshot(env.incomplete_game))
                    return res
                rec(("model", gc, n, seed), run)
    rec(("model-badclass",), lambda: ModelInstance(game_class="nope").get_env())

    with open(out_path, "wb") as f:
        pickle.dump(out, f, protocol=4)


def main():
    with tempfile.TemporaryDirectory(prefix="equiv1_") as tmp:
        orig = os.path.join(tmp, "orig")
        os.mkdir(orig)
        data = subprocess.run(["git", "archive", "HEAD", "incomplete_cooperative"], cwd=WORKTREE,
                              check=True, capture_output=True).stdout
        tarfile.open(fileobj=io.BytesIO(data)).extractall(orig)
        outs = {}
        procs = {}
        for name, root in (("orig", orig), ("new", os.environ.get("EQUIV_NEW_ROOT", WORKTREE))):
            env = dict(os.environ, PYTHONPATH=root, EXPECT_ROOT=root, PYTHONHASHSEED="0", OMP_NUM_THREADS="1",
                       PYTHONDONTWRITEBYTECODE="1")
            outs[name] = os.path.join(tmp, name + ".pkl")
            procs[name] = subprocess.Popen([PYTHON, os.path.abspath(__file__), "--worker", outs[name]],
                                           env=env, cwd=tmp)
        for name, p in procs.items():
            if p.wait() != 0:
                print(f"worker {name} failed")
                return 2
        a = open(outs["orig"], "rb").read()
        b = open(outs["new"], "rb").read()
        ra, rb = pickle.loads(a), pickle.loads(b)
        n_exc = sum(1 for x in ra if len(x) > 1 and x[1] == "exc")
        print(f"records: {len(ra)} vs {len(rb)}; exceptional outcomes in original: {n_exc}")
        if len(ra) != len(rb):
            print("DIFFERENT number of records")
            return 1
        bad = 0
        for x, y in zip(ra, rb):
            if pickle.dumps(x, protocol=4) != pickle.dumps(y, protocol=4):
                bad += 1
                if bad <= 10:
                    print("DIFF", x[0], "\n   orig:", repr(x[1:])[:300], "\n   new: ", repr(y[1:])[:300])
        if bad or a != b:
            print(f"{bad} differing records; byte-equal pickles: {a == b}")
            return 1
        print("IDENTICAL")
        return 0


if __name__ == "__main__":
    if len(sys.argv) > 2 and sys.argv[1] == "--worker":
        worker(sys.argv[2])
    else:
        sys.exit(main())
