#!/venv/bin/python
"""Differential equivalence check for patch_1 (bounds.py: relation codes as IntEnum, np.full, dict union).

Runs the same deterministic driver against the ORIGINAL package (git archive HEAD) and against the
worktree (patch applied), each in its own interpreter, and compares the pickled, normalised outcomes
byte for byte.  Exit status 0 iff identical.
"""
import os
import pickle
import subprocess
import sys
import tempfile

WT = "/tmp/wt_x4_X01"
PY = "/venv/bin/python"
TOUCHED = ['incomplete_cooperative/bounds.py']

COMMON = r'''
import enum, pickle, sys
import numpy as np

def norm(x):
    """Turn a value into a plain, bit-exact, pickle-stable structure."""
    from incomplete_cooperative.coalitions import Coalition
    if isinstance(x, BaseException):
        return ("exc", type(x).__name__, str(x))
    if isinstance(x, np.ndarray):
        if x.dtype == object:
            return ("ndo", x.shape, [norm(y) for y in x.ravel().tolist()])
        return ("nd", x.dtype.str, x.shape, np.ascontiguousarray(x).tobytes())
    if isinstance(x, np.generic):
        return ("ng", x.dtype.str, x.tobytes())
    if isinstance(x, enum.Enum):
        return ("enum", type(x).__name__, x.name)
    if isinstance(x, Coalition):
        return ("C", norm(x.id))
    if isinstance(x, bool) or x is None or isinstance(x, (int, str, bytes)):
        return (type(x).__name__, x)
    if isinstance(x, float):
        return ("float", x.hex())
    if isinstance(x, (list, tuple)):
        return (type(x).__name__, [norm(y) for y in x])
    if isinstance(x, dict):
        return ("dict", [(norm(k), norm(v)) for k, v in x.items()])
    if isinstance(x, (set, frozenset)):
        return (type(x).__name__, sorted(repr(norm(y)) for y in x))
    return ("obj", type(x).__module__, type(x).__qualname__)

RESULTS = []

def rec(label, thunk):
    try:
        value = thunk()
    except BaseException as e:  # noqa
        value = e
    RESULTS.append((label, norm(value)))

def finish():
    import incomplete_cooperative
    expected_root = sys.argv[2]
    assert incomplete_cooperative.__file__.startswith(expected_root + "/"), (incomplete_cooperative.__file__, expected_root)
    with open(sys.argv[1], "wb") as f:
        pickle.dump(RESULTS, f, protocol=4)
    print("driver:", len(RESULTS), "records from", expected_root)
'''

DRIVER = COMMON + r'''
from functools import partial
from incomplete_cooperative import bounds as B
from incomplete_cooperative.game import IncompleteCooperativeGame
from incomplete_cooperative.coalitions import Coalition

# ---- A. the per-n relation table -------------------------------------------------------------
for n in range(0, 9):
    rec(("structure", n), lambda: B._get_sub_super_coalition_structure(n))
    rec(("structure-cached-identity", n), lambda: all(
        a is b for a, b in zip(B._get_sub_super_coalition_structure(n), B._get_sub_super_coalition_structure(n))))
rec(("structure", "bad"), lambda: B._get_sub_super_coalition_structure(-1))
rec(("structure", "np.int64"), lambda: B._get_sub_super_coalition_structure(np.int64(3)))

# ---- B. the registry and importable names ----------------------------------------------------
rec("bounds-keys", lambda: list(B.BOUNDS.keys()))
rec("bounds-type", lambda: type(B.BOUNDS).__name__)
for name, fn in B.BOUNDS.items():
    if isinstance(fn, partial):
        rec(("registry", name), lambda: ("partial", fn.func.__module__, fn.func.__qualname__, fn.args, dict(fn.keywords)))
    else:
        rec(("registry", name), lambda: ("function", fn.__module__, fn.__qualname__))
    rec(("registry-pickle", name), lambda: pickle.dumps(fn, protocol=4))
for public in ["compute_bounds_superadditive", "compute_bounds_superadditive_cached",
               "compute_bounds_superadditive_monotone_approx_cached", "BOUNDS", "_get_sub_super_coalition_structure",
               "CoalitionId", "get_all_coalitions", "get_size", "get_sub_coalitions_id", "get_super_coalitions_id",
               "Coalition", "all_coalitions", "get_sub_coalitions", "get_super_coalitions",
               "BoundableIncompleteGame", "GameBoundsComputer", "cache", "partial", "Any", "np"]:
    rec(("name", public), lambda: hasattr(B, public))

# ---- C. games, knowledge sets, histories ------------------------------------------------------
def superadditive_values(n, kind, rng):
    """Values of a superadditive game (closure of random values), v(empty) = 0."""
    size = 2**n
    if kind == "int":
        raw = rng.integers(0, 12, size).astype(float)
    elif kind == "dyadic":
        raw = rng.integers(-16, 64, size) / 8.0
    elif kind == "float":
        raw = rng.uniform(0, 3, size) * 0.1
    elif kind == "negative":
        raw = rng.normal(-1.0, 2.0, size)
    else:
        raise AssertionError(kind)
    v = raw.copy()
    v[0] = 0.0
    order = sorted(range(size), key=lambda s: bin(s).count("1"))
    for s in order:
        t = (s - 1) & s
        while t:
            cand = v[t] + v[s ^ t]
            if cand > v[s]:
                v[s] = cand
            t = (t - 1) & s
    return v

def arbitrary_values(n, rng):
    v = rng.normal(0, 5, 2**n)
    v[0] = 0
    return v

def minimal(n):
    return {0, 2**n - 1} | {2**i for i in range(n)}

def knowledge(n, p, rng):
    extra = {int(s) for s in range(2**n) if rng.random() < p}
    return sorted(minimal(n) | extra)

def table(game):
    return game._values.copy()

def run_history(tag, n, values, name, rng, steps):
    full = IncompleteCooperativeGame(n)
    full.set_values(values)
    game = IncompleteCooperativeGame(n, B.BOUNDS[name])
    known = knowledge(n, rng.choice([0.0, 0.2, 0.5, 0.8, 1.0]), rng)
    coalitions = [Coalition(s) for s in known]
    rec((tag, "reset0"), lambda: game.set_known_values(full.get_values(coalitions), coalitions))
    rec((tag, "compute0"), lambda: (game.compute_bounds(), table(game))[1])
    for step in range(steps):
        op = rng.integers(0, 5)
        if op == 0:
            unknown = np.flatnonzero(~game.are_values_known())
            if len(unknown):
                s = int(rng.choice(unknown))
                rec((tag, step, "reveal", s), lambda: game.reveal_value(full.get_value(Coalition(s)), Coalition(s)))
        elif op == 1:
            cands = [int(s) for s in np.flatnonzero(game.are_values_known()) if int(s) not in minimal(n)]
            if cands:
                s = int(rng.choice(cands))
                rec((tag, step, "unreveal", s), lambda: game.unreveal_value(Coalition(s)))
        elif op == 2:
            known = knowledge(n, rng.choice([0.0, 0.3, 0.6]), rng)
            coalitions = [Coalition(s) for s in known]
            rec((tag, step, "reset"), lambda: game.set_known_values(full.get_values(coalitions), coalitions))
        elif op == 3:
            rec((tag, step, "compute-twice"), lambda: (game.compute_bounds(), game.compute_bounds(), table(game))[2])
        rec((tag, step, "compute"), lambda: (game.compute_bounds(), table(game))[1])
        rec((tag, step, "views"), lambda: (game.get_lower_bounds(), game.get_upper_bounds(), game.are_values_known()))
    rec((tag, "pickle"), lambda: pickle.dumps(game, protocol=4))

count = 0
for n in range(2, 7):
    seeds = {2: 20, 3: 20, 4: 16, 5: 10, 6: 3}[n]
    for kind in ["int", "dyadic", "float", "negative", "arbitrary"]:
        for seed in range(seeds):
            for name in ["superadditive", "superadditive_cached", "sam_apx_1", "sam_apx_10"]:
                if name == "sam_apx_10" and n > 4:
                    continue
                if name == "superadditive" and n == 6 and seed > 0:
                    continue
                rng = np.random.default_rng([n, seed, len(kind), len(name)])
                values = arbitrary_values(n, rng) if kind == "arbitrary" else superadditive_values(n, kind, rng)
                run_history(("hist", n, kind, seed, name), n, values, name, rng, steps=5)
                count += 1
rec("history-count", lambda: count)

# ---- D. exceptional paths -------------------------------------------------------------------
for n in range(1, 5):
    for name in B.BOUNDS:
        for missing in ["grand", "empty", "singleton", "none-known", "all-known"]:
            rng = np.random.default_rng([n, 77])
            values = superadditive_values(n, "int", rng)
            game = IncompleteCooperativeGame(n, B.BOUNDS[name])
            if missing == "all-known":
                game.set_values(values)
            elif missing != "none-known":
                for s in minimal(n):
                    game.set_value(values[s], Coalition(s))
                if missing == "grand":
                    game.unset_value(Coalition(2**n - 1))
                elif missing == "empty":
                    game.unset_value(Coalition(0))
                elif missing == "singleton":
                    game.unset_value(Coalition(1))
            rec(("exc", n, name, missing), game.compute_bounds)
            rec(("exc-state", n, name, missing), lambda: table(game))

finish()
'''


def run_both(driver_source, touched):
    with tempfile.TemporaryDirectory() as tmp:
        orig = os.path.join(tmp, "orig")
        os.makedirs(orig)
        subprocess.run(f"git -C {WT} archive HEAD incomplete_cooperative | tar -x -C {orig}", shell=True, check=True)
        changed = [p for p in touched
                   if open(os.path.join(orig, p), "rb").read() != open(os.path.join(WT, p), "rb").read()]
        print("files differing from HEAD:", changed or "NONE (patch not applied? comparison is trivial)")
        driver = os.path.join(tmp, "driver.py")
        with open(driver, "w") as f:
            f.write(driver_source)
        procs = []
        for label, tree in (("orig", orig), ("new", WT)):  # two separate interpreters, side by side
            out = os.path.join(tmp, label + ".pkl")
            env = dict(os.environ, PYTHONPATH=tree, OMP_NUM_THREADS="1", PYTHONHASHSEED="0",
                       PYTHONDONTWRITEBYTECODE="1")
            procs.append((out, subprocess.Popen([PY, driver, out, tree], cwd=tmp, env=env)))
        blobs = []
        for out, proc in procs:
            if proc.wait() != 0:
                raise SystemExit(f"driver failed with status {proc.returncode}")
        for out, proc in procs:
            with open(out, "rb") as f:
                blobs.append(f.read())
    return blobs


def main():
    blob_orig, blob_new = run_both(DRIVER, TOUCHED)
    if blob_orig == blob_new:
        print(f"IDENTICAL ({len(pickle.loads(blob_orig))} records, {len(blob_orig)} bytes)")
        return 0
    a, b = pickle.loads(blob_orig), pickle.loads(blob_new)
    print(f"DIFFERENT: {len(a)} vs {len(b)} records")
    shown = 0
    for (la, va), (lb, vb) in zip(a, b):
        if la != lb or va != vb:
            print("  first differences at", la, lb)
            print("    orig:", repr(va)[:300])
            print("    new: ", repr(vb)[:300])
            shown += 1
            if shown >= 5:
                break
    return 1


if __name__ == "__main__":
    sys.exit(main())
