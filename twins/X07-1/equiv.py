#!/usr/bin/env python
"""Differential equivalence check of patch_1 (game.py: IntEnum columns, staticmethod row filter).

The ORIGINAL package is extracted from git HEAD into a temporary directory, the REFACTORED package is the
worktree (patch applied).  The same driver runs in two separate interpreters, pickles a normalised trace of every
outcome (results, exception types and messages, object state, aliasing facts) and the traces are compared exactly.

Exit status 0 iff the traces are identical.
"""
import os
import pickle
import subprocess
import sys
import tempfile

WORKTREE = os.environ.get("X07_TREE", "/tmp/wt_x4_X07")
GIT_TREE = os.environ.get("X07_GIT", "/tmp/wt_x4_X07")
PYTHON = os.environ.get("X07_PYTHON", "/venv/bin/python")

DRIVER = r'''
import os, pickle, random, sys
import numpy as np

import incomplete_cooperative
EXPECTED = sys.argv[1]
assert os.path.realpath(os.path.dirname(os.path.dirname(incomplete_cooperative.__file__))) == os.path.realpath(EXPECTED), \
    (incomplete_cooperative.__file__, EXPECTED)

from incomplete_cooperative.coalitions import Coalition, all_coalitions, grand_coalition
from incomplete_cooperative.game import IncompleteCooperativeGame
from incomplete_cooperative.bounds import BOUNDS
from incomplete_cooperative.norms import l1_norm, l2_norm, linf_norm
from incomplete_cooperative.exploitability import compute_exploitability
from incomplete_cooperative.normalize import normalize_game
from incomplete_cooperative.icg_gym import ICG_Gym
from incomplete_cooperative import game as game_module


def norm(x):
    """Turn an outcome into a plain, exactly comparable structure."""
    if isinstance(x, BaseException):
        return ("exc", type(x).__name__, str(x))
    if isinstance(x, IncompleteCooperativeGame):
        return ("ICG", x.number_of_players, norm(x._values), getattr(x._bounds_computer, "__name__", repr(type(x._bounds_computer))))
    if isinstance(x, Coalition):
        return ("Coalition", norm(x.id))
    if isinstance(x, np.ndarray):
        if x.dtype == object:
            return ("ndobj", x.shape, [norm(e) for e in x.ravel().tolist()])
        return ("nd", x.dtype.str, x.shape, np.ascontiguousarray(x).tobytes())
    if isinstance(x, np.generic):
        return ("npscalar", type(x).__name__, x.dtype.str, x.tobytes())
    if isinstance(x, bool) or x is None or isinstance(x, str) or isinstance(x, bytes):
        return (type(x).__name__, x)
    if isinstance(x, int):
        return ("int", int(x)) if type(x) is int else ("intsub", type(x).__name__, int(x))
    if isinstance(x, float):
        return ("float", x.hex())
    if isinstance(x, (tuple, list)):
        return (type(x).__name__, [norm(e) for e in x])
    if isinstance(x, dict):
        return ("dict", [(norm(k), norm(v)) for k, v in x.items()])
    text = repr(x)
    return ("other", type(x).__name__, text if " at 0x" not in text else "<object with an address>")


TRACE = []


def call(label, fn, *args, **kwargs):
    """Run, record the result or the exception."""
    try:
        r = fn(*args, **kwargs)
    except Exception as e:  # noqa
        TRACE.append((label, norm(e)))
        return e
    TRACE.append((label, norm(r)))
    return r


def snapshot(label, game, rnd):
    """Record everything the public getters show."""
    n = game.number_of_players
    every = [Coalition(i) for i in range(2**n)]
    subset = [Coalition(i) for i in rnd.sample(range(2**n), rnd.randint(0, 2**n))]
    TRACE.append((label, "state", norm(game)))
    for name in ("get_values", "get_known_values", "get_upper_bounds", "get_lower_bounds", "get_intervals",
                 "are_values_known"):
        call((label, name, "all"), getattr(game, name))
        call((label, name, "subset"), getattr(game, name), subset)
        call((label, name, "gen"), getattr(game, name), (c for c in subset))
        call((label, name, "every"), getattr(game, name), every)
    for c in every + [Coalition(2**n), Coalition(-1), Coalition(-2**n - 1)]:
        for name in ("get_value", "get_known_value", "get_upper_bound", "get_lower_bound", "get_interval",
                     "is_value_known"):
            call((label, name, c.id), getattr(game, name), c)
    call((label, "full"), lambda: game.full)
    call((label, "repr"), repr, game)
    # views stay views, copies stay copies
    for name in ("get_upper_bounds", "get_lower_bounds", "get_intervals"):
        r = getattr(game, name)()
        TRACE.append((label, name, "alias", bool(np.shares_memory(r, game._values)), r.base is game._values,
                      r.flags.writeable, r.strides))
        r = getattr(game, name)(subset)
        TRACE.append((label, name, "alias-subset", bool(np.shares_memory(r, game._values))))
    r = game.get_interval(Coalition(0))
    TRACE.append((label, "interval-alias", bool(np.shares_memory(r, game._values)), r.strides, r.shape))
    r = game.are_values_known()
    TRACE.append((label, "known-alias", bool(np.shares_memory(r, game._values)), r.dtype.str))
    r = game.get_known_values()
    TRACE.append((label, "knownvalues-alias", bool(np.shares_memory(r, game._values))))
    TRACE.append((label, "pickle", pickle.dumps(game, protocol=4)))
    back = pickle.loads(pickle.dumps(game))
    TRACE.append((label, "unpickled", norm(back), type(back).__module__, type(back).__qualname__))


def random_value(rnd):
    kind = rnd.randrange(12)
    if kind == 0:
        return rnd.randint(-5, 20)
    if kind == 1:
        return float("nan")
    if kind == 2:
        return float("inf")
    if kind == 3:
        return np.float64(rnd.uniform(-3, 9))
    if kind == 4:
        return np.int64(rnd.randint(-3, 9))
    if kind == 5:
        return -0.0
    if kind == 6:
        return "not a number"
    if kind == 7:
        return True
    return rnd.uniform(-10, 30)


def random_coalition(rnd, n):
    if rnd.random() < 0.04:
        return Coalition(rnd.choice([2**n, 2**n + 3, -1, -2**n, -2**n - 1]))
    return Coalition(rnd.randrange(2**n))


def random_subset(rnd, n, allow_dup=True):
    k = rnd.randint(0, 2**n)
    ids = rnd.sample(range(2**n), k)
    if allow_dup and ids and rnd.random() < 0.2:
        ids.append(ids[0])
    if rnd.random() < 0.05:
        ids.append(2**n + 1)
    return [Coalition(i) for i in ids]


def random_values(rnd, size):
    kind = rnd.randrange(6)
    vals = [rnd.uniform(-10, 30) if rnd.random() < 0.9 else float(rnd.randint(0, 3)) for _ in range(size)]
    if kind == 0:
        return vals
    if kind == 1:
        return np.array(vals, dtype=np.float64)
    if kind == 2:
        return np.array([int(v) for v in vals], dtype=np.int64)
    if kind == 3:
        return np.array(vals, dtype=np.float32)
    if kind == 4:
        return tuple(vals)
    return np.array(vals + [1.5], dtype=np.float64)  # wrong size


def operation_sequences():
    for n in range(1, 6):
        for seed in range(36):
            rnd = random.Random(1000 * n + seed)
            game = IncompleteCooperativeGame(n) if seed % 2 else IncompleteCooperativeGame(n, BOUNDS["superadditive"])
            other = IncompleteCooperativeGame(n)
            label0 = ("seq", n, seed)
            snapshot(label0 + ("init",), game, rnd)
            for step in range(30):
                label = label0 + (step,)
                op = rnd.randrange(24)
                if op == 0:
                    call(label + ("set_value",), game.set_value, random_value(rnd), random_coalition(rnd, n))
                elif op == 1:
                    call(label + ("unset_value",), game.unset_value, random_coalition(rnd, n))
                elif op == 2:
                    call(label + ("reveal_value",), game.reveal_value, random_value(rnd), random_coalition(rnd, n))
                elif op == 3:
                    call(label + ("unreveal_value",), game.unreveal_value, random_coalition(rnd, n))
                elif op == 4:
                    subset = random_subset(rnd, n)
                    size = len(subset) if rnd.random() < 0.85 else len(subset) + 1
                    call(label + ("set_values-subset",), game.set_values, random_values(rnd, size), subset)
                elif op == 5:
                    subset = random_subset(rnd, n)
                    call(label + ("set_values-gen",), game.set_values, random_values(rnd, len(subset)),
                         (c for c in subset))
                elif op == 6:
                    call(label + ("set_values-all",), game.set_values, random_values(rnd, 2**n))
                elif op == 7:
                    subset = random_subset(rnd, n)
                    call(label + ("set_known_values-subset",), game.set_known_values,
                         random_values(rnd, len(subset)), subset)
                elif op == 8:
                    call(label + ("set_known_values-all",), game.set_known_values, random_values(rnd, 2**n))
                elif op == 9:
                    # arguments that are views of the very table
                    subset = random_subset(rnd, n, allow_dup=False)
                    call(label + ("set_known_values-self",), lambda: game.set_known_values(
                        (v for v in game.get_upper_bounds(subset)), (c for c in subset)))
                elif op in (10, 11):
                    setter = game.set_upper_bounds if op == 10 else game.set_lower_bounds
                    if rnd.random() < 0.5:
                        call(label + (setter.__name__, "all"), setter, random_values(rnd, 2**n))
                    else:
                        subset = random_subset(rnd, n, allow_dup=rnd.random() < 0.3)
                        coalitions = subset if rnd.random() < 0.7 else (c for c in subset)
                        call(label + (setter.__name__, "subset"), setter, random_values(rnd, len(subset)), coalitions)
                elif op == 12:
                    call(label + ("set_upper_bound",), game.set_upper_bound, random_value(rnd), random_coalition(rnd, n))
                elif op == 13:
                    call(label + ("set_lower_bound",), game.set_lower_bound, random_value(rnd), random_coalition(rnd, n))
                elif op == 14:
                    new = call(label + ("copy",), game.copy)
                    new.set_value(rnd.uniform(0, 1), Coalition(rnd.randrange(2**n)))
                    new.set_upper_bounds(np.arange(2**n, dtype=float))
                    TRACE.append((label, "copy-independent", norm(game), norm(new), new._values is game._values,
                                  bool(np.shares_memory(new._values, game._values)),
                                  new._bounds_computer is game._bounds_computer))
                    if rnd.random() < 0.5:
                        other, game = game, new
                elif op == 15:
                    neg = call(label + ("neg",), lambda: -game)
                    TRACE.append((label, "neg-independent", bool(np.shares_memory(neg._values, game._values)),
                                  norm(-neg), norm(game)))
                    if rnd.random() < 0.3:
                        game = neg
                elif op == 16:
                    call(label + ("add",), lambda: game + other)
                    call(label + ("add-self",), lambda: game + game)
                    full = game.copy()
                    full.set_values(random_values(rnd, 2**n)[:2**n])
                    full2 = full.copy()
                    full2.set_lower_bound(3.25, Coalition(0))
                    r = call(label + ("add-full",), lambda: full + full2)
                    TRACE.append((label, "add-operands", norm(full), norm(full2)))
                    call(label + ("add-wrong-n",), lambda: full + IncompleteCooperativeGame(n + 1))
                    call(label + ("add-wrong-type",), lambda: full + 3)
                elif op == 17:
                    call(label + ("eq-other",), lambda: game == other)
                    call(label + ("eq-copy",), lambda: game == game.copy())
                    call(label + ("eq-neg",), lambda: game == -game)
                    call(label + ("eq-int",), lambda: game == 3)
                    call(label + ("ne-other",), lambda: game != other)
                    call(label + ("eq-wrong-n",), lambda: game == IncompleteCooperativeGame(n + 1))
                elif op == 18:
                    call(label + ("compute_bounds",), game.compute_bounds)
                elif op == 19:
                    call(label + ("_init_values",), game._init_values)
                elif op == 20:
                    subset = random_subset(rnd, n)
                    call(label + ("_get_coalition_map",), game._get_coalition_map, subset)
                    call(label + ("_get_coalition_map-count",), game._get_coalition_map, subset, len(subset))
                    call(label + ("_get_coalition_map-none",), game._get_coalition_map, None)
                    call(label + ("_filter_out_coalitions",), game._filter_out_coalitions,
                         np.arange(2**n, dtype=float), subset)
                    r = np.arange(2**n, dtype=float)
                    TRACE.append((label, "_filter_out_coalitions-none-identity",
                                  game._filter_out_coalitions(r, None) is r))
                elif op == 21:
                    # writes through the returned views reach the table
                    game.get_upper_bounds()[rnd.randrange(2**n)] += 1.5
                    game.get_lower_bounds()[rnd.randrange(2**n)] -= 0.5
                    game.get_interval(Coalition(rnd.randrange(2**n)))[1] *= 2
                    game.get_intervals()[rnd.randrange(2**n), 0] = 7
                elif op == 22:
                    vals = game.get_upper_bounds()  # a view of the table as argument
                    call(label + ("set_values-view",), game.set_values, vals)
                else:
                    call(label + ("set_values-view-subset",), game.set_values,
                         game.get_lower_bounds([Coalition(0), Coalition(2**n - 1)]),
                         [Coalition(2**n - 1), Coalition(0)])
                snapshot(label, game, rnd)


def convex_values(n, rnd, power):
    weights = [rnd.uniform(0.5, 4) for _ in range(n)]
    return np.array([sum(w for i, w in enumerate(weights) if c >> i & 1)**power for c in range(2**n)])


def reveal_paths():
    gaps = [("exploitability", compute_exploitability), ("l1", l1_norm), ("l2", l2_norm), ("linf", linf_norm)]
    for n in range(2, 6):
        for seed in range(6):
            rnd = random.Random(77 * n + seed)
            values = convex_values(n, rnd, rnd.choice([1.0, 1.5, 2.0]))
            for name in ("superadditive", "superadditive_cached", "sam_apx_1", "sam_apx_10"):
                game = IncompleteCooperativeGame(n, BOUNDS[name])
                minimal = [Coalition(0), Coalition(2**n - 1)] + [Coalition(2**i) for i in range(n)]
                game.set_known_values(values[[c.id for c in minimal]], minimal)
                order = [i for i in range(2**n) if not game.is_value_known(Coalition(i))]
                rnd.shuffle(order)
                label = ("reveal", n, seed, name)
                call(label + ("bounds0",), game.compute_bounds)
                TRACE.append((label, "start", norm(game)))
                for i in order:
                    call(label + ("reveal", i), game.reveal_value, values[i], Coalition(i))
                    call(label + ("bounds", i), game.compute_bounds)
                    TRACE.append((label, i, norm(game)))
                    for gname, gap in gaps:
                        call(label + (gname, i), gap, game)
                for i in order[:3]:
                    call(label + ("unreveal", i), game.unreveal_value, Coalition(i))
                    call(label + ("bounds-after-unreveal", i), game.compute_bounds)
                    TRACE.append((label, "un", i, norm(game)))
            full = IncompleteCooperativeGame(n)
            full.set_values(values)
            info = call(("normalize", n, seed), normalize_game, full)
            TRACE.append(("normalized", n, seed, norm(full)))


def gym_episodes():
    for n in (3, 4):
        for seed in range(4):
            rnd = random.Random(5 * n + seed)
            values = convex_values(n, rnd, 2.0)
            full = IncompleteCooperativeGame(n)
            full.set_values(values)
            incomplete = IncompleteCooperativeGame(n, BOUNDS["superadditive_cached" if seed % 2 else "superadditive"])
            known = [Coalition(2**i) for i in range(n)]
            gap = [compute_exploitability, l1_norm, l2_norm, linf_norm][seed]
            env = ICG_Gym(incomplete, lambda: full.copy(), known, gap, done_after_n_actions=None if seed < 2 else 3)
            label = ("gym", n, seed)
            TRACE.append((label, "explorable", sorted(c.id for c in env.explorable_coalitions)))
            call(label + ("reset",), lambda: env.reset()[0])
            actions = list(range(len(env.explorable_coalitions)))
            rnd.shuffle(actions)
            for a in actions:
                call(label + ("masks", a), env.action_masks)
                r = call(label + ("step", a), env.step, a)
                TRACE.append((label, a, norm(env.incomplete_game)))
            call(label + ("step-again",), env.step, actions[0])
            for a in actions[:2]:
                call(label + ("unstep", a), env.unstep, a)
                TRACE.append((label, "un", a, norm(env.incomplete_game)))
            call(label + ("unstep-again",), env.unstep, actions[0])


def class_facts():
    cls = IncompleteCooperativeGame
    # every public name of the original module must still be importable (new imports may add names)
    original_names = ['Any', 'BoundableIncompleteGame', 'Callable', 'Coalition', 'CoalitionPlayers', 'Coalitions',
                      'IncompleteCooperativeGame', 'Iterable', 'LOGGER', 'Literal', 'Value', 'ValueIn', 'Values',
                      'annotations', 'logging', 'np', '_none_bounds']
    TRACE.append(("public names", [(k, hasattr(game_module, k)) for k in original_names]))
    TRACE.append(("_none_bounds", game_module._none_bounds.__module__, game_module._none_bounds.__qualname__,
                  pickle.dumps(game_module._none_bounds), pickle.dumps(cls)))
    TRACE.append(("class public names", sorted(k for k in vars(cls) if not k.startswith("_"))))
    TRACE.append(("index constants", int(cls._values_is_known_index), int(cls._values_lower_index),
                  int(cls._values_upper_index), cls._values_is_known_index == 0, cls._values_lower_index == 1,
                  cls._values_upper_index == 2, isinstance(cls._values_lower_index, int)))
    g = cls(2)
    TRACE.append(("instance dict keys", sorted(vars(g))))
    TRACE.append(("values dtype", g._values.dtype.str, g._values.shape, g._values.flags.c_contiguous))


class_facts()
operation_sequences()
reveal_paths()
gym_episodes()
with open(sys.argv[2], "wb") as f:
    pickle.dump(TRACE, f, protocol=4)
print(len(TRACE))
'''


def run(tree, driver, out, tmp):
    env = dict(os.environ, PYTHONPATH=tree, PYTHONHASHSEED="0", OMP_NUM_THREADS="1", PYTHONDONTWRITEBYTECODE="1")
    res = subprocess.run([PYTHON, driver, tree, out], cwd=tmp, env=env, capture_output=True, text=True)
    if res.returncode != 0:
        print(res.stdout)
        print(res.stderr)
        raise SystemExit(f"driver failed on {tree} (exit status {res.returncode})")
    return int(res.stdout.strip().splitlines()[-1])


def first_difference(a, b, path=()):
    if type(a) is not type(b):
        return path, a, b
    if isinstance(a, (list, tuple)):
        if len(a) != len(b):
            return path + ("len",), len(a), len(b)
        for i, (x, y) in enumerate(zip(a, b)):
            d = first_difference(x, y, path + (i,))
            if d is not None:
                return d
        return None
    return None if a == b else (path, a, b)


def main():
    with tempfile.TemporaryDirectory(prefix="x07_equiv1_") as tmp:
        orig = os.path.join(tmp, "orig")
        os.mkdir(orig)
        archive = subprocess.run(["git", "-C", GIT_TREE, "archive", "HEAD", "incomplete_cooperative"],
                                 check=True, capture_output=True).stdout
        subprocess.run(["tar", "-x", "-C", orig], input=archive, check=True)
        driver = os.path.join(tmp, "driver.py")
        with open(driver, "w") as f:
            f.write(DRIVER)
        out_a, out_b = os.path.join(tmp, "a.pkl"), os.path.join(tmp, "b.pkl")
        n_a = run(orig, driver, out_a, tmp)
        n_b = run(WORKTREE, driver, out_b, tmp)
        with open(out_a, "rb") as f:
            bytes_a = f.read()
        with open(out_b, "rb") as f:
            bytes_b = f.read()
        trace_a, trace_b = pickle.loads(bytes_a), pickle.loads(bytes_b)
        diff = first_difference(trace_a, trace_b)
        if diff is not None or n_a != n_b:
            print("DIFFERENT", n_a, n_b)
            if diff is not None:
                path, a, b = diff
                print("at", path)
                if path and isinstance(path[0], int) and path[0] < len(trace_a):
                    print("record (original):  ", repr(trace_a[path[0]])[:600])
                    print("record (refactored):", repr(trace_b[path[0]])[:600])
                print("original:  ", repr(a)[:300])
                print("refactored:", repr(b)[:300])
            return 1
        n_exc = sum(1 for rec in trace_a if isinstance(rec[-1], tuple) and rec[-1][:1] == ("exc",))
        print(f"IDENTICAL: {n_a} records ({n_exc} of them exceptions), byte-equal pickles: {bytes_a == bytes_b}")
        return 0


if __name__ == "__main__":
    sys.exit(main())
