"""Differential test for refactoring 3 (run/best_states.py: range(len()) -> enumerate, enumerate + column index ->
zip over the transposed array, lambda -> named inner function; meta_game.py: conditional expression -> if statement,
named intermediate).

Run with cwd=/tmp/wt10/U05.  The ORIGINAL package is taken from git (`git archive HEAD incomplete_cooperative`) into a
temporary directory; the same driver is executed once against that copy and once against the worktree (each in its own
interpreter, so the two copies of `incomplete_cooperative` cannot mix), and the pickled results are compared exactly.
"""
import os
import pickle
import subprocess
import sys
import tempfile
import traceback
from pathlib import Path

WORKTREE = Path("/tmp/wt10/U05")
PYTHON = "/venv/bin/python"


# --------------------------------------------------------------------------------------------------------------------
# driver: runs inside a child interpreter whose sys.path[0] is the root of ONE version of the package
# --------------------------------------------------------------------------------------------------------------------
def _call(fn):
    """Run `fn`, return ('ok', value) or ('exc', type, message)."""
    try:
        return ("ok", fn())
    except BaseException as e:  # noqa
        return ("exc", type(e).__name__, str(e))


def tie_gap(game):
    """A gap function with many ties (module level, so that worker processes can unpickle it)."""
    import numpy as np
    return np.float64(np.sum(game.are_values_known()) % 3)


def driver(root: str, out: str) -> None:
    sys.path.insert(0, root)
    import numpy as np

    import incomplete_cooperative
    assert Path(incomplete_cooperative.__file__).resolve().parent.parent == Path(root).resolve(), \
        (incomplete_cooperative.__file__, root)
    from incomplete_cooperative import generators
    from incomplete_cooperative.bounds import BOUNDS
    from incomplete_cooperative.coalitions import Coalition, all_coalitions
    from incomplete_cooperative.exploitability import compute_exploitability
    from incomplete_cooperative.game import IncompleteCooperativeGame
    from incomplete_cooperative.generators import GENERATORS
    from incomplete_cooperative.meta_game import MetaGame
    from incomplete_cooperative.norms import l1_norm, l2_norm, linf_norm

    # the contents of the GAP_FUNCTIONS registry; `run.model` (which defines it) pulls in torch, which makes every
    # fork of a worker pool slow, so it is imported - and checked against this dict - only for part 2
    GAP_FUNCTIONS = {"exploitability": compute_exploitability, "l1_norm": l1_norm, "l2_norm": l2_norm,
                     "linf_norm": linf_norm}

    results = []

    def record(label, fn):
        results.append((label, _call(fn)))

    def reseed_module_generator(seed):
        generators._gen.bit_generator.state = np.random.default_rng(seed).bit_generator.state
        generators._LAST_OWNER = 0

    def ids(seq):
        return [c.id for c in seq]

    gap_names = list(GAP_FUNCTIONS)
    bounds_names = ["superadditive", "superadditive_cached", "sam_apx_1", "sam_apx_10"]
    names = [g for g in GENERATORS if g != "convex"]  # convex needs the missing pyfmtools

    # 1. the meta game over coalitions: every registry generator, all gap functions and bounds
    for gi, name in enumerate(names):
        for n in (3, 4):
            if name == "oxs" and n > 3:
                continue
            for seed in (0, 1):
                gap_name = gap_names[(gi + n + seed) % len(gap_names)]
                bname = bounds_names[(gi + seed) % len(bounds_names)]
                label = f"meta/gen={name}/n={n}/seed={seed}/{gap_name}/{bname}"
                reseed_module_generator(9000 * gi + 10 * n + seed)
                rng = np.random.default_rng([5, gi, n, seed])
                full_res = _call(lambda: GENERATORS[name](n, np.random.default_rng(seed + 13 * n)))
                if full_res[0] != "ok":
                    results.append((label + "/generate", full_res))
                    continue
                full = full_res[1]
                inc = IncompleteCooperativeGame(n, BOUNDS[bname])
                before = inc._values.copy()
                mg_res = _call(lambda: MetaGame(full, inc, GAP_FUNCTIONS[gap_name]))
                if mg_res[0] != "ok":
                    results.append((label + "/construct", mg_res))
                    continue
                mg = mg_res[1]
                record(label + "/structure", lambda: (list(vars(mg)), ids(mg.k_zero), ids(mg.players),
                                                      mg.number_of_players, mg._incomplete is inc))
                m = mg.number_of_players
                if n == 3:
                    record(label + "/all_values", lambda: mg.get_values())
                    record(label + "/all_values_kw", lambda: mg.get_values(coalitions=None))
                some = [Coalition(int(c)) for c in rng.integers(0, 2**m, size=6)]
                record(label + "/some_values", lambda: mg.get_values(some))
                record(label + "/some_values_generator", lambda: mg.get_values(c for c in some))
                record(label + "/empty_list", lambda: mg.get_values([]))
                record(label + "/single", lambda: [(mg.get_value(c), mg._incomplete._values.copy()) for c in some[:3]])
                record(label + "/out_of_range", lambda: mg.get_value(Coalition(2**m)))
                record(label + "/untouched_argument", lambda: np.array_equal(before, inc._values))

    # 2. best states: `get_best_exploitability` on environments of model instances, and `best_states_func` end to end
    import json
    from argparse import Namespace
    from unittest.mock import patch

    from incomplete_cooperative.run import model as run_model
    from incomplete_cooperative.run import save as run_save
    from incomplete_cooperative.run.best_states import (
        best_states_func, fill_in_coalitions, get_best_exploitability)
    from incomplete_cooperative.run.model import ModelInstance
    assert run_model.GAP_FUNCTIONS == GAP_FUNCTIONS, run_model.GAP_FUNCTIONS

    cases = [("factory", 4, 2), ("factory_fixed", 4, 3), ("noisy_factory", 4, 2), ("graph_cycle", 4, 2), ("xos", 4, 2),
             ("xs", 3, 3), ("graph_random", 4, 1), ("k_budget_generator", 4, 2), ("covg_fn_generator", 3, 3),
             ("factory_cheerleader_next", 4, 2), ("noisy_factory_exp", 3, 5), ("graph", 3, 2), ("xos12", 3, 0),
             ("predictible_factory", 4, 1), ("graph_geometric", 3, 3), ("oxs", 3, 2), ("graph_poiss_1", 4, 1),
             ("not_registered", 3, 1)]
    for ci, (name, n, limit) in enumerate(cases):
        for seed in (5, 6, 7):
            for gap_name in gap_names:
                reps = 1 + (ci + seed + len(gap_name)) % 3
                game_class = ["superadditive", "superadditive_cached"][(ci + seed) % 2]
                label = f"best/gen={name}/n={n}/limit={limit}/seed={seed}/{gap_name}/reps={reps}/{game_class}"
                reseed_module_generator(ci + seed)

                def best():
                    instance = ModelInstance(number_of_players=n, game_generator=name, gap_function=gap_name,
                                             run_steps_limit=limit, seed=seed, unique_name="u", game_class=game_class,
                                             parallel_environments=1 + ci % 2)
                    env = instance.get_env()
                    expl, acts = get_best_exploitability(env, limit, reps, instance.gap_function_callable,
                                                         processes=instance.parallel_environments)
                    return expl, acts, env.incomplete_game._values.copy(), \
                        instance.game_generator_rng.bit_generator.state["state"], \
                        generators._gen.bit_generator.state["state"], generators._LAST_OWNER
                record(label + "/get_best", best)

        # end to end, through the real json saver (the plots are skipped), two evaluation repetitions
        for seed, eval_reps, sampling in ((11, 1, 2), (12, 3, 1)):
            label = f"best_func/gen={name}/n={n}/limit={limit}/seed={seed}/eval={eval_reps}/sampling={sampling}"
            reseed_module_generator(100 + ci + seed)

            def end_to_end():
                with tempfile.TemporaryDirectory() as d:
                    args = Namespace(number_of_players=n, game_generator=name, run_steps_limit=limit, seed=seed,
                                     unique_name="run", model_dir=d, eval_repetitions=eval_reps,
                                     sampling_repetitions=sampling, func="best_states", parallel_environments=1)
                    instance = ModelInstance.from_parsed_arguments(args)
                    captured = []

                    def json_and_capture(path, unique_name, output):
                        captured.append((output.data.copy(), output.actions.copy()))
                        run_save.save_json(path, unique_name, output)
                    with patch.object(run_save, "SAVERS", {"data.json": json_and_capture}):
                        best_states_func(instance, args)
                    text = (Path(d) / "data.json").read_text().replace(d, "<dir>")
                    json.loads(text)
                    return captured, text, sorted(p.name for p in Path(d).iterdir())
            record(label, end_to_end)

    # 3. hand-made environments: ties between action sequences, NaN / inf gaps, a single sample
    from incomplete_cooperative.coalitions import minimal_game_coalitions
    from incomplete_cooperative.icg_gym import ICG_Gym

    for gi, gap in enumerate([tie_gap, GAP_FUNCTIONS["l1_norm"]]):
        for limit in (0, 1, 2, 3, 9):
            for reps in (1, 2, 4):
                rng = np.random.default_rng([gi, limit, reps])

                def hand_made():
                    inc = IncompleteCooperativeGame(3, BOUNDS["superadditive"])
                    env = ICG_Gym(inc, lambda: GENERATORS["noisy_factory"](3, rng),
                                  list(minimal_game_coalitions(3)), gap, done_after_n_actions=limit)
                    return get_best_exploitability(env, limit, reps, gap)
                record(f"hand_made/gap={gi}/limit={limit}/reps={reps}", hand_made)

    # 4. fill_in_coalitions and error paths
    for seed in range(20):
        rng = np.random.default_rng(seed)
        target = np.full((4, 3, 5), np.nan)
        coalitions = [[[int(c) for c in rng.integers(0, 16, size=int(rng.integers(0, 6)))] for _ in range(3)]
                      for _ in range(4)]

        def fill():
            for ep in range(4):
                fill_in_coalitions(target[ep], coalitions[ep])
            return target
        record(f"fill/seed={seed}", fill)
    record("fill/too_long", lambda: fill_in_coalitions(np.full((1, 1), np.nan), [[1, 2]]))
    inst = ModelInstance(number_of_players=3, game_generator="factory", seed=1, run_steps_limit=2)
    record("errors/reps=0", lambda: get_best_exploitability(inst.get_env(), 2, 0, compute_exploitability))
    record("errors/limit=-1", lambda: get_best_exploitability(inst.get_env(), -1, 1, compute_exploitability))
    record("errors/limit=-2", lambda: get_best_exploitability(inst.get_env(), -2, 1, compute_exploitability))
    record("errors/limit=float", lambda: get_best_exploitability(inst.get_env(), 1.5, 1, compute_exploitability))
    record("errors/env=None", lambda: get_best_exploitability(None, 1, 1, compute_exploitability))
    record("errors/meta_none", lambda: MetaGame(None, None, compute_exploitability))
    record("errors/meta_no_copy", lambda: MetaGame(GENERATORS["factory"](3, np.random.default_rng(0)), None, l1_norm))

    def normalise(x):
        if isinstance(x, Coalition):
            return ("Coalition", x.id)
        if isinstance(x, (list, tuple)):
            return type(x)(normalise(y) for y in x)
        return x

    with open(out, "wb") as f:
        pickle.dump([(label, normalise(res)) for label, res in results], f)


# --------------------------------------------------------------------------------------------------------------------
# comparison
# --------------------------------------------------------------------------------------------------------------------
def same(a, b) -> bool:
    import numpy as np
    if type(a) is not type(b):
        return False
    if isinstance(a, np.ndarray):
        return a.dtype == b.dtype and a.shape == b.shape and bool(np.array_equal(a, b, equal_nan=a.dtype.kind in "fc"))
    if isinstance(a, (list, tuple)):
        return len(a) == len(b) and all(same(x, y) for x, y in zip(a, b))
    if isinstance(a, dict):
        return a.keys() == b.keys() and all(same(a[k], b[k]) for k in a)
    if isinstance(a, (float, np.floating)):
        return np.asarray(a).tobytes() == np.asarray(b).tobytes() or (bool(np.isnan(a)) and bool(np.isnan(b)))
    return bool(a == b)


def run_driver(root: Path, out: Path) -> None:
    env = dict(os.environ, OMP_NUM_THREADS="1", MKL_NUM_THREADS="1", PYTHONHASHSEED="0")
    env.pop("PYTHONPATH", None)
    with tempfile.TemporaryDirectory() as cwd:  # neutral cwd: only `root` provides `incomplete_cooperative`
        subprocess.run([PYTHON, "-W", "ignore", str(Path(__file__).resolve()), "--driver", str(root), str(out)],
                       check=True, cwd=cwd, env=env)


def main() -> int:
    with tempfile.TemporaryDirectory() as tmp:
        original_root = Path(tmp) / "original"
        original_root.mkdir()
        archive = subprocess.run(["git", "-C", str(WORKTREE), "archive", "HEAD", "incomplete_cooperative"],
                                 check=True, capture_output=True).stdout
        subprocess.run(["tar", "-x", "-C", str(original_root)], input=archive, check=True)
        out_orig, out_new = Path(tmp) / "orig.pkl", Path(tmp) / "new.pkl"
        run_driver(original_root, out_orig)
        run_driver(WORKTREE, out_new)
        with out_orig.open("rb") as f:
            res_orig = pickle.load(f)
        with out_new.open("rb") as f:
            res_new = pickle.load(f)
    if len(res_orig) != len(res_new):
        print(f"DIFFERENT: number of cases {len(res_orig)} != {len(res_new)}")
        return 1
    n_exc = 0
    for (label_o, r_o), (label_n, r_n) in zip(res_orig, res_new):
        if label_o != label_n or not same(r_o, r_n):
            print("DIFFERENT")
            print("case:", label_o, label_n)
            print("original  :", r_o)
            print("refactored:", r_n)
            return 1
        n_exc += r_o[0] == "exc"
    if os.environ.get("EQUIV_SHOW_EXC"):
        from collections import Counter
        for key, cnt in Counter((lab.split("/")[0], lab.split("/")[-1][:25], r[1], r[2][:70])
                                for lab, r in res_orig if r[0] == "exc").items():
            print(cnt, key)
    print(f"{len(res_orig)} cases compared ({n_exc} of them raise the same exception in both versions)")
    print("EQUIVALENT")
    return 0


if __name__ == "__main__":
    if len(sys.argv) > 1 and sys.argv[1] == "--driver":
        try:
            driver(sys.argv[2], sys.argv[3])
        except BaseException:  # noqa
            traceback.print_exc()
            sys.exit(3)
        sys.exit(0)
    sys.exit(main())
