"""Differential test for refactoring 1 (bounds.py: NamedTuple result of the structure helper, BOUNDS filled by a loop).

Run with cwd=/tmp/wt12/W05.  The ORIGINAL package is exported from git HEAD into a temporary directory; the original and the
refactored package are each exercised in their own interpreter (both are imported as `incomplete_cooperative`, so absolute and
relative imports resolve inside the same tree) and the recorded results are compared bit for bit.
"""
import os
import pickle
import shutil
import struct
import subprocess
import sys
import tempfile
import warnings

WORKTREE = os.path.abspath(os.getcwd())


# ----------------------------------------------------------------------------------------------------------- canonical form
def canon(x):
    """Turn a result into a picklable structure that compares bit for bit."""
    import numpy as np
    if isinstance(x, BaseException):
        return ("EXC", type(x).__name__, str(x))
    if isinstance(x, np.ndarray):
        if x.dtype == object:
            return ("ndo", x.shape, [canon(y) for y in x.ravel().tolist()])
        return ("nd", x.dtype.str, x.shape, np.ascontiguousarray(x).tobytes())
    if isinstance(x, np.generic):
        return ("ng", x.dtype.str, x.tobytes())
    if isinstance(x, bool) or x is None or isinstance(x, (int, str, bytes)):
        return (type(x).__name__, x)
    if isinstance(x, float):
        return ("float", struct.pack("<d", x))
    if isinstance(x, (tuple, list)):
        return (type(x).__name__, [canon(y) for y in x])
    if isinstance(x, dict):
        return ("dict", [(canon(k), canon(v)) for k, v in x.items()])
    name = type(x).__name__
    if name == "Coalition":
        return ("Coalition", x.id)
    if name == "IncompleteCooperativeGame":
        return ("ICG", x.number_of_players, canon(x._values))
    if name == "GraphCooperativeGame":
        return ("GG", x.number_of_players, canon(x._graph_matrix))
    return ("obj", type(x).__module__, name)


class Recorder:
    """Collect labelled results, exceptions and warnings."""

    def __init__(self):
        self.records = []

    def call(self, label, fn):
        with warnings.catch_warnings(record=True) as caught:
            warnings.simplefilter("always")
            try:
                result = canon(fn())
            except Exception as e:  # noqa
                result = canon(e)
        warns = [(w.category.__name__, str(w.message)) for w in caught]
        self.records.append((label, result, warns))


# ------------------------------------------------------------------------------------------------------------------- worker
def value_vectors(n, rng):
    """Value vectors of full games, computed without the package under test where possible."""
    import numpy as np
    from incomplete_cooperative.generators import GENERATORS
    out = []
    for name in ["factory", "factory_square", "noisy_factory", "noisy_factory_exp", "factory_cheerleader", "xos", "xos3",
                 "xs", "xs3", "k_budget_generator", "covg_fn_generator", "graph_cycle", "graph_random"]:
        if name == "k_budget_generator" and n < 2:
            continue
        game = GENERATORS[name](n, np.random.default_rng(int(rng.integers(2**31))))
        out.append((name, np.array(game.get_values(), dtype=np.float64)))
    sizes = np.array([bin(i).count("1") for i in range(2**n)])
    out.append(("convex_sq", (sizes**2).astype(np.float64)))
    arbitrary = rng.uniform(-5, 5, 2**n)
    arbitrary[0] = 0
    out.append(("arbitrary", arbitrary))
    integers = rng.integers(-3, 9, 2**n).astype(np.float64)
    integers[0] = 0
    out.append(("integers", integers))
    return out


def worker(out_path):
    import numpy as np
    import incomplete_cooperative
    assert os.path.abspath(incomplete_cooperative.__file__).startswith(os.path.abspath(os.getcwd()) + os.sep), \
        incomplete_cooperative.__file__
    import incomplete_cooperative.bounds as B
    from incomplete_cooperative.coalitions import Coalition
    from incomplete_cooperative.game import IncompleteCooperativeGame

    rec = Recorder()

    # --- the structure helper itself
    for n in range(1, 8):
        def structure(n=n):
            r = B._get_sub_super_coalition_structure(n)
            a, b, c = r
            return (isinstance(r, tuple), len(r), tuple(r), r[0], r[1], r[2], r[-1], tuple(r[0:2]), a, b, c,
                    r is B._get_sub_super_coalition_structure(n), hash(r[0].tobytes()) == hash(a.tobytes()))
        rec.call(f"structure n={n}", structure)

    # --- the registry
    rec.call("BOUNDS keys", lambda: list(B.BOUNDS.keys()))
    for key, fn in B.BOUNDS.items():
        def describe(fn=fn):
            if hasattr(fn, "func"):
                return (type(fn).__name__, fn.func.__name__, fn.args, dict(fn.keywords), pickle.dumps(fn))
            return (type(fn).__name__, fn.__name__, pickle.dumps(fn))
        rec.call(f"BOUNDS[{key}]", describe)

    # --- bounds along reveal sequences
    case = 0
    for n in (3, 4, 5):
        rng = np.random.default_rng(1000 + n)
        minimal = [0, 2**n - 1] + [2**i for i in range(n)]
        others = [c for c in range(2**n) if c not in minimal]
        for seed_round in range(3):
            for vname, values in value_vectors(n, rng):
                # a known set: minimal information plus a random subset; sometimes something is missing on purpose
                extra = [int(c) for c in rng.permutation(others)[:int(rng.integers(0, len(others) + 1))]]
                known = list(minimal) + extra
                kind = int(rng.integers(0, 8))
                if kind == 0:
                    known.remove(2**int(rng.integers(n)))     # a singleton is missing
                elif kind == 1:
                    known.remove(2**n - 1)                    # the grand coalition is missing
                reveal_order = [c for c in rng.permutation(others) if c not in known][:4]
                for key in B.BOUNDS:
                    if key == "sam_apx_1000" and (n > 4 or seed_round > 0):
                        continue
                    if key == "sam_apx_100" and n > 4 and seed_round > 0:
                        continue
                    case += 1
                    game = IncompleteCooperativeGame(n, B.BOUNDS[key])
                    coalitions = [Coalition(c) for c in known]
                    game.set_known_values(values[known], coalitions)
                    label = f"case {case} n={n} values={vname} bounds={key} known={known}"
                    rec.call(label + " compute", game.compute_bounds)
                    rec.call(label + " table", lambda: game._values.copy())
                    for c in reveal_order:
                        rec.call(label + f" reveal {c}", lambda: game.reveal_value(values[c], Coalition(int(c))))
                        rec.call(label + f" compute after {c}", game.compute_bounds)
                        rec.call(label + f" table after {c}", lambda: game._values.copy())
                    # the functions called directly, not through the registry
                    if key == "superadditive_cached":
                        g2 = IncompleteCooperativeGame(n)
                        g2.set_known_values(values[known], coalitions)
                        rec.call(label + " direct cached", lambda: B.compute_bounds_superadditive_cached(g2))
                        rec.call(label + " direct cached table", lambda: g2._values.copy())
                        g3 = IncompleteCooperativeGame(n)
                        g3.set_known_values(values[known], coalitions)
                        rec.call(label + " direct apx0",
                                 lambda: B.compute_bounds_superadditive_monotone_approx_cached(g3, 0))
                        rec.call(label + " direct apx0 table", lambda: g3._values.copy())
    rec.call("number of cases", lambda: case)
    with open(out_path, "wb") as f:
        pickle.dump(rec.records, f)


# ------------------------------------------------------------------------------------------------------------------- driver
def export_original(dst):
    """Write the package as of git HEAD into `dst`."""
    files = subprocess.run(["git", "-C", WORKTREE, "ls-tree", "-r", "--name-only", "HEAD", "incomplete_cooperative"],
                           check=True, capture_output=True, text=True).stdout.split("\n")
    for path in filter(None, files):
        target = os.path.join(dst, path)
        os.makedirs(os.path.dirname(target), exist_ok=True)
        with open(target, "wb") as f:
            f.write(subprocess.run(["git", "-C", WORKTREE, "show", f"HEAD:{path}"], check=True, capture_output=True).stdout)


def main():
    tmp = tempfile.mkdtemp(prefix="equiv1_")
    try:
        original = os.path.join(tmp, "original")
        os.makedirs(original)
        export_original(original)
        results = {}
        for name, root in (("original", original), ("refactored", WORKTREE)):
            out = os.path.join(tmp, name + ".pkl")
            env = dict(os.environ, OMP_NUM_THREADS="1", MKL_NUM_THREADS="1", PYTHONPATH=root, PYTHONDONTWRITEBYTECODE="1",
                       PYTHONHASHSEED="0")
            subprocess.run([sys.executable, os.path.abspath(__file__), "--worker", out], cwd=root, env=env, check=True)
            with open(out, "rb") as f:
                results[name] = pickle.load(f)
    finally:
        shutil.rmtree(tmp, ignore_errors=True)
    a, b = results["original"], results["refactored"]
    for ra, rb in zip(a, b):
        if ra != rb:
            print("DIFFERENT")
            print("original:  ", repr(ra)[:2000])
            print("refactored:", repr(rb)[:2000])
            return 1
    if len(a) != len(b):
        print("DIFFERENT: number of records", len(a), len(b))
        return 1
    exceptions = sum(1 for r in a if r[1][0] == "EXC")
    print(f"compared {len(a)} records ({exceptions} of them exceptions, {a[-1][1]} bound cases)")
    print("EQUIVALENT")
    return 0


if __name__ == "__main__":
    if len(sys.argv) == 3 and sys.argv[1] == "--worker":
        sys.path.insert(0, os.getcwd())
        worker(sys.argv[2])
    else:
        sys.exit(main())
