#!/usr/bin/env python
"""Differential equivalence check for patch_1 (regret.py: tree nodes walked once, np.full).

Usage:  cd <worktree with patch_1 applied> && /venv/bin/python /tmp/twin_out/X04/equiv_1.py [worktree]

The ORIGINAL package is taken from `git archive HEAD incomplete_cooperative`, the refactored one is the worktree
itself.  The same driver runs in two fresh interpreters; every outcome (results, exception type + message, object
state) is turned into a canonical, bit-exact form (arrays as dtype/shape/raw bytes) and compared.  Exit 0 iff equal.
"""
import os
import pickle
import subprocess
import sys
import tempfile
from pathlib import Path

DRIVER = r'''
import hashlib, itertools, os, pickle, shutil, sys
from pathlib import Path
import numpy as np

expected_root, out_path = sys.argv[1], sys.argv[2]
import incomplete_cooperative
assert os.path.realpath(incomplete_cooperative.__file__).startswith(os.path.realpath(expected_root) + os.sep), \
    (incomplete_cooperative.__file__, expected_root)

from incomplete_cooperative.coalitions import Coalition
from incomplete_cooperative import regret as R
from incomplete_cooperative.regret import (GameRegretMinimizer, get_coalition_player_id_map,
                                           metacoalition_ids_by_coalition_size, coalitions_up_to)


def canon(x):
    if isinstance(x, np.ndarray):
        raw = np.ascontiguousarray(x).tobytes()  # bit-exact; large tables are kept as their sha256 digest
        return ("nd", x.dtype.str, x.shape, raw if len(raw) <= 4096 else "sha256:" + hashlib.sha256(raw).hexdigest())
    if isinstance(x, np.generic):
        return ("ns", x.dtype.str, x.tobytes())
    if isinstance(x, float):
        return ("f", x.hex())
    if isinstance(x, (bool, int, str, bytes, type(None))):
        return (type(x).__name__, x)
    if isinstance(x, (list, tuple)):
        return (type(x).__name__, tuple(canon(y) for y in x))
    if isinstance(x, dict):
        return ("dict", tuple((canon(k), canon(v)) for k, v in x.items()))
    if isinstance(x, Coalition):
        return ("Coalition", canon(x.id))
    raise TypeError(f"cannot canonicalise {type(x)}")


LOG = []


def rec(label, fn, *a, **kw):
    try:
        LOG.append((label, "ok", canon(fn(*a, **kw))))
    except BaseException as e:  # noqa
        LOG.append((label, "exc", type(e).__name__, str(e)))


def state(m, tables=False):
    ret = {"it": m.iteration, "regret": m.cumulative_regret.copy(), "strategy": m.cumulative_strategy.copy(),
           "plus": m.plus, "n": m.number_of_players, "N": m.number_of_coalitions, "limit": m.limit_of_revealed,
           "nrm": m.number_of_regret_minimizers, "viable": m.viable_metacoalitions,
           "pid": m.coalitions_to_player_ids, "attrs": sorted(vars(m))}
    if tables or m.meta_id_to_rank.size <= 2048:  # the id -> rank table of (5, 3) has 2^25 entries: hash it rarely
        ret.update(r2i=m.meta_rank_to_id, i2r=m.meta_id_to_rank)
    return ret


# ---- the coalition -> player id map (np.full spelling)
for n in list(range(0, 9)) + [-1, -3, "x", None, 2.0, np.int64(4), True]:
    rec(("pidmap", repr(n)), get_coalition_player_id_map, n)

rec(("public", ), lambda: sorted(k for k, v in vars(R).items()
                                 if not k.startswith("_") and getattr(v, "__module__", None) == R.__name__))
rec(("importable", ), lambda: [hasattr(R, k) for k in (
    "Coalition", "GameRegretMinimizer", "Iterable", "Path", "RMValue", "all_coalitions", "chain", "coalitions_up_to",
    "combinations", "get_coalition_player_id_map", "json", "metacoalition_ids_by_coalition_size", "np", "scipy")])


def viable(n):
    return [c for c in range(2**n) if bin(c).count("1") not in (0, 1, n)]


def leaves(n, limit):
    v = viable(n)
    return [list(map(Coalition, combo)) for combo in itertools.combinations(v, min(limit, len(v)))]


def probe(tag, m, rng):
    """Observe strategies at nodes, through both the int and the iterable entry."""
    n_nodes = m.number_of_regret_minimizers
    ranks = range(n_nodes) if n_nodes <= 60 else sorted(set(rng.integers(0, n_nodes, 40).tolist() + [0, n_nodes - 1]))
    v = viable(m.number_of_players)
    for r in ranks:
        mid = int(m.meta_rank_to_id[r])
        rec((tag, "rms-int", r), m.regret_matching_strategy, mid)
        past = [Coalition(v[p]) for p in Coalition(mid).players]
        rec((tag, "rms-list", r), m.regret_matching_strategy, past)
        rec((tag, "rms-list-rev", r), m.regret_matching_strategy, past[::-1] + [Coalition(1), Coalition(0)])
        rec((tag, "avg", r), m.get_average_strategy, past)
        rec((tag, "mid", r), m.get_metacoalition_id, iter(past))


def losses(kind, rng, size):
    if kind == "uniform":
        return rng.random(size)
    if kind == "ints":
        return rng.integers(0, 5, size)
    if kind == "zeros":
        return np.zeros(size)
    if kind == "sparse":
        return rng.random(size) * (rng.random(size) < 0.3)
    if kind == "f32big":
        return (rng.random(size) * 1e6).astype(np.float32)
    if kind == "signed":
        return rng.normal(size=size)
    if kind == "list":
        return rng.random(size).tolist()
    raise AssertionError(kind)


KINDS = ["uniform", "ints", "zeros", "sparse", "f32big", "signed", "list"]
configs = [(3, l) for l in range(0, 6)] + [(4, l) for l in range(0, 6)] + [(4, 10), (4, 12)] + [(5, 1), (5, 2), (5, 3)]
seed = 0
for n, limit in configs:
    for plus in (False, True):
        seed += 1
        rng = np.random.default_rng(seed)
        tag = (n, limit, plus)
        try:
            m = GameRegretMinimizer(n, limit, plus)
        except BaseException as e:  # noqa
            LOG.append((tag, "ctor-exc", type(e).__name__, str(e)))
            continue
        LOG.append((tag, "ctor", canon(state(m, tables=True))))
        lv = leaves(n, limit)
        probe(tag + ("t0",), m, rng)
        iters = 7 if (n, limit) not in [(4, 10), (4, 12), (5, 3)] else 3
        for t in range(iters):
            kind = KINDS[(t + seed) % len(KINDS)]
            order = rng.permutation(len(lv))
            if t % 3 == 2 and len(lv) > 2:   # only part of the leaves carries a value
                order = order[: max(1, len(lv) // 2)]
            used = [[lv[j][k] for k in rng.permutation(len(lv[j]))] for j in order]
            if t % 2:  # coalitions of K_0 in the histories are ignored
                used = [u + [Coalition(0), Coalition(2**n - 1), Coalition(2)] for u in used]
            tl = losses(kind, rng, len(used))
            rec(tag + ("iter", t, kind), m.regret_min_iteration, tl, used)
            LOG.append((tag, "state", t, canon(state(m))))
            if t in (0, iters - 1):
                probe(tag + ("t", t), m, rng)
        # exceptional paths of an iteration: the counter moves first, arrays must stay as they were
        rec(tag + ("bad-shape",), m.regret_min_iteration, np.ones(len(lv) + 3), lv)
        LOG.append((tag, "state-bad-shape", canon(state(m))))
        too_big = [list(map(Coalition, viable(n)))] * len(lv)
        rec(tag + ("bad-node",), m.regret_min_iteration, np.ones(len(lv)), too_big)
        rec(tag + ("bad-coalition",), m.regret_min_iteration, np.ones(len(lv)), [[Coalition(2**n + 3)]] * len(lv))
        rec(tag + ("bad-type",), m.regret_min_iteration, np.ones(len(lv)), [3] * len(lv))
        LOG.append((tag, "state-exc", canon(state(m))))
        rec(tag + ("rms-npint",), m.regret_matching_strategy, np.int64(0))
        rec(tag + ("rms-bool",), m.regret_matching_strategy, False)
        rec(tag + ("rms-oob",), m.regret_matching_strategy, 10**9)
        # save / load / continue identically
        d = "scratch"  # relative to the per-side working directory: error messages are the same on both sides
        shutil.rmtree(d, ignore_errors=True)
        os.mkdir(d)
        if True:
            p = Path(d) / "a" / "b"
            rec(tag + ("save",), m.save, p)
            LOG.append((tag, "files", canon({f.name: f.read_bytes() for f in sorted(p.iterdir())})))
            m2 = GameRegretMinimizer.load(p)
            LOG.append((tag, "loaded", canon(state(m2))))
            for t in range(2):
                tl = losses("uniform", rng, len(lv))
                m.regret_min_iteration(tl, lv)
                m2.regret_min_iteration(tl, lv)
                LOG.append((tag, "cont", t, canon(state(m)), canon(state(m2))))
            rec(tag + ("load-missing",), GameRegretMinimizer.load, Path(d) / "nope")
        # an iteration with NaN / inf terminal values
        tl = losses("uniform", rng, len(lv))
        if len(tl):
            tl[0] = np.nan
            tl[-1] = np.inf
        rec(tag + ("iter-nan",), m.regret_min_iteration, tl, lv)
        LOG.append((tag, "state-nan", canon(state(m, tables=True))))

with open(out_path, "wb") as f:
    pickle.dump(LOG, f, protocol=4)
print(len(LOG))
'''


def start_side(root: Path, driver: Path, out: Path) -> subprocess.Popen:
    """Start the driver in a fresh interpreter that sees only `root` (and site-packages)."""
    env = dict(os.environ, PYTHONPATH=str(root), OMP_NUM_THREADS="1", PYTHONHASHSEED="0", PYTHONWARNINGS="ignore")
    return subprocess.Popen([sys.executable, str(driver), str(root), str(out)], env=env, cwd=str(out.parent),
                            stdout=subprocess.PIPE, stderr=subprocess.PIPE, text=True)


def finish_side(proc: subprocess.Popen, root: Path) -> int:
    stdout, stderr = proc.communicate()
    if proc.returncode != 0:
        print(stdout, stderr, sep="\n")
        raise SystemExit(f"driver failed on {root}")
    return int(stdout.strip().splitlines()[-1])


def main() -> int:
    worktree = Path(sys.argv[1] if len(sys.argv) > 1 else os.getcwd()).resolve()
    assert (worktree / "incomplete_cooperative").is_dir(), worktree
    with tempfile.TemporaryDirectory(prefix="equiv_X04_") as tmp_s:
        tmp = Path(tmp_s)
        orig = tmp / "orig"
        orig.mkdir()
        archive = subprocess.run(["git", "archive", "HEAD", "incomplete_cooperative"], cwd=worktree,
                                 capture_output=True, check=True).stdout
        subprocess.run(["tar", "-x", "-C", str(orig)], input=archive, check=True)
        driver = tmp / "driver.py"
        driver.write_text(DRIVER)
        (tmp / "o").mkdir()
        (tmp / "n").mkdir()
        p_orig = start_side(orig, driver, tmp / "o" / "out.pkl")  # the two sides run side by side
        p_new = start_side(worktree, driver, tmp / "n" / "out.pkl")
        n_orig = finish_side(p_orig, orig)
        n_new = finish_side(p_new, worktree)
        a = (tmp / "o" / "out.pkl").read_bytes()
        b = (tmp / "n" / "out.pkl").read_bytes()
        la, lb = pickle.loads(a), pickle.loads(b)
    bad = 0
    if len(la) != len(lb):
        print(f"different number of records: {len(la)} vs {len(lb)}")
        bad += 1
    for x, y in zip(la, lb):
        if x != y:
            bad += 1
            if bad <= 10:
                print("MISMATCH", x[:2], "\n   orig:", repr(x)[:300], "\n   new: ", repr(y)[:300])
    n_exc = sum(1 for x in la if len(x) > 1 and x[1] in ("exc", "ctor-exc"))
    print(f"records: {n_orig} / {n_new}, of which exceptions: {n_exc}; mismatches: {bad}; "
          f"pickles byte-equal: {a == b}")
    return 0 if bad == 0 else 1


if __name__ == "__main__":
    sys.exit(main())
