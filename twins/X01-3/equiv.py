#!/venv/bin/python
"""Differential equivalence check for patch_3 (coalitions.py match statements and explicit generator loop, meta_game star-unpacking).

Runs the same deterministic driver against the ORIGINAL package (git archive HEAD) and against the
worktree (patch applied), each in its own interpreter, and compares the pickled, normalised outcomes
byte for byte.  Exit status 0 iff identical.
"""
import os
import pickle
import subprocess
import sys
import tempfile

WT = "/tmp/wt_x4_X01"
PY = "/venv/bin/python"
TOUCHED = ['incomplete_cooperative/coalitions.py', 'incomplete_cooperative/meta_game.py']

COMMON = r'''
import enum, pickle, sys
import numpy as np

def norm(x):
    """Turn a value into a plain, bit-exact, pickle-stable structure."""
    from incomplete_cooperative.coalitions import Coalition
    if isinstance(x, BaseException):
        return ("exc", type(x).__name__, str(x))
    if isinstance(x, np.ndarray):
        if x.dtype == object:
            return ("ndo", x.shape, [norm(y) for y in x.ravel().tolist()])
        return ("nd", x.dtype.str, x.shape, np.ascontiguousarray(x).tobytes())
    if isinstance(x, np.generic):
        return ("ng", x.dtype.str, x.tobytes())
    if isinstance(x, enum.Enum):
        return ("enum", type(x).__name__, x.name)
    if isinstance(x, Coalition):
        return ("C", norm(x.id))
    if isinstance(x, bool) or x is None or isinstance(x, (int, str, bytes)):
        return (type(x).__name__, x)
    if isinstance(x, float):
        return ("float", x.hex())
    if isinstance(x, (list, tuple)):
        return (type(x).__name__, [norm(y) for y in x])
    if isinstance(x, dict):
        return ("dict", [(norm(k), norm(v)) for k, v in x.items()])
    if isinstance(x, (set, frozenset)):
        return (type(x).__name__, sorted(repr(norm(y)) for y in x))
    return ("obj", type(x).__module__, type(x).__qualname__)

RESULTS = []

def rec(label, thunk):
    try:
        value = thunk()
    except BaseException as e:  # noqa
        value = e
    RESULTS.append((label, norm(value)))

def finish():
    import incomplete_cooperative
    expected_root = sys.argv[2]
    assert incomplete_cooperative.__file__.startswith(expected_root + "/"), (incomplete_cooperative.__file__, expected_root)
    with open(sys.argv[1], "wb") as f:
        pickle.dump(RESULTS, f, protocol=4)
    print("driver:", len(RESULTS), "records from", expected_root)
'''

DRIVER = COMMON + r'''
import types, warnings
from incomplete_cooperative import coalitions as C
from incomplete_cooperative.coalitions import Coalition
from incomplete_cooperative.bounds import BOUNDS
from incomplete_cooperative.game import IncompleteCooperativeGame
from incomplete_cooperative.exploitability import compute_exploitability
from incomplete_cooperative.norms import l1_norm, l2_norm, linf_norm
from incomplete_cooperative.meta_game import MetaGame
from incomplete_cooperative.run import best_states as BS
from incomplete_cooperative.icg_gym import ICG_Gym



def nan_on_even_gap(game):
    """A gap function that is NaN whenever an even number of values is known (picklable by reference under fork)."""
    if int(np.sum(game.are_values_known())) % 2 == 0:
        return np.float64("nan")
    return l1_norm(game)


GAPS = {"expl": compute_exploitability, "l1": l1_norm, "l2": l2_norm, "linf": linf_norm, "nan": nan_on_even_gap}


def superadditive_values(n, kind, rng):
    size = 2**n
    if kind == "int":
        raw = rng.integers(0, 12, size).astype(float)
    elif kind == "dyadic":
        raw = rng.integers(-16, 64, size) / 8.0
    else:
        raw = rng.uniform(0, 3, size) * 0.1
    v = raw.copy()
    v[0] = 0.0
    for s in sorted(range(size), key=lambda s: bin(s).count("1")):
        t = (s - 1) & s
        while t:
            cand = v[t] + v[s ^ t]
            if cand > v[s]:
                v[s] = cand
            t = (t - 1) & s
    return v


def minimal(n):
    return {0, 2**n - 1} | {2**i for i in range(n)}


def make_full(n, kind, rng, computer="superadditive_cached"):
    full = IncompleteCooperativeGame(n, BOUNDS[computer])
    full.set_values(superadditive_values(n, kind, rng))
    return full


def make_incomplete(n, full, known, computer):
    game = IncompleteCooperativeGame(n, BOUNDS[computer])
    coalitions = [Coalition(s) for s in sorted(known)]
    game.set_known_values(full.get_values(coalitions), coalitions)
    return game


def attempt(thunk):
    try:
        return thunk()
    except BaseException as e:  # noqa
        return e


# ---- A. the Coalition value type ------------------------------------------------------------------------
IDS = list(range(40)) + [63, 64, 255, 1023, 2**31, 2**40 + 5]
ODD = [0, 1, 2, 5, 31, -1, True, False, None, "x", "1", 1.0, 2.5, float("nan"), (1,), [1], {1}, b"1", 3 + 0j,
       np.int64(1), np.int32(2), np.uint8(3), np.bool_(True), np.float64(1.0), np.array(1), np.array([1, 2]),
       Coalition, int, Coalition(np.int32(5)), Coalition(np.int64(6)), Coalition(True),
       range(3), 64, 200]
BINARY = {
    "contains": lambda a, b: b in a,
    "rcontains": lambda a, b: a in b,
    "and": lambda a, b: a & b,
    "rand": lambda a, b: b & a,
    "or": lambda a, b: a | b,
    "ror": lambda a, b: b | a,
    "sub": lambda a, b: a - b,
    "rsub": lambda a, b: b - a,
    "add": lambda a, b: a + b,
    "radd": lambda a, b: b + a,
    "eq": lambda a, b: a == b,
    "req": lambda a, b: b == a,
    "ne": lambda a, b: a != b,
    "rne": lambda a, b: b != a,
    "xor": lambda a, b: a ^ b,
    "lt": lambda a, b: a < b,
}
for name, op in BINARY.items():
    rec(("coalition-pairs", name), lambda: [attempt(lambda: op(Coalition(a), Coalition(b))) for a in IDS for b in IDS])
    rec(("coalition-players", name), lambda: [attempt(lambda: op(Coalition(a), p)) for a in IDS for p in range(-2, 12)])
    for i, odd in enumerate(ODD):
        rec(("coalition-odd", name, i), lambda: [attempt(lambda: op(Coalition(a), odd)) for a in [0, 1, 2, 3, 6, 31, 255]])
    rec(("coalition-npid", name), lambda: [attempt(lambda: op(Coalition(np.int32(a)), Coalition(np.int64(b))))
                                           for a in range(16) for b in range(16)])
    rec(("coalition-npid-int", name), lambda: [attempt(lambda: op(Coalition(np.int32(a)), p))
                                               for a in range(16) for p in range(5)])
UNARY = {
    "len": len, "hash": hash, "players": lambda c: list(c.players), "id": lambda c: c.id,
    "inverted5": lambda c: c.inverted(5), "inverted0": lambda c: c.inverted(0), "bool": bool,
    "self-eq": lambda c: c == c, "in-list": lambda c: c in [Coalition(1), Coalition(7), 3],
    "in-set": lambda c: c in {Coalition(1), Coalition(7), Coalition(38)},
    "index": lambda c: [Coalition(5), 1, Coalition(1), Coalition(c.id)].index(c),
    "count": lambda c: [Coalition(5), 1, Coalition(1), Coalition(c.id), None].count(c),
    "dict": lambda c: {Coalition(i): i for i in range(64)}.get(c, "missing"),
    "from_players": lambda c: Coalition.from_players(c.players),
    "sub-coalitions": lambda c: list(C.get_sub_coalitions(c)) if c.id < 300 else None,
    "super-coalitions": lambda c: list(C.get_super_coalitions(c, 6)) if c.id < 64 else None,
    "exclude": lambda c: list(C.exclude_coalition(c, C.all_coalitions(4))),
    "disjoint": lambda c: [C.disjoint_coalitions(c, Coalition(b)) for b in range(16)],
    "player_to_coalition": lambda c: attempt(lambda: C.player_to_coalition(c.id % 7)),
}
for name, op in UNARY.items():
    rec(("coalition-unary", name), lambda: [attempt(lambda: op(Coalition(a))) for a in IDS])
rec("coalition-sorted", lambda: sorted(map(Coalition, range(64)), key=len))
rec("coalition-dedup", lambda: sorted(c.id for c in set(list(map(Coalition, range(32))) + list(map(Coalition, range(16, 48))))))
rec("coalition-union", lambda: list(set(map(Coalition, [5, 3, 9])).union(map(Coalition, [9, 1, 3, 12]))))
rec("coalition-pickle", lambda: [pickle.dumps(Coalition(a), protocol=4) for a in IDS])
for fn_name in ["grand_coalition", "all_coalitions", "minimal_game_coalitions"]:
    fn = getattr(C, fn_name)
    for arg in [0, 1, 2, 3, 5, True, np.int64(3), "x", None, 2.0, IncompleteCooperativeGame(3), Coalition(3)]:
        rec(("coalition-fn", fn_name, repr(arg)[:30]), lambda: attempt(lambda: (lambda r: r if isinstance(r, Coalition) else list(r))(fn(arg))))
for public in ["Coalition", "player_to_coalition", "grand_coalition", "all_coalitions", "minimal_game_coalitions",
               "exclude_coalition", "get_known_coalitions", "get_sub_coalitions", "get_super_coalitions",
               "disjoint_coalitions", "powerset", "Game", "IncompleteGame", "Player", "T"]:
    rec(("name-coalitions", public), lambda: hasattr(C, public))
rec("coalition-methods", lambda: sorted(k for k in vars(Coalition) if k not in ("__doc__", "__firstlineno__", "__static_attributes__")))
rec("coalition-from_players-static", lambda: type(vars(Coalition)["from_players"]).__name__)

# ---- B. bounds through the Coalition arithmetic (uncached computer) and the cached one ---------------------
for n in range(2, 6):
    for seed in range({2: 8, 3: 8, 4: 6, 5: 3}[n]):
        for kind in ["int", "dyadic", "float"]:
            rng = np.random.default_rng([8, n, seed, len(kind)])
            full = make_full(n, kind, rng)
            for p in [0.0, 0.3, 0.7]:
                known = minimal(n) | {int(s) for s in range(2**n) if rng.random() < p}
                for computer in ["superadditive", "superadditive_cached"]:
                    def run():
                        game = make_incomplete(n, full, known, computer)
                        game.compute_bounds()
                        return game._values.copy(), compute_exploitability(game)
                    rec(("bounds", n, seed, kind, p, computer), run)

# ---- C. the meta game ------------------------------------------------------------------------------------------
for n in [2, 3, 4]:
    for seed in range(4):
        for computer in ["superadditive", "superadditive_cached"]:
            for gap_name in ["expl", "l1", "linf"]:
                rng = np.random.default_rng([9, n, seed])
                full = make_full(n, ["int", "dyadic", "float"][seed % 3], rng, computer)
                incomplete = make_incomplete(n, full, minimal(n), computer)
                tag = ("meta", n, seed, computer, gap_name)
                meta = attempt(lambda: MetaGame(full, incomplete, GAPS[gap_name]))
                rec(tag + ("init",), lambda: (meta.k_zero, meta.players, meta.number_of_players, meta.game is full,
                                              meta._incomplete is incomplete))
                m = meta.number_of_players
                picks = list(range(2**m)) if m <= 3 else [int(x) for x in rng.integers(0, 2**m, 24)] + [0, 2**m - 1]
                if computer == "superadditive" and n == 4:
                    picks = picks[:8]
                for s in picks:
                    rec(tag + ("value", s), lambda: (meta.get_value(Coalition(s)), meta._incomplete._values.copy()))
                rec(tag + ("values-some",), lambda: meta.get_values([Coalition(s) for s in picks[:6]]))
                rec(tag + ("values-generator",), lambda: meta.get_values(Coalition(s) for s in picks[:6]))
                if m <= 3:
                    rec(tag + ("values-all",), lambda: meta.get_values())
                    rec(tag + ("values-none",), lambda: meta.get_values(None))
                rec(tag + ("out-of-range",), lambda: meta.get_value(Coalition(2**m)))
                rec(tag + ("out-of-range-state",), lambda: meta._incomplete._values.copy())
                rec(tag + ("np-id",), lambda: meta.get_value(Coalition(np.int64(1))))
                rec(tag + ("not-a-coalition",), lambda: meta.get_value(3))
                rec(tag + ("k_zero-untouched",), lambda: (meta.k_zero, meta.players))
                rec(tag + ("incomplete-untouched",), lambda: incomplete._values.copy())

# ---- D. best states ----------------------------------------------------------------------------------------------
# (untouched by the patch, but it ships Coalition objects through pickling and uses their ids)
for n, step_limits in [(3, [0, 2]), (4, [1])]:
    for seed in range(2):
        for repetitions in [1, 2]:
            for max_steps in step_limits:
                for gap_name in ["expl", "nan"]:
                    processes = 1 + (seed + repetitions + max_steps) % 2
                    computer = ["superadditive", "superadditive_cached"][(seed + max_steps) % 2]
                    source = ["random", "fixed"][(seed + repetitions) % 2]
                    rng = np.random.default_rng([10, n, seed, repetitions])
                    fixed = make_full(n, "int", rng, computer)

                    def generator():
                        if source == "fixed":
                            return fixed.copy()
                        return make_full(n, ["int", "dyadic", "float"][seed % 3], rng, computer)
                    env = types.SimpleNamespace(incomplete_game=make_incomplete(n, fixed, minimal(n), computer),
                                                generator=generator)

                    def run():
                        best, actions = BS.get_best_exploitability(env, max_steps, repetitions, GAPS[gap_name],
                                                                   processes=processes)
                        return best, actions, env.incomplete_game._values.copy()
                    rec(("best", n, seed, repetitions, max_steps, gap_name, source), run)

for n in [3, 4]:
    rng = np.random.default_rng([11, n])
    fixed = make_full(n, "dyadic", rng, "superadditive_cached")
    gym_env = ICG_Gym(IncompleteCooperativeGame(n, BOUNDS["superadditive_cached"]), lambda: fixed.copy(),
                      [Coalition(s) for s in minimal(n)], compute_exploitability)
    rec(("best-gym", n), lambda: BS.get_best_exploitability(gym_env, 2, 2, compute_exploitability))
    rec(("best-gym-positional", n), lambda: BS.get_best_exploitability(gym_env, 1, 1, l2_norm, 2))
rec("best-negative-steps", lambda: BS.get_best_exploitability(gym_env, -1, 1, l1_norm))
rec("best-zero-repetitions", lambda: BS.get_best_exploitability(gym_env, 1, 0, l1_norm))
rec("best-bad-env", lambda: BS.get_best_exploitability(None, 1, 1, l1_norm))

for case in range(8):
    def fill():
        rng = np.random.default_rng([12, case])
        target = np.full((4, 3), np.nan)
        coalitions = [[int(x) for x in rng.integers(0, 16, rng.integers(0, 4))] for _ in range(rng.integers(0, 5))]
        BS.fill_in_coalitions(target, coalitions)
        return target
    rec(("fill", case), fill)
for public in ["best_states_func", "fill_in_coalitions", "get_best_exploitability", "add_best_states_parser",
               "sample_exploitabilities_of_action_sequences", "ICG_Gym", "GapFunction", "Value", "ModelInstance",
               "Output", "save", "np"]:
    rec(("name-best-states", public), lambda: hasattr(BS, public))

finish()
'''


def run_both(driver_source, touched):
    with tempfile.TemporaryDirectory() as tmp:
        orig = os.path.join(tmp, "orig")
        os.makedirs(orig)
        subprocess.run(f"git -C {WT} archive HEAD incomplete_cooperative | tar -x -C {orig}", shell=True, check=True)
        changed = [p for p in touched
                   if open(os.path.join(orig, p), "rb").read() != open(os.path.join(WT, p), "rb").read()]
        print("files differing from HEAD:", changed or "NONE (patch not applied? comparison is trivial)")
        driver = os.path.join(tmp, "driver.py")
        with open(driver, "w") as f:
            f.write(driver_source)
        procs = []
        for label, tree in (("orig", orig), ("new", WT)):  # two separate interpreters, side by side
            out = os.path.join(tmp, label + ".pkl")
            env = dict(os.environ, PYTHONPATH=tree, OMP_NUM_THREADS="1", PYTHONHASHSEED="0",
                       PYTHONDONTWRITEBYTECODE="1")
            procs.append((out, subprocess.Popen([PY, driver, out, tree], cwd=tmp, env=env)))
        blobs = []
        for out, proc in procs:
            if proc.wait() != 0:
                raise SystemExit(f"driver failed with status {proc.returncode}")
        for out, proc in procs:
            with open(out, "rb") as f:
                blobs.append(f.read())
    return blobs


def main():
    blob_orig, blob_new = run_both(DRIVER, TOUCHED)
    if blob_orig == blob_new:
        print(f"IDENTICAL ({len(pickle.loads(blob_orig))} records, {len(blob_orig)} bytes)")
        return 0
    a, b = pickle.loads(blob_orig), pickle.loads(blob_new)
    print(f"DIFFERENT: {len(a)} vs {len(b)} records")
    shown = 0
    for (la, va), (lb, vb) in zip(a, b):
        if la != lb or va != vb:
            print("  first differences at", la, lb)
            print("    orig:", repr(va)[:300])
            print("    new: ", repr(vb)[:300])
            shown += 1
            if shown >= 5:
                break
    return 1


if __name__ == "__main__":
    sys.exit(main())
