"""Differential equivalence check: original (git HEAD) vs refactored (worktree) incomplete_cooperative.game.

Runs one deterministic driver in two interpreters and compares the pickled traces byte for byte.
Exit status 0 iff identical.
"""
import os
import shutil
import subprocess
import sys
import tempfile

WT = "/tmp/wt_y5_Y02"
PY = "/venv/bin/python"

DRIVER = r'''
import pickle, sys, random
import numpy as np
from incomplete_cooperative.game import IncompleteCooperativeGame
import incomplete_cooperative.game as game_mod
from incomplete_cooperative.coalitions import Coalition

SPECIAL = [0.0, -0.0, 1.0, -1.5, float("nan"), float("inf"), -float("inf"), 1e-300, 3]


def canon(x, g=None):
    if isinstance(x, np.ndarray):
        shares = bool(g is not None and np.shares_memory(x, g._values))
        return ("nd", x.dtype.str, x.shape, x.tobytes(), shares, bool(x.flags.writeable))
    if isinstance(x, np.generic):
        return ("ng", x.dtype.str, x.tobytes())
    if isinstance(x, IncompleteCooperativeGame):
        return ("game", x.number_of_players, canon(x._values), x._bounds_computer.__name__,
                sorted(x.__dict__), pickle.dumps(x, protocol=4))
    if isinstance(x, (list, tuple)):
        return (type(x).__name__, [canon(y, g) for y in x])
    if isinstance(x, float):
        return ("f", np.float64(x).tobytes())
    return (type(x).__name__, repr(x))


def filler(game):
    """A bounds computer that modifies the game."""
    n = 2 ** game.number_of_players
    game.set_lower_bounds(np.arange(n, dtype=float) - 1)
    game.set_upper_bounds(np.arange(n, dtype=float) + 1)


def run(n, seed, trace):
    rnd = random.Random(seed * 1000 + n)
    size = 2 ** n
    g = IncompleteCooperativeGame(n, filler) if seed % 2 else IncompleteCooperativeGame(n)
    other = IncompleteCooperativeGame(n)
    other.set_values(np.array([rnd.choice([1.0, 2.5, -3.0]) for _ in range(size)]))
    trace.append(("init", canon(g)))

    def val():
        return rnd.choice(SPECIAL) if rnd.random() < 0.3 else rnd.uniform(-10, 10)

    def coal():
        # mostly valid ids, sometimes out of range
        return Coalition(rnd.randrange(size) if rnd.random() < 0.95 else size + rnd.randrange(3))

    def coals(k=None, allow_none=True):
        if allow_none and rnd.random() < 0.25:
            return None
        k = rnd.randrange(0, size + 1) if k is None else k
        ids = [rnd.randrange(size) for _ in range(k)] if rnd.random() < 0.5 else rnd.sample(range(size), min(k, size))
        cs = [Coalition(i) for i in ids]
        kind = rnd.randrange(3)
        if kind == 0:
            return cs
        if kind == 1:
            return (c for c in cs)
        return tuple(cs)

    def vals(cs_len):
        k = cs_len
        r = rnd.random()
        if r < 0.15:
            k = max(0, k + rnd.choice([-1, 1, 2]))
        arr = [val() for _ in range(k)]
        kind = rnd.randrange(3)
        if kind == 0:
            return arr
        if kind == 1:
            return np.array(arr, dtype=float)
        return np.array(arr, dtype=float) * 2

    def with_len(allow_none=True):
        if allow_none and rnd.random() < 0.25:
            return None, size
        k = rnd.randrange(0, size + 1)
        ids = [rnd.randrange(size) for _ in range(k)]
        cs = [Coalition(i) for i in ids]
        if rnd.random() < 0.3:
            return (c for c in cs), k
        return cs, k

    ops = []

    def op(f):
        ops.append(f)
        return f

    @op
    def o_set_value():
        return g.set_value(val(), coal())

    @op
    def o_unset_value():
        return g.unset_value(coal())

    @op
    def o_set_values():
        cs, k = with_len()
        v = vals(k)
        if rnd.random() < 0.15 and cs is None:
            v = g.get_upper_bounds()  # a view of the table itself
        if rnd.random() < 0.1 and cs is None:
            v = -g.get_lower_bounds()[::-1]
        r = rnd.random()
        if r < 0.08:
            v = val()  # a scalar: one coalition, or broadcast over all
            if cs is not None:
                cs = [Coalition(rnd.randrange(size)) for _ in range(rnd.choice([1, 1, 2, 0]))]
        elif r < 0.14:
            v = np.array(v, dtype=float).reshape(-1, 1)  # wrong rank
        elif r < 0.2:
            v = np.array(v, dtype=float).reshape(1, -1)
        return g.set_values(v, cs)

    @op
    def o_get_value():
        return g.get_value(coal())

    @op
    def o_get_values():
        return g.get_values(coals())

    @op
    def o_get_bound():
        c = coal()
        return [g.get_upper_bound(c), g.get_lower_bound(c), g.get_interval(c), g.is_value_known(c),
                g.get_known_value(c)]

    @op
    def o_get_bounds():
        cs, _ = with_len()
        cs = list(cs) if cs is not None else None
        return [g.get_upper_bounds(cs), g.get_lower_bounds(cs), g.get_intervals(cs), g.are_values_known(cs),
                g.get_known_values(cs)]

    @op
    def o_get_bounds_gen():
        which = rnd.choice(["get_upper_bounds", "get_lower_bounds", "get_intervals", "are_values_known",
                            "get_known_values", "get_values"])
        return getattr(g, which)(coals())

    @op
    def o_filter():
        which = rnd.randrange(3)
        v = [g._values[:, 1], g._values, np.arange(size)][which]
        return g._filter_out_coalitions(v, coals())

    @op
    def o_set_known_values():
        cs, k = with_len()
        v = vals(k)
        r = rnd.random()
        if r < 0.2:
            v = (x for x in list(v))
        elif r < 0.35 and cs is None:
            v = g.get_upper_bounds()
        elif r < 0.5 and cs is None:
            v = (x + 1 for x in g.get_lower_bounds())
        return g.set_known_values(v, cs)

    @op
    def o_reveal():
        return g.reveal_value(val(), coal())

    @op
    def o_unreveal():
        return g.unreveal_value(coal())

    @op
    def o_map():
        cs, k = with_len()
        count = rnd.choice([-1, k, k, max(0, k - 1), k + 1])
        if cs is None:
            return g._get_coalition_map(None) if rnd.random() < 0.5 else g._get_coalition_map(None, count)
        return g._get_coalition_map(cs, count) if rnd.random() < 0.7 else g._get_coalition_map(cs)

    @op
    def o_set_bounds():
        cs, k = with_len()
        v = vals(k)
        if rnd.random() < 0.5 or isinstance(v, list) and cs is None:
            v = np.array(v, dtype=float)
        f = g.set_upper_bounds if rnd.random() < 0.5 else g.set_lower_bounds
        return f(v, cs)

    @op
    def o_set_bound():
        f = g.set_upper_bound if rnd.random() < 0.5 else g.set_lower_bound
        return f(val(), coal())

    @op
    def o_eq():
        r = rnd.random()
        if r < 0.3:
            return g == g.copy()
        if r < 0.6:
            return g == other
        if r < 0.8:
            return g == IncompleteCooperativeGame(n + 1)
        return g == rnd.choice([1, None, "x"])

    @op
    def o_full():
        return g.full

    @op
    def o_copy():
        c = g.copy()
        before = canon(c)
        c.set_value(val(), Coalition(rnd.randrange(size)))
        c.set_upper_bound(val(), Coalition(rnd.randrange(size)))
        return [before, canon(c), canon(g), c._bounds_computer is g._bounds_computer]

    @op
    def o_neg():
        m = -g
        mm = -m
        return [canon(m), canon(mm), canon(g), bool(np.shares_memory(m._values, g._values))]

    @op
    def o_add():
        r = rnd.random()
        if r < 0.4:
            return canon(g + other)
        if r < 0.6:
            return canon(other + g)
        if r < 0.75:
            return canon(g + IncompleteCooperativeGame(n + 1))
        if r < 0.9:
            return canon(other + other.copy())
        return canon(g + 3)

    @op
    def o_fill_all():
        return g.set_values([val() for _ in range(size)])

    @op
    def o_compute_bounds():
        return g.compute_bounds()

    @op
    def o_repr():
        return repr(g)

    @op
    def o_pickle():
        h = pickle.loads(pickle.dumps(g))
        return [pickle.dumps(g, protocol=4), canon(h), h == g]

    @op
    def o_init_values():
        if rnd.random() < 0.3:
            return g._init_values()

    for step in range(60):
        f = rnd.choice(ops)
        try:
            res = ("ok", canon(f(), g))
        except BaseException as e:  # noqa
            res = ("exc", type(e).__name__, str(e))
        trace.append((n, seed, step, f.__name__, res, g._values.dtype.str, g._values.shape, g._values.tobytes()))


def main(out):
    trace = []
    for n in (1, 2, 3, 4, 5):
        for seed in range(24):
            run(n, seed, trace)
    # every public name of the original module / class must still be there (new imports may add names)
    mod_names = ['Any', 'BoundableIncompleteGame', 'Callable', 'Coalition', 'CoalitionPlayers', 'Coalitions',
                 'IncompleteCooperativeGame', 'Iterable', 'LOGGER', 'Literal', 'Value', 'ValueIn', 'Values',
                 'annotations', 'logging', 'np', '_none_bounds']
    pub = sorted(k for k in vars(IncompleteCooperativeGame) if not k.startswith("__"))
    trace.append(("names", [(k, hasattr(game_mod, k)) for k in mod_names], pub,
                  [type(vars(IncompleteCooperativeGame)[k]).__name__ in ("function", "staticmethod", "property")
                   for k in pub if not k.startswith("_values_")],
                  [int(IncompleteCooperativeGame._values_is_known_index),
                   int(IncompleteCooperativeGame._values_lower_index),
                   int(IncompleteCooperativeGame._values_upper_index)],
                  game_mod._none_bounds.__module__, IncompleteCooperativeGame.__module__,
                  IncompleteCooperativeGame.__qualname__))
    with open(out, "wb") as f:
        pickle.dump(trace, f, protocol=4)
    print(len(trace), "records", sum(1 for t in trace if len(t) > 4 and t[4][0] == "exc"), "exceptions")


main(sys.argv[1])
'''


def main() -> int:
    tmp = tempfile.mkdtemp(prefix="equiv_y02b_")
    try:
        orig = os.path.join(tmp, "orig")
        os.mkdir(orig)
        archive = subprocess.run(["git", "archive", "HEAD", "incomplete_cooperative"], cwd=WT, check=True,
                                 stdout=subprocess.PIPE).stdout
        subprocess.run(["tar", "-x", "-C", orig], input=archive, check=True)
        driver = os.path.join(tmp, "driver.py")
        with open(driver, "w") as f:
            f.write(DRIVER)
        outs = []
        for name, path in (("orig", orig), ("new", WT)):
            out = os.path.join(tmp, name + ".pkl")
            env = dict(os.environ, PYTHONPATH=path, PYTHONHASHSEED="0", OMP_NUM_THREADS="1",
                       PYTHONDONTWRITEBYTECODE="1")
            p = subprocess.run([PY, driver, out], cwd=tmp, env=env, stdout=subprocess.PIPE, stderr=subprocess.STDOUT,
                               text=True)
            print(name, p.stdout.strip())
            if p.returncode != 0:
                print("driver failed for", name)
                return 2
            with open(out, "rb") as f:
                outs.append(f.read())
        if outs[0] == outs[1]:
            print("IDENTICAL", len(outs[0]), "bytes")
            return 0
        import pickle
        a, b = pickle.loads(outs[0]), pickle.loads(outs[1])
        for x, y in zip(a, b):
            if x != y:
                print("FIRST DIFFERENCE:\n", str(x)[:600], "\n", str(y)[:600])
                break
        print("DIFFERENT")
        return 1
    finally:
        shutil.rmtree(tmp, ignore_errors=True)


if __name__ == "__main__":
    sys.exit(main())
