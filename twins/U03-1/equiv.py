"""Differential test for refactoring 1 (reference superadditive bound computer in bounds.py).

Run with cwd=/tmp/wt10/U03.  Loads the ORIGINAL package from git HEAD under the name `icg_orig`
and the working-tree package as `incomplete_cooperative`, runs every BOUNDS entry of both on many
incomplete games and compares the full (known, lower, upper) tables bit for bit, exceptions included.
"""
import importlib
import io
import itertools
import os
import re
import subprocess
import sys
import tarfile
import tempfile

import numpy as np

WT = os.getcwd()


def load_original(name="icg_orig"):
    tmp = tempfile.mkdtemp(prefix="equiv_orig_")
    data = subprocess.run(["git", "-C", WT, "archive", "HEAD", "incomplete_cooperative"],
                          check=True, capture_output=True).stdout
    tarfile.open(fileobj=io.BytesIO(data)).extractall(tmp)
    os.rename(os.path.join(tmp, "incomplete_cooperative"), os.path.join(tmp, name))
    for root, _, files in os.walk(os.path.join(tmp, name)):
        for f in files:
            if f.endswith(".py"):
                p = os.path.join(root, f)
                s = open(p).read()
                s2 = re.sub(r"\bincomplete_cooperative\b", name, s)
                if s2 != s:
                    open(p, "w").write(s2)
    sys.path.insert(0, tmp)
    return name


ORIG = load_original()
sys.path.insert(0, WT)


def mods(pkg):
    return {m: importlib.import_module(f"{pkg}.{m}") for m in ("bounds", "game", "coalitions", "coalition_ids")}


O = mods(ORIG)
N = mods("incomplete_cooperative")
assert O["bounds"].__file__ != N["bounds"].__file__
assert N["bounds"].__file__.startswith(WT)


def run(m, n, known_ids, values, key, repeat):
    """Build a game, compute bounds `repeat` times, return table or exception signature."""
    Coalition = m["coalitions"].Coalition
    game = m["game"].IncompleteCooperativeGame(n, m["bounds"].BOUNDS[key])
    try:
        game.set_known_values(values[known_ids], [Coalition(int(i)) for i in known_ids])
        out = []
        for _ in range(repeat):
            game.compute_bounds()
            out.append(game._values.copy())
        out.append(np.array(game.get_known_values()))
        return ("ok", out)
    except BaseException as e:  # noqa
        return ("exc", type(e).__name__, str(e), game._values.copy())


def same(a, b):
    if a[0] != b[0]:
        return False
    if a[0] == "exc":
        return a[1:3] == b[1:3] and np.array_equal(a[3], b[3], equal_nan=True)
    return len(a[1]) == len(b[1]) and all(
        x.dtype == y.dtype and x.shape == y.shape and np.array_equal(x, y, equal_nan=True)
        for x, y in zip(a[1], b[1]))


def cases():
    """Yield (n, known_ids, values, tag)."""
    for seed in range(6):
        rng = np.random.default_rng(1000 + seed)
        for n in (5, 2, 4, 3, 1, 6, 3, 5):  # interleaved player counts
            reps = 14 if n < 6 else 3
            for r in range(reps):
                size = 2**n
                kind = r % 5
                if kind == 0:      # integer valued, superadditive-like
                    w = rng.integers(0, 9, n)
                    values = np.array([float(sum(w[i] for i in range(n) if c >> i & 1)) ** 2 for c in range(size)])
                elif kind == 1:    # arbitrary floats
                    values = rng.normal(size=size) * 10
                elif kind == 2:    # dyadic rationals (exact sums)
                    values = rng.integers(-64, 64, size) / 8.0
                elif kind == 3:    # positive floats, additive + noise
                    w = rng.random(n)
                    values = np.array([sum(w[i] for i in range(n) if c >> i & 1) for c in range(size)]) \
                        + rng.random(size) * 0.1
                else:              # with ties / zeros
                    values = rng.integers(0, 3, size).astype(float)
                values[0] = 0.0
                minimal = {0, size - 1} | {2**i for i in range(n)}
                mode = r % 4
                if mode == 0:
                    extra = set()
                elif mode == 1:
                    extra = set(range(size))
                else:
                    extra = set(int(x) for x in np.flatnonzero(rng.random(size) < rng.random()))
                known = minimal | extra
                if r % 7 == 6 and n >= 2:   # violate a precondition: drop a singleton / the grand coalition
                    known.discard([1, size - 1][r % 2])
                yield n, np.array(sorted(known)), values, f"seed={seed} n={n} r={r} kind={kind} mode={mode}"


def main():
    count = 0
    stats = {"ok": 0, "exc": 0}
    keys = list(N["bounds"].BOUNDS)
    assert keys == list(O["bounds"].BOUNDS)
    for n, known_ids, values, tag in cases():
        for key in keys:
            if key in ("sam_apx_100", "sam_apx_1000") and (n > 3 or count % 3):
                continue
            if key == "sam_apx_10" and n > 4:
                continue
            for repeat in (1, 2):
                a = run(O, n, known_ids, values, key, repeat)
                b = run(N, n, known_ids, values, key, repeat)
                count += 1
                stats[a[0]] += 1
                if not same(a, b):
                    print("DIFFERENT")
                    print("case:", tag, "key:", key, "repeat:", repeat)
                    print("known ids:", known_ids.tolist())
                    print("values:", values.tolist())
                    print("original:", a)
                    print("refactored:", b)
                    return 1
    print(f"{count} differential runs over {len(keys)} registry entries; outcomes of the original: {stats}")
    print("EQUIVALENT")
    return 0


if __name__ == "__main__":
    sys.exit(main())
