#!/usr/bin/env python
"""Differential equivalence check for patch_1 (save_json / json_serializer / save in run/save.py).

The original package is extracted from git HEAD into a temporary directory.  The refactored tree is the worktree
if it is dirty (the patch is applied there); if the worktree is clean a second copy of HEAD is made and
patch_1.diff (next to this script) is applied to it.  Both are driven by the same deterministic driver in
separate interpreters; the pickled outcomes must be byte-identical.
"""
import os
import pickle
import shutil
import subprocess
import sys
import tempfile
from pathlib import Path

WORKTREE = Path(os.environ.get("WORKTREE", "/tmp/wt_y5_Y01"))
PATCH = Path(__file__).resolve().with_name("patch_1.diff")
PYTHON = os.environ.get("PYTHON", "/venv/bin/python")

DRIVER = r'''
import datetime, json, os, pickle, sys
from argparse import Namespace
from pathlib import Path, PurePosixPath, PosixPath
from unittest.mock import patch

import matplotlib
matplotlib.use("Agg")
import numpy as np

import incomplete_cooperative.run.save as S
from incomplete_cooperative.run.save import Output, save, save_json, json_serializer, SAVERS

out = []


def outcome(fn, *a):
    try:
        return ("ok", fn(*a))
    except BaseException as e:  # noqa
        return ("exc", type(e).__module__, type(e).__qualname__, str(e), repr(getattr(e, "args", None)))


def tree(root):
    res = []
    for p in sorted(Path(root).rglob("*")):
        res.append((str(p), "d" if p.is_dir() else p.read_bytes()))
    return res


# ---------------------------------------------------------------- json_serializer
class BadRepr:
    def __repr__(self):
        raise RuntimeError("no repr")


class MyPath(PosixPath):
    pass


class Spoof:
    """`isinstance` looks at `__class__` too."""
    @property
    def __class__(self):
        return PosixPath

    def __str__(self):
        return "spoofed"

    def __repr__(self):
        return "Spoof()"


class StrSub(str):
    def __repr__(self):
        return "StrSub!"


OBJS = [Path("/x/y/z"), Path("rel/a.b"), Path(""), PurePosixPath("/pure"), MyPath("/my/path"), Spoof(), BadRepr(),
        "text", StrSub("q"), b"bytes", 1, 2.5, float("nan"), None, True, (1, 2), [Path("a")], {"k": Path("b")},
        {1, 2}, frozenset(), datetime.date(2020, 12, 10), datetime.timedelta(3), Namespace(a=1, p=Path("n")),
        np.float64(1.5), np.int64(7), np.arange(4), np.array([[1.0, np.nan]]), complex(1, 2), range(3), Path,
        int, len, Ellipsis, NotImplemented, slice(1, 2), np.dtype("f8"), np.bool_(True)]
for o in OBJS:
    out.append(("ser", repr(type(o)), outcome(json_serializer, o)))
    out.append(("dumps", outcome(lambda o=o: json.dumps({"d": o, "l": [o, 1]}, default=json_serializer))))
out.append(("importable", sorted(n for n in dir(S) if not n.startswith("_")), list(SAVERS), [f.__name__ for f in SAVERS.values()],
            json_serializer.__name__, json_serializer.__module__, pickle.dumps(json_serializer), pickle.dumps(save_json),
            pickle.dumps(save)))


# ---------------------------------------------------------------- outputs
def make_output(rng, kind):
    steps, reps = int(rng.integers(1, 4)), int(rng.integers(1, 4))
    data = rng.random((steps + 1, reps))
    actions = rng.integers(0, 2 ** int(rng.integers(2, 5)), (steps, reps)).astype(float)
    if rng.random() < 0.3:
        actions[rng.integers(0, steps), rng.integers(0, reps)] = np.nan
    if kind == 0:
        args = Namespace(foo="bar", baz=42, func="eval")
    elif kind == 1:
        args = Namespace(func="learn_func", model_path=Path("some/where"), when=datetime.date(2021, 1, 2),
                         number_of_players=int(rng.integers(3, 7)), seed=int(rng.integers(0, 99)))
    elif kind == 2:
        args = Namespace(foo=1)  # no func: KeyError in Output.metadata
    elif kind == 3:
        loop = [1]
        loop.append(loop)
        args = Namespace(a=Path("p"), func="evaluate", loop=loop)  # circular reference while dumping
    elif kind == 4:
        args = Namespace(func="x", bad=BadRepr())  # serializer raises half way through the dump
    elif kind == 5:
        args = Namespace(func="eval", run_type="kept position", z=float("inf"), t=(1, Path("t")), n=None)
    else:
        args = Namespace(func=len, nested={"p": Path("/n"), "s": {3, }})
    return Output(data, actions, args)


NAMES = ["foobar", "baz", "2024-01-01T10:00:00.123", "a/b", "50%", "", "back\\slash", "ünï", "x.tmp"]
PRE = [None, "{}", '{"foobar": {"data": [[1.0]], "actions": [[0.0]], "metadata": {"run_type": "eval"}}}',
       '{"baz": 1, "a/b": 2}', '["foobar", "baz"]', '"foobar and baz"', "null", "12", "{not json", "",
       '{"x.tmp": NaN, "": Infinity}', "DIR"]


def prepare(path, pre):
    if pre is None:
        return
    if pre == "DIR":
        path.mkdir(parents=True)
        return
    path.parent.mkdir(parents=True, exist_ok=True)
    path.write_text(pre)


# ---------------------------------------------------------------- save_json
root = Path("sj")
rng = np.random.default_rng(20240508)
case = 0
for pre in PRE:
    for kind in range(7):
        for parent_exists in (True, False):
            case += 1
            base = root / str(case)
            if parent_exists:
                base.mkdir(parents=True)
            path = base / ("data.json" if case % 3 else "res.v1.json")
            if parent_exists:
                prepare(path, pre)
            log = []
            for _ in range(3):
                name = NAMES[int(rng.integers(0, len(NAMES)))]
                output = make_output(rng, kind if rng.random() < 0.7 else 0)
                before = pickle.dumps((output.data, output.actions, vars(output.parsed_args).keys() - {"bad", "loop"}))
                log.append((name, outcome(save_json, path, name, output)))
                after = pickle.dumps((output.data, output.actions, vars(output.parsed_args).keys() - {"bad", "loop"}))
                log.append(before == after)
            out.append(("save_json", case, log, tree(base) if base.exists() else None))
# paths with an empty name / odd names
for p in [Path("."), Path(""), Path("/"), Path(".."), Path("sj/missing/.."), Path("sj/1/data.json/inner")]:
    out.append(("save_json_odd", str(p), outcome(save_json, p, "n", make_output(rng, 0))))

# ---------------------------------------------------------------- save with recording savers
calls = []


def rec(tag, real=None):
    def saver(path, unique_name, output):
        calls.append((tag, str(path), unique_name, path.exists()))
        if real is not None:
            real(path, unique_name, output)
        if tag == "boom" and unique_name == "baz":
            raise ValueError("cannot draw")
    return saver


root = Path("sv")
case = 0
for pre in PRE:
    for kind in range(7):
        for dir_state in ("missing", "exists", "is_file"):
            case += 1
            base = root / str(case) / "model"
            if dir_state == "exists":
                base.mkdir(parents=True)
                prepare(base / "data.json", pre)
            elif dir_state == "is_file":
                base.parent.mkdir(parents=True)
                base.write_text("i am a file")
            elif pre == "DIR":
                base.parent.mkdir(parents=True)
            log = []
            savers = {"data.json": rec("json", save_json), "boom": rec("boom"), "last": rec("last")}
            with patch.object(S, "SAVERS", savers):
                for _ in range(3):
                    name = NAMES[int(rng.integers(0, len(NAMES)))]
                    output = make_output(rng, kind if rng.random() < 0.7 else 0)
                    del calls[:]
                    log.append((name, outcome(save, base, name, output), list(calls)))
            out.append(("save", case, log, tree(base.parent)))

# ---------------------------------------------------------------- save with the real savers (png bytes compared)
root = Path("real")
for case in range(14):
    base = root / str(case)
    log = []
    for name in ["run.1", "a/b%", "run.1", NAMES[case % len(NAMES)]]:
        output = make_output(rng, case % 2)
        log.append((name, outcome(save, base, name, output)))
    out.append(("real", case, log, tree(base)))

sys.stdout.buffer.write(pickle.dumps(out, protocol=4))
'''


def run(tree: Path, scratch: Path, driver: Path) -> bytes:
    scratch.mkdir(parents=True)
    env = {k: v for k, v in os.environ.items() if k not in ("PYTHONPATH", "PYTHONSTARTUP")}
    env.update(PYTHONPATH=str(tree), PYTHONHASHSEED="0", MPLBACKEND="Agg", OMP_NUM_THREADS="1",
               PYTHONDONTWRITEBYTECODE="1", MPLCONFIGDIR=str(scratch.parent / "mpl"))
    proc = subprocess.run([PYTHON, str(driver)], cwd=scratch, env=env, stdout=subprocess.PIPE, stderr=subprocess.PIPE)
    if proc.returncode != 0:
        sys.stderr.write(proc.stderr.decode(errors="replace"))
        raise SystemExit(f"driver failed on {tree}")
    return proc.stdout


def main() -> int:
    tmp = Path(tempfile.mkdtemp(prefix="y01_equiv1_"))
    try:
        orig = tmp / "orig"
        orig.mkdir()
        subprocess.run(f"git -C {WORKTREE} archive HEAD incomplete_cooperative | tar -x -C {orig}",
                       shell=True, check=True)
        dirty = subprocess.run(["git", "-C", str(WORKTREE), "diff", "--quiet"]).returncode != 0
        if dirty:
            new = WORKTREE
        else:
            new = tmp / "new"
            shutil.copytree(orig, new)
            subprocess.run(["patch", "-p1", "-s", "-d", str(new), "-i", str(PATCH)], check=True)
        if (orig / "incomplete_cooperative/run/save.py").read_bytes() == \
                (new / "incomplete_cooperative/run/save.py").read_bytes():
            raise SystemExit("the refactored tree does not differ from HEAD")
        driver = tmp / "driver.py"
        driver.write_text(DRIVER)
        a = run(orig, tmp / "a" / "w", driver)
        b = run(new, tmp / "b" / "w", driver)
        if a == b:
            print(f"identical: {len(pickle.loads(a))} records, {len(a)} bytes")
            return 0
        ra, rb = pickle.loads(a), pickle.loads(b)
        print(f"DIFFERENT: {len(ra)} vs {len(rb)} records")
        for x, y in zip(ra, rb):
            if pickle.dumps(x) != pickle.dumps(y):
                print("first difference:\n ", repr(x)[:1500], "\n ", repr(y)[:1500])
                break
        return 1
    finally:
        shutil.rmtree(tmp, ignore_errors=True)


if __name__ == "__main__":
    sys.exit(main())
