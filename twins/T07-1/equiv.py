"""Differential test for refactoring 1 (gameplay._draw_full_game / best_states._is_improvement).

Run with cwd=/tmp/wt9/T07.  The ORIGINAL package is taken from `git archive HEAD incomplete_cooperative` into a temporary
directory; the refactored one is the worktree.  Each is imported in its own worker process (so that both are really called
`incomplete_cooperative`, absolute imports included), runs the same cases and pickles the results; the parent compares them
exactly.
"""
import os
import pickle
import re
import subprocess
import sys
import tempfile
from pathlib import Path

WORKTREE = Path("/tmp/wt9/T07")


# ----------------------------------------------------------------------------------------------------------------- worker
def _norm(obj):
    """Turn a result into something picklable and exactly comparable."""
    import numpy as np
    if isinstance(obj, np.ndarray):
        return ("nd", str(obj.dtype), obj.shape, obj.tobytes() if obj.dtype != object else repr(obj.tolist()))
    if isinstance(obj, np.generic):
        return ("np", type(obj).__name__, repr(obj.item()))
    if isinstance(obj, (list, tuple)):
        return (type(obj).__name__, [_norm(x) for x in obj])
    if isinstance(obj, dict):
        return ("dict", [(_norm(k), _norm(v)) for k, v in obj.items()])
    if isinstance(obj, float):
        return ("float", obj.hex() if obj == obj else "nan")
    if isinstance(obj, (int, str, bool, type(None))):
        return (type(obj).__name__, obj)
    if type(obj).__name__ == "Coalition":
        return ("Coalition", obj.id)
    return ("repr", repr(obj))


def _game_state(game):
    return [game._values.copy() if hasattr(game, "_values") else None,
            game.get_lower_bounds().copy(), game.get_upper_bounds().copy(), game.are_values_known().copy()]


def _rng_state(rng):
    return repr(rng.bit_generator.state)


class _LogCatcher:
    def __init__(self):
        import logging
        self.records = []
        outer = self

        class H(logging.Handler):
            def emit(self, record):
                msg = record.getMessage()
                msg = re.sub(r"0x[0-9a-fA-F]+", "ADDR", msg)
                msg = re.sub(r"[0-9.e+-]+", "#", msg)
                outer.records.append((record.name, record.levelname, msg))
        self.handler = H()
        lg = logging.getLogger("incomplete_cooperative.gameplay")
        lg.addHandler(self.handler)
        lg.setLevel(logging.INFO)
        lg.propagate = False

    def take(self):
        out, self.records = self.records, []
        return out


def run_cases(root):
    import random
    from argparse import Namespace
    from types import SimpleNamespace
    from unittest.mock import patch

    import numpy as np

    import incomplete_cooperative
    assert Path(incomplete_cooperative.__file__).resolve().is_relative_to(Path(root).resolve()), incomplete_cooperative.__file__
    from incomplete_cooperative import generators
    from incomplete_cooperative.bounds import BOUNDS
    from incomplete_cooperative.coalitions import Coalition, minimal_game_coalitions
    from incomplete_cooperative.game import IncompleteCooperativeGame
    from incomplete_cooperative.gameplay import sample_exploitabilities_of_action_sequences
    from incomplete_cooperative.generators import GENERATORS
    from incomplete_cooperative.run import best_states
    from incomplete_cooperative.run.model import GAP_FUNCTIONS, ModelInstance

    logs = _LogCatcher()
    results = {}

    def reseed_module_gen(seed):
        generators._gen.bit_generator.state = np.random.default_rng(seed).bit_generator.state
        generators._LAST_OWNER = 0

    def record(key, fn):
        try:
            val = ("ok", _norm(fn()))
        except BaseException as e:  # noqa
            val = ("exc", type(e).__name__, re.sub(r"0x[0-9a-fA-F]+", "ADDR", str(e)))
        results[key] = (val, logs.take())

    gen_names = list(GENERATORS)
    gap_names = list(GAP_FUNCTIONS)
    bound_names = ["superadditive", "superadditive_cached", "sam_apx_1", "sam_apx_10"]

    # A: the sampler itself, all generators, several seeds / sizes / gap functions / bounds / extra known coalitions
    case = 0
    for gi, name in enumerate(gen_names):
        for seed in range(3):
            case += 1
            n = 3 if (gi + seed) % 3 == 0 else 4
            gap = GAP_FUNCTIONS[gap_names[(gi + seed) % len(gap_names)]]
            bounds = BOUNDS[bound_names[(gi + 2 * seed) % len(bound_names)]]
            samples = 1 + (gi + seed) % 3
            max_size = [0, 1, 2, 2, 3][(gi + 3 * seed) % 5] if n == 4 else [None, 2, 1][(gi + seed) % 3]
            processes = 1 + (gi + seed) % 2

            def run_a(name=name, seed=seed, n=n, gap=gap, bounds=bounds, samples=samples, max_size=max_size,
                      processes=processes, gi=gi):
                reseed_module_gen(1000 + seed)
                rng = np.random.default_rng(seed)
                game = IncompleteCooperativeGame(n, bounds)
                first = GENERATORS[name](n, np.random.default_rng(77 + seed))
                known = list(minimal_game_coalitions(n))
                if (gi + seed) % 4 == 1:   # some extra starting knowledge
                    known.append(Coalition(3))
                if (gi + seed) % 4 == 2:
                    known += [Coalition(5), Coalition(6)]
                game.set_known_values(first.get_values(known), known)
                calls = []

                def full_game_generator(players):
                    calls.append(players)
                    return GENERATORS[name](players, rng)
                kwargs = {"processes": processes}
                if max_size is not None or gi % 2:
                    kwargs["max_size"] = max_size
                actions, values = sample_exploitabilities_of_action_sequences(
                    game, full_game_generator, gap, samples, **kwargs)
                return [actions, values, _game_state(game), _rng_state(rng), calls,
                        _rng_state(generators._gen)]
            record(("A", name, seed), run_a)

    # B: get_best_exploitability on real environments, all generators
    for gi, name in enumerate(gen_names):
        for seed in range(2):
            n = 4 if (gi + seed) % 2 else 3
            gapname = gap_names[(gi + seed + 1) % len(gap_names)]

            def run_b(name=name, seed=seed, n=n, gapname=gapname, gi=gi):
                reseed_module_gen(2000 + seed)
                instance = ModelInstance(number_of_players=n, game_generator=name, gap_function=gapname, seed=seed + 5,
                                         game_class=bound_names[(gi + seed) % 2], run_steps_limit=3)
                env = instance.get_env()
                max_steps = [2, 3, 1, 0][(gi + seed) % 4]
                reps = 1 + (gi + 2 * seed) % 4
                out = best_states.get_best_exploitability(env, max_steps, reps, instance.gap_function_callable,
                                                          processes=1 + gi % 2)
                return [out[0], out[1], _game_state(env.incomplete_game), _rng_state(instance.game_generator_rng),
                        _rng_state(env.generator.args[1]), env.steps_taken]
            record(("B", name, seed), run_b)

    # C: the whole command, output captured from the saver
    for gi, name in enumerate(gen_names):
        seed = gi % 3

        def run_c(name=name, seed=seed, gi=gi):
            reseed_module_gen(3000 + seed)
            args = Namespace(number_of_players=3 + gi % 2, game_generator=name, seed=seed,
                             run_steps_limit=[2, 3][gi % 2], sampling_repetitions=1 + gi % 3,
                             eval_repetitions=1 + (gi // 2) % 3, parallel_environments=1 + gi % 2,
                             gap_function=gap_names[gi % len(gap_names)], func="foobar",
                             model_dir=Path(tempfile.gettempdir()) / "unused", unique_name="x")
            instance = ModelInstance.from_parsed_arguments(args)
            captured = []
            with patch("incomplete_cooperative.run.save.SAVERS",
                       {"saver": lambda path, unique_name, output: captured.append((str(path), unique_name, output))}):
                with tempfile.TemporaryDirectory() as d:
                    instance.model_dir = Path(d)
                    best_states.best_states_func(instance, args)
            (path, unique_name, output), = captured
            return [Path(path).name, unique_name, output.data, output.actions, _rng_state(instance.game_generator_rng)]
        record(("C", name), run_c)

    # C2: real savers (files on disk) for a handful
    for gi, name in enumerate(["factory", "noisy_factory", "graph", "xos", "graph_cycle"]):
        def run_c2(name=name, gi=gi):
            reseed_module_gen(3500)
            with tempfile.TemporaryDirectory() as d:
                args = Namespace(number_of_players=4, game_generator=name, seed=gi, run_steps_limit=2,
                                 sampling_repetitions=2, eval_repetitions=2, parallel_environments=1,
                                 func="foobar", model_dir=Path(d), unique_name="run")
                instance = ModelInstance.from_parsed_arguments(args)
                best_states.best_states_func(instance, args)
                files = sorted(str(p.relative_to(d)) for p in Path(d).rglob("*") if p.is_file())
                return [files, (Path(d) / "data.json").read_text().replace(d, "DIR")]
        record(("C2", name), run_c2)

    # D: the selection rule alone, on crafted samples (NaN, inf, ties, negative values, -1) fed through the public function
    rnd = random.Random(12345)
    nprng = np.random.default_rng(999)
    for case in range(600):
        max_steps = rnd.randrange(0, 5)
        reps = rnd.randrange(1, 5)
        n_seq = rnd.randrange(0, 14)
        ids = list(range(1, 30))
        actions = []
        for _ in range(n_seq):
            size = rnd.randrange(0, max_steps + 1)
            actions.append([Coalition(i) for i in rnd.sample(ids, size)])
        if case % 3 == 0:
            actions.sort(key=len)
        pool = [0.0, -0.0, 1.0, -1.0, 0.5, 0.1, 0.2, 0.30000000000000004, 0.3, np.nan, np.inf, -np.inf, 1e308, 1e-320, 2.0]
        mode = case % 4
        if mode == 0:
            values = nprng.choice(pool, size=(reps, n_seq))
        elif mode == 1:
            values = nprng.integers(0, 3, size=(reps, n_seq)).astype(float)
        elif mode == 2:
            values = nprng.random((reps, n_seq))
        else:
            values = np.round(nprng.random((reps, n_seq)), 1)
            if n_seq and case % 8 == 3:
                values[nprng.integers(reps), nprng.integers(n_seq)] = np.nan
        if case % 5 == 0:
            values = np.asfortranarray(values)
        if case % 7 == 0:
            values = values.astype(np.float32)

        def run_d(actions=actions, values=values, max_steps=max_steps, reps=reps):
            seen = []

            def fake(game, gen, gap_func, **kwargs):
                seen.append((game, gap_func, sorted(kwargs.items())))
                return actions, values
            env = SimpleNamespace(incomplete_game="GAME", generator=lambda: "G")
            before = values.copy()
            with patch.object(best_states, "sample_exploitabilities_of_action_sequences", fake):
                out = best_states.get_best_exploitability(env, max_steps, reps, "GAP", processes=3)
            return [out[0], out[1], seen, np.array_equal(before, values, equal_nan=True)]
        record(("D", case), run_d)

    # E: misuse -> identical exceptions
    def run_e1():
        instance = ModelInstance(number_of_players=3, game_generator="factory", seed=1)
        return best_states.get_best_exploitability(instance.get_env(), 2, 0, instance.gap_function_callable)
    record(("E", "zero repetitions"), run_e1)

    def run_e2():
        def fake(*a, **k):
            return [[Coalition(1), Coalition(2), Coalition(4)]], np.ones((1, 1))
        with patch.object(best_states, "sample_exploitabilities_of_action_sequences", fake):
            return best_states.get_best_exploitability(SimpleNamespace(incomplete_game=None, generator=None), 2, 1, None)
    record(("E", "sequence longer than max_steps"), run_e2)

    def run_e3():
        game = IncompleteCooperativeGame(3, BOUNDS["superadditive"])
        return sample_exploitabilities_of_action_sequences(game, lambda n: (_ for _ in ()).throw(KeyError("boom")),
                                                           GAP_FUNCTIONS["exploitability"], 2)
    record(("E", "generator raises"), run_e3)

    def run_e4():
        game = IncompleteCooperativeGame(3, BOUNDS["superadditive"])  # nothing known: bounds assert fails in workers
        rng = np.random.default_rng(0)
        return sample_exploitabilities_of_action_sequences(game, lambda n: GENERATORS["factory"](n, rng),
                                                           GAP_FUNCTIONS["exploitability"], 2, max_size=1)
    record(("E", "nothing known"), run_e4)
    return results


# ----------------------------------------------------------------------------------------------------------------- parent
def main():
    if len(sys.argv) == 4 and sys.argv[1] == "--worker":
        root, out = sys.argv[2], sys.argv[3]
        sys.path.insert(0, root)
        res = run_cases(root)
        with open(out, "wb") as f:
            pickle.dump(res, f)
        return 0

    assert Path.cwd().resolve() == WORKTREE.resolve(), "run with cwd=/tmp/wt9/T07"
    with tempfile.TemporaryDirectory(prefix="equiv_T07_") as tmp:
        orig = Path(tmp) / "orig"
        orig.mkdir()
        archive = subprocess.run(["git", "-C", str(WORKTREE), "archive", "HEAD", "incomplete_cooperative"],
                                 check=True, capture_output=True).stdout
        subprocess.run(["tar", "-x", "-C", str(orig)], input=archive, check=True)
        env = dict(os.environ, OMP_NUM_THREADS="1", MKL_NUM_THREADS="1", PYTHONDONTWRITEBYTECODE="1", MPLBACKEND="Agg")
        env.pop("PYTHONPATH", None)
        outs = {}
        procs = {}
        for label, root in (("original", orig), ("refactored", WORKTREE)):
            outs[label] = Path(tmp) / f"{label}.pkl"
            procs[label] = subprocess.Popen([sys.executable, __file__, "--worker", str(root), str(outs[label])],
                                            cwd=tmp, env=env)
        for label, p in procs.items():
            if p.wait() != 0:
                print(f"DIFFERENT: worker {label} crashed")
                return 1
        res = {label: pickle.loads(outs[label].read_bytes()) for label in outs}
    a, b = res["original"], res["refactored"]
    if list(a) != list(b):
        print("DIFFERENT: case lists differ")
        return 1
    n_exc = 0
    for key in a:
        if a[key] != b[key]:
            print("DIFFERENT", key)
            print(" original:  ", str(a[key])[:2000])
            print(" refactored:", str(b[key])[:2000])
            return 1
        n_exc += a[key][0][0] == "exc"
    print(f"{len(a)} cases compared ({n_exc} of them raise the same exception in both)")
    print("EQUIVALENT")
    return 0


if __name__ == "__main__":
    sys.exit(main())
