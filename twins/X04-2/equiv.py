#!/usr/bin/env python
"""Differential equivalence check for patch_2 (bounds.py: IntEnum relation codes, frozen structure class, np.isin).

Usage:  cd <worktree with patch_2 applied> && /venv/bin/python /tmp/twin_out/X04/equiv_2.py [worktree]

The ORIGINAL package is taken from `git archive HEAD incomplete_cooperative`, the refactored one is the worktree
itself.  The same driver runs in two fresh interpreters; every outcome (results, exception type + message, object
state) is turned into a canonical, bit-exact form (arrays as dtype/shape/raw bytes) and compared.  Exit 0 iff equal.
"""
import os
import pickle
import subprocess
import sys
import tempfile
from pathlib import Path

DRIVER = r'''
import hashlib, os, pickle, sys
from functools import partial
import numpy as np

expected_root, out_path = sys.argv[1], sys.argv[2]
import incomplete_cooperative
assert os.path.realpath(incomplete_cooperative.__file__).startswith(os.path.realpath(expected_root) + os.sep), \
    (incomplete_cooperative.__file__, expected_root)

from incomplete_cooperative import bounds as B
from incomplete_cooperative.bounds import (BOUNDS, compute_bounds_superadditive, compute_bounds_superadditive_cached,
                                           compute_bounds_superadditive_monotone_approx_cached)
from incomplete_cooperative.coalitions import Coalition, minimal_game_coalitions
from incomplete_cooperative.game import IncompleteCooperativeGame
from incomplete_cooperative.generators import covg_fn_generator, k_budget_generator, oxs, xos, xs


def canon(x):
    if isinstance(x, np.ndarray):
        raw = np.ascontiguousarray(x).tobytes()  # bit-exact; large tables are kept as their sha256 digest
        return ("nd", x.dtype.str, x.shape, raw if len(raw) <= 4096 else "sha256:" + hashlib.sha256(raw).hexdigest())
    if isinstance(x, np.generic):
        return ("ns", x.dtype.str, x.tobytes())
    if isinstance(x, float):
        return ("f", x.hex())
    if isinstance(x, (bool, int, str, bytes, type(None))):
        return (type(x).__name__, x)
    if isinstance(x, (list, tuple)):
        return (type(x).__name__, tuple(canon(y) for y in x))
    if isinstance(x, dict):
        return ("dict", tuple((canon(k), canon(v)) for k, v in x.items()))
    raise TypeError(f"cannot canonicalise {type(x)}")


LOG = []


def rec(label, fn, *a, **kw):
    try:
        LOG.append((label, "ok", canon(fn(*a, **kw))))
    except BaseException as e:  # noqa
        LOG.append((label, "exc", type(e).__name__, str(e)))


def sam(rep):
    return partial(compute_bounds_superadditive_monotone_approx_cached, repetitions=rep)


COMPUTERS = {"sa_cached": compute_bounds_superadditive_cached, "sa": compute_bounds_superadditive,
             **{f"sam{r}": sam(r) for r in (-1, 0, 1, 2, 3, 4, 5, 6, 7, 8, 9, 10)},
             **{f"reg:{k}": v for k, v in BOUNDS.items()}}

# registry and pickling (bounds computers travel to worker processes inside games)
rec(("registry-keys",), lambda: list(BOUNDS))
for k, v in BOUNDS.items():
    rec(("registry-pickle", k), pickle.dumps, v, 4)
rec(("game-pickle",), lambda: pickle.dumps(IncompleteCooperativeGame(3, BOUNDS["sam_apx_10"]), 4))
rec(("public",), lambda: sorted(k for k, v in vars(B).items()
                                if not k.startswith("_") and getattr(v, "__module__", None) == B.__name__))
rec(("importable",), lambda: [hasattr(B, k) for k in (
    "Any", "BOUNDS", "BoundableIncompleteGame", "Coalition", "CoalitionId", "GameBoundsComputer", "all_coalitions",
    "cache", "compute_bounds_superadditive", "compute_bounds_superadditive_cached",
    "compute_bounds_superadditive_monotone_approx_cached", "get_all_coalitions", "get_size", "get_sub_coalitions",
    "get_sub_coalitions_id", "get_super_coalitions", "get_super_coalitions_id", "np", "partial")])


def random_sam_int(n, rng):
    """A random integer superadditive monotone non-increasing game: minus a coverage-like function."""
    weights = rng.integers(1, 6, size=2 * n)
    sets = [rng.random(2 * n) < 0.4 for _ in range(n)]
    for s in sets:
        s[rng.integers(2 * n)] = True
    vals = np.zeros(2**n)
    for c in range(2**n):
        cover = np.zeros(2 * n, dtype=bool)
        for p in range(n):
            if c >> p & 1:
                cover |= sets[p]
        vals[c] = -float(weights[cover].sum())
    return vals


def full_values(kind, n, rng):
    if kind == "samint":
        return random_sam_int(n, rng)
    if kind == "noise":  # not a SAM game at all: the computers do not check
        v = rng.normal(size=2**n)
        v[0] = 0
        return v
    gen = {"covg": covg_fn_generator, "kbudget": k_budget_generator, "xos": xos, "xs": xs, "oxs": oxs}[kind]
    return np.array(gen(n, rng).get_values())


def snapshot(g):
    return {"values": g._values.copy(), "lower": g.get_lower_bounds().copy(), "upper": g.get_upper_bounds().copy(),
            "known": g.are_values_known().copy()}


def run(label, n, vals, known_ids, computer_names, reveal_order=()):
    for name in computer_names:
        g = IncompleteCooperativeGame(n, COMPUTERS[name])
        g.set_known_values(vals[known_ids], [Coalition(int(i)) for i in known_ids])
        if 0 not in known_ids:
            g.unset_value(Coalition(0))
        rec(label + (name, "compute"), g.compute_bounds)
        LOG.append((label + (name,), "after", canon(snapshot(g))))
        for step, c in enumerate(reveal_order):  # a history: reveal, recompute on top of the old bounds
            g.reveal_value(vals[c], Coalition(int(c)))
            rec(label + (name, "recompute", step), g.compute_bounds)
            LOG.append((label + (name, step), "after", canon(snapshot(g))))


FAST = ["sa_cached"] + [f"sam{r}" for r in (-1, 0, 1, 2, 3, 4, 5, 6, 7, 8, 9, 10)] + ["reg:superadditive_cached",
                                                                                     "reg:sam_apx_1", "reg:sam_apx_10"]
seed = 1000
for n in (2, 3, 4, 5, 6):
    minimal = sorted({0, 2**n - 1} | {2**i for i in range(n)})
    others = [c for c in range(2**n) if c not in minimal]
    kinds = ["samint", "covg", "kbudget", "xos", "xs", "noise"] + (["oxs"] if n <= 4 else [])
    for kind in kinds:
        for rep in range({2: 1, 3: 3, 4: 3, 5: 2, 6: 1}[n]):
            seed += 1
            rng = np.random.default_rng(seed)
            vals = full_values(kind, n, rng)
            for density in (0.0, 0.25, 0.6, 1.0):
                extra = [c for c in others if rng.random() < density]
                known = np.array(sorted(minimal + extra))
                names = FAST if n <= 5 else ["sa_cached", "sam0", "sam1", "sam3", "reg:sam_apx_10"]
                if n == 4 and rep == 0 and density in (0.0, 0.25):
                    names = names + ["reg:sam_apx_100", "reg:sam_apx_1000", "sa", "reg:superadditive"]
                hidden = [c for c in others if c not in extra]
                order = [hidden[j] for j in rng.permutation(len(hidden))[:3]] if density < 1 else []
                run((n, kind, rep, density), n, vals, known, names, order)

# exceptional paths: knowledge sets without the minimal information
for n in (2, 3, 4):
    rng = np.random.default_rng(77 + n)
    vals = random_sam_int(n, rng)
    minimal = sorted({0, 2**n - 1} | {2**i for i in range(n)})
    names = ["sa_cached", "sam0", "sam2", "reg:sam_apx_1", "sa"]
    for drop in minimal:
        known = np.array([c for c in minimal if c != drop])
        run((n, "drop", drop), n, vals, known, names)
        known = np.array(sorted(set(range(2**n)) - {drop}))
        run((n, "drop-from-full", drop), n, vals, known, names)
    # values with inf / nan among the known ones
    v2 = vals.copy()
    v2[3] = np.nan
    v2[-2] = -np.inf
    run((n, "nonfinite"), n, v2, np.array(sorted(set(minimal) | {3, 2**n - 2})), names)
rec(("bad-repetitions",), lambda: compute_bounds_superadditive_monotone_approx_cached(
    IncompleteCooperativeGame(3), "x"))
rec(("bad-game",), compute_bounds_superadditive_cached, None)
rec(("bad-game-sam",), compute_bounds_superadditive_monotone_approx_cached, None, 1)

with open(out_path, "wb") as f:
    pickle.dump(LOG, f, protocol=4)
print(len(LOG))
'''


def start_side(root: Path, driver: Path, out: Path) -> subprocess.Popen:
    """Start the driver in a fresh interpreter that sees only `root` (and site-packages)."""
    env = dict(os.environ, PYTHONPATH=str(root), OMP_NUM_THREADS="1", PYTHONHASHSEED="0", PYTHONWARNINGS="ignore")
    return subprocess.Popen([sys.executable, str(driver), str(root), str(out)], env=env, cwd=str(out.parent),
                            stdout=subprocess.PIPE, stderr=subprocess.PIPE, text=True)


def finish_side(proc: subprocess.Popen, root: Path) -> int:
    stdout, stderr = proc.communicate()
    if proc.returncode != 0:
        print(stdout, stderr, sep="\n")
        raise SystemExit(f"driver failed on {root}")
    return int(stdout.strip().splitlines()[-1])


def main() -> int:
    worktree = Path(sys.argv[1] if len(sys.argv) > 1 else os.getcwd()).resolve()
    assert (worktree / "incomplete_cooperative").is_dir(), worktree
    with tempfile.TemporaryDirectory(prefix="equiv_X04_") as tmp_s:
        tmp = Path(tmp_s)
        orig = tmp / "orig"
        orig.mkdir()
        archive = subprocess.run(["git", "archive", "HEAD", "incomplete_cooperative"], cwd=worktree,
                                 capture_output=True, check=True).stdout
        subprocess.run(["tar", "-x", "-C", str(orig)], input=archive, check=True)
        driver = tmp / "driver.py"
        driver.write_text(DRIVER)
        (tmp / "o").mkdir()
        (tmp / "n").mkdir()
        p_orig = start_side(orig, driver, tmp / "o" / "out.pkl")  # the two sides run side by side
        p_new = start_side(worktree, driver, tmp / "n" / "out.pkl")
        n_orig = finish_side(p_orig, orig)
        n_new = finish_side(p_new, worktree)
        a = (tmp / "o" / "out.pkl").read_bytes()
        b = (tmp / "n" / "out.pkl").read_bytes()
        la, lb = pickle.loads(a), pickle.loads(b)
    bad = 0
    if len(la) != len(lb):
        print(f"different number of records: {len(la)} vs {len(lb)}")
        bad += 1
    for x, y in zip(la, lb):
        if x != y:
            bad += 1
            if bad <= 10:
                print("MISMATCH", x[:2], "\n   orig:", repr(x)[:300], "\n   new: ", repr(y)[:300])
    n_exc = sum(1 for x in la if len(x) > 1 and x[1] in ("exc", "ctor-exc"))
    print(f"records: {n_orig} / {n_new}, of which exceptions: {n_exc}; mismatches: {bad}; "
          f"pickles byte-equal: {a == b}")
    return 0 if bad == 0 else 1


if __name__ == "__main__":
    sys.exit(main())
