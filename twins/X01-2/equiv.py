#!/venv/bin/python
"""Differential equivalence check for patch_2 (gameplay.py: generator function, zip/repeat job tuples, immutable default).

Runs the same deterministic driver against the ORIGINAL package (git archive HEAD) and against the
worktree (patch applied), each in its own interpreter, and compares the pickled, normalised outcomes
byte for byte.  Exit status 0 iff identical.
"""
import os
import pickle
import subprocess
import sys
import tempfile

WT = "/tmp/wt_x4_X01"
PY = "/venv/bin/python"
TOUCHED = ['incomplete_cooperative/gameplay.py']

COMMON = r'''
import enum, pickle, sys
import numpy as np

def norm(x):
    """Turn a value into a plain, bit-exact, pickle-stable structure."""
    from incomplete_cooperative.coalitions import Coalition
    if isinstance(x, BaseException):
        return ("exc", type(x).__name__, str(x))
    if isinstance(x, np.ndarray):
        if x.dtype == object:
            return ("ndo", x.shape, [norm(y) for y in x.ravel().tolist()])
        return ("nd", x.dtype.str, x.shape, np.ascontiguousarray(x).tobytes())
    if isinstance(x, np.generic):
        return ("ng", x.dtype.str, x.tobytes())
    if isinstance(x, enum.Enum):
        return ("enum", type(x).__name__, x.name)
    if isinstance(x, Coalition):
        return ("C", norm(x.id))
    if isinstance(x, bool) or x is None or isinstance(x, (int, str, bytes)):
        return (type(x).__name__, x)
    if isinstance(x, float):
        return ("float", x.hex())
    if isinstance(x, (list, tuple)):
        return (type(x).__name__, [norm(y) for y in x])
    if isinstance(x, dict):
        return ("dict", [(norm(k), norm(v)) for k, v in x.items()])
    if isinstance(x, (set, frozenset)):
        return (type(x).__name__, sorted(repr(norm(y)) for y in x))
    return ("obj", type(x).__module__, type(x).__qualname__)

RESULTS = []

def rec(label, thunk):
    try:
        value = thunk()
    except BaseException as e:  # noqa
        value = e
    RESULTS.append((label, norm(value)))

def finish():
    import incomplete_cooperative
    expected_root = sys.argv[2]
    assert incomplete_cooperative.__file__.startswith(expected_root + "/"), (incomplete_cooperative.__file__, expected_root)
    with open(sys.argv[1], "wb") as f:
        pickle.dump(RESULTS, f, protocol=4)
    print("driver:", len(RESULTS), "records from", expected_root)
'''

DRIVER = COMMON + r'''
import itertools, logging, types
from incomplete_cooperative import gameplay as G
from incomplete_cooperative.bounds import BOUNDS
from incomplete_cooperative.game import IncompleteCooperativeGame
from incomplete_cooperative.coalitions import Coalition
from incomplete_cooperative.exploitability import compute_exploitability
from incomplete_cooperative.norms import l1_norm, l2_norm, linf_norm

GAPS = {"expl": compute_exploitability, "l1": l1_norm, "l2": l2_norm, "linf": linf_norm}

# deterministic clock (also counts the clock reads) and capture of the log output
_clock = itertools.count(1000, 37)
G.time = types.SimpleNamespace(time=lambda: next(_clock) + 0.25)
LOGS = []


class _Capture(logging.Handler):
    def emit(self, record):
        LOGS.append((record.name, record.levelname, record.getMessage()))


G.LOGGER.addHandler(_Capture())
G.LOGGER.setLevel(logging.INFO)
G.LOGGER.propagate = False


def drain_logs():
    out = list(LOGS)
    LOGS.clear()
    return out


def superadditive_values(n, kind, rng):
    size = 2**n
    if kind == "int":
        raw = rng.integers(0, 12, size).astype(float)
    elif kind == "dyadic":
        raw = rng.integers(-16, 64, size) / 8.0
    else:
        raw = rng.uniform(0, 3, size) * 0.1
    v = raw.copy()
    v[0] = 0.0
    for s in sorted(range(size), key=lambda s: bin(s).count("1")):
        t = (s - 1) & s
        while t:
            cand = v[t] + v[s ^ t]
            if cand > v[s]:
                v[s] = cand
            t = (t - 1) & s
    return v


def minimal(n):
    return {0, 2**n - 1} | {2**i for i in range(n)}


def make_full(n, kind, rng, computer="superadditive_cached"):
    full = IncompleteCooperativeGame(n, BOUNDS[computer])
    full.set_values(superadditive_values(n, kind, rng))
    return full


def make_incomplete(n, full, known, computer):
    game = IncompleteCooperativeGame(n, BOUNDS[computer])
    coalitions = [Coalition(s) for s in sorted(known)]
    game.set_known_values(full.get_values(coalitions), coalitions)
    return game


def knowledge(n, p, rng):
    return minimal(n) | {int(s) for s in range(2**n) if rng.random() < p}


def staged(make_iter):
    """Tell at which moment an exception is raised: at the call or while iterating."""
    try:
        it = make_iter()
    except Exception as e:  # noqa
        return ("at-call", e)
    try:
        return ("ok", list(it))
    except Exception as e:  # noqa
        return ("at-iter", e)


# ---- A. possible_next_actions / possible_action_sequences ------------------------------------------
for n in [1, 2, 3, 4]:
    for seed in range(4):
        rng = np.random.default_rng([2, n, seed])
        full = make_full(n, "int", rng)
        for p in [0.0, 0.3, 0.7, 1.0]:
            known = knowledge(n, p, rng)
            game = make_incomplete(n, full, known, "superadditive_cached")
            tag = ("pas", n, seed, p)
            rec(tag + ("next",), lambda: list(G.possible_next_actions(game)))
            n_unknown = 2**n - len(known)
            sizes = [None, 0, 1, 2, 3, -1, -3, True, n_unknown, n_unknown + 2]
            if n == 4 and n_unknown > 8:
                sizes = [0, 1, 2, 3, -1, -3, True]
            for max_size in sizes:
                rec(tag + ("list", max_size), lambda: staged(lambda: G.possible_action_sequences(game, max_size)))
                rec(tag + ("kw", max_size), lambda: staged(lambda: G.possible_action_sequences(game, max_size=max_size)))
            rec(tag + ("default",), lambda: staged(lambda: G.possible_action_sequences(game)) if n_unknown <= 10 else None)
            for bad in ["x", 1.5, [1], np.int64(2), np.float64(1.0)]:
                rec(tag + ("bad", repr(bad)), lambda: staged(lambda: G.possible_action_sequences(game, bad)))

            def iterator_protocol():
                it = G.possible_action_sequences(game, 2)
                same = iter(it) is it
                first = [next(it, "END") for _ in range(3)]
                rest = list(it)
                again = list(it)
                return same, first, rest, again
            rec(tag + ("iterator",), iterator_protocol)

            def fresh_lists():
                seqs = list(G.possible_action_sequences(game, 2))
                distinct = len({id(s) for s in seqs}) == len(seqs)
                kinds = sorted({type(s).__name__ for s in seqs})
                for s in seqs:
                    s.append("mutated")
                return distinct, kinds, list(G.possible_action_sequences(game, 2))
            rec(tag + ("fresh",), fresh_lists)

            def eager_snapshot():
                """The unknown coalitions are read when the function is called, not when iteration starts."""
                g = game.copy()
                it = G.possible_action_sequences(g, 2)
                unknown = [c for c in G.possible_next_actions(g)]
                if unknown:
                    g.reveal_value(full.get_value(unknown[0]), unknown[0])
                return list(it)
            rec(tag + ("eager",), eager_snapshot)
rec("pas-nogame", lambda: staged(lambda: G.possible_action_sequences(None, 2)))
rec("pas-nogame2", lambda: staged(lambda: G.possible_action_sequences(3, 2)))

# ---- B. apply_action_sequence ----------------------------------------------------------------------
for n in [2, 3, 4]:
    for seed in range(6):
        rng = np.random.default_rng([3, n, seed])
        full = make_full(n, "dyadic", rng)
        for p in [0.0, 0.5]:
            known = sorted(knowledge(n, p, rng))
            known_c = [Coalition(s) for s in known]
            seq = [Coalition(int(s)) for s in range(2**n) if rng.random() < 0.4]
            tag = ("apply", n, seed, p)
            for label, kwargs in [("default", {}), ("empty-list", {"include": []}), ("empty-tuple", {"include": ()}),
                                  ("list", {"include": known_c}), ("tuple", {"include": tuple(known_c)}),
                                  ("generator", {"include": (c for c in known_c)}),
                                  ("none", {"include": None}),
                                  ("bad", {"include": 5})]:
                def run():
                    game = make_incomplete(n, full, minimal(n), "superadditive")
                    original = list(seq)
                    out = G.apply_action_sequence(game, full, seq, **kwargs)
                    return out, game._values.copy(), seq == original
                rec(tag + (label,), run)

            def positional():
                game = make_incomplete(n, full, minimal(n), "superadditive")
                G.apply_action_sequence(game, full, seq, known_c)
                return game._values.copy()
            rec(tag + ("positional",), positional)

            def out_of_range():
                game = make_incomplete(n, full, minimal(n), "superadditive")
                try:
                    G.apply_action_sequence(game, full, seq + [Coalition(2**n + 3)], include=known_c)
                except Exception as e:  # noqa
                    return e, game._values.copy()
            rec(tag + ("out-of-range",), out_of_range)

            def unknown_in_full():
                game = make_incomplete(n, full, minimal(n), "superadditive")
                partial_full = make_incomplete(n, full, minimal(n), "superadditive")
                try:
                    G.apply_action_sequence(game, partial_full, [Coalition(s) for s in range(2**n)], include=known_c)
                except Exception as e:  # noqa
                    return e, game._values.copy()
            rec(tag + ("unknown-in-full",), unknown_in_full)
rec("apply-defaults-untouched", lambda: len(G.apply_action_sequence.__defaults__[0]))

# ---- C. one evaluation, in process --------------------------------------------------------------------
for n in [2, 3, 4, 5]:
    for seed in range(8):
        for computer in ["superadditive", "superadditive_cached"]:
            rng = np.random.default_rng([4, n, seed])
            full = make_full(n, "float", rng, computer)
            known = sorted(knowledge(n, 0.2, rng))
            known_c = [Coalition(s) for s in known]
            game = make_incomplete(n, full, known, computer)
            for gap_name, gap in GAPS.items():
                for trial in range(4):
                    seq = [Coalition(int(s)) for s in range(2**n) if s not in known and rng.random() < 0.3]

                    def run():
                        out_seq, value = G._get_act_sequence_exploitability(game, full, seq, known_c, gap)
                        return out_seq is seq, out_seq, value, game._values.copy()
                    rec(("one", n, seed, computer, gap_name, trial), run)

# ---- D. exhaustive evaluation through the pool --------------------------------------------------------
for n, max_sizes in [(2, [None, 1]), (3, [None, 0, 2]), (4, [1, 2]), (5, [1])]:
    for seed in range(2):
        for computer in ["superadditive", "superadditive_cached"]:
            rng = np.random.default_rng([5, n, seed])
            full = make_full(n, ["int", "dyadic", "float"][seed % 3], rng, computer)
            for p in [0.0, 0.3]:
                known = knowledge(n, p, rng)
                for max_size in max_sizes:
                    rotation = 1 + (n + seed + len(computer) + int(p * 10) + (max_size or 0)) % 3
                    for processes in ([1, 2, 3, 4, 16] if (n, seed, p) == (3, 0, 0.0) else [rotation]):
                        gap_name = ["expl", "l1", "l2", "linf"][(seed + processes + (max_size or 0)) % 4]

                        def run():
                            game = make_incomplete(n, full, known, computer)
                            before = game._values.copy()
                            out = G.get_exploitabilities_of_action_sequences(
                                game, full, GAPS[gap_name], max_size=max_size, processes=processes)
                            return type(out).__name__, out, bool(np.array_equal(before, game._values)), game._values.copy()
                        rec(("pool", n, seed, computer, p, max_size, processes), run)

rng = np.random.default_rng(99)
full = make_full(3, "int", rng)
game = make_incomplete(3, full, minimal(3), "superadditive_cached")
rec("pool-positional", lambda: G.get_exploitabilities_of_action_sequences(game, full, l1_norm, 1, 2))
rec("pool-defaults", lambda: G.get_exploitabilities_of_action_sequences(game, full, l1_norm))
rec("pool-zero-processes", lambda: G.get_exploitabilities_of_action_sequences(game, full, l1_norm, processes=0))
rec("pool-negative-processes", lambda: G.get_exploitabilities_of_action_sequences(game, full, l1_norm, processes=-2))
rec("pool-bad-size", lambda: G.get_exploitabilities_of_action_sequences(game, full, l1_norm, max_size="x", processes=2))
rec("pool-bad-size-and-processes",
    lambda: G.get_exploitabilities_of_action_sequences(game, full, l1_norm, max_size="x", processes=0))
rec("pool-bad-game-and-processes", lambda: G.get_exploitabilities_of_action_sequences(None, full, l1_norm, processes=0))
incomplete_full = make_incomplete(3, full, minimal(3), "superadditive_cached")
rec("pool-worker-error",
    lambda: G.get_exploitabilities_of_action_sequences(game, incomplete_full, l1_norm, max_size=1, processes=2))
rec("pool-negative-size", lambda: G.get_exploitabilities_of_action_sequences(game, full, l1_norm, max_size=-1, processes=2))

# ---- E. sampling ------------------------------------------------------------------------------------------
for n, max_size in [(2, None), (3, None), (3, 1), (4, 1), (4, 2)]:
    for seed in range(2):
        for samples in [1, 3]:
            for processes in [1 + (n + seed + samples) % 2]:
                computer = ["superadditive", "superadditive_cached"][(seed + samples) % 2]
                rng = np.random.default_rng([6, n, seed])
                calls = []

                def generator(players):
                    calls.append(players)
                    return make_full(players, ["int", "dyadic", "float"][len(calls) % 3], rng, computer)
                game = make_incomplete(n, make_full(n, "int", rng, computer), knowledge(n, 0.1 * seed, rng), computer)
                gap_name = ["expl", "l1", "l2", "linf"][(seed + samples + processes) % 4]
                drain_logs()

                def run():
                    kwargs = {"processes": processes}
                    if max_size is not None:
                        kwargs["max_size"] = max_size
                    actions, values = G.sample_exploitabilities_of_action_sequences(
                        game, generator, GAPS[gap_name], samples=samples, **kwargs)
                    return (type(actions).__name__, actions, values, list(calls), game._values.copy(), drain_logs(),
                            next(_clock))
                rec(("sample", n, max_size, seed, samples, processes), run)
rec("sample-default-samples", lambda: G.sample_exploitabilities_of_action_sequences(
    make_incomplete(3, full, minimal(3), "superadditive_cached"), lambda k: full, l1_norm))
rec("sample-empty", lambda: G.sample_exploitabilities_of_action_sequences(
    make_incomplete(3, full, minimal(3), "superadditive_cached"), lambda k: full, l1_norm, samples=2, max_size=-1))
rec("sample-zero", lambda: G.sample_exploitabilities_of_action_sequences(
    make_incomplete(3, full, minimal(3), "superadditive_cached"), lambda k: full, l1_norm, samples=0, max_size=1))
rec("sample-logs", drain_logs)

# ---- F. one sequence over many games ----------------------------------------------------------------------
for n in [2, 3, 4]:
    for seed in range(2):
        computer = ["superadditive", "superadditive_cached"][seed % 2]
        rng = np.random.default_rng([7, n, seed])
        fulls = [make_full(n, ["int", "dyadic", "float"][i % 3], rng, computer) for i in range(1 + 2 * seed)]
        known = knowledge(n, 0.2, rng)
        seqs = [[Coalition(int(s)) for s in range(2**n) if s not in known and rng.random() < q] for q in [0.0, 0.3, 0.8]]
        for processes in [1 + (n + seed) % 2]:
            for gap_name in [["expl", "l2"][(n + seed) % 2]]:
                tag = ("many", n, seed, processes, gap_name)
                for i, seq in enumerate(seqs):
                    def run_list():
                        game = make_incomplete(n, fulls[0], known, computer)
                        out = G.get_exploitabilities_of_action_sequence(game, fulls, seq, GAPS[gap_name], processes)
                        return iter(out) is out, list(out), list(out), game._values.copy()
                    rec(tag + ("list", i), run_list)

                    def run_generator():
                        pulled = []

                        def gen():
                            for j, g in enumerate(fulls):
                                pulled.append(j)
                                yield g
                            pulled.append("end")
                        game = make_incomplete(n, fulls[0], known, computer)
                        out = G.get_exploitabilities_of_action_sequence(game, gen(), seq, GAPS[gap_name], processes=processes)
                        after_call = list(pulled)
                        return after_call, list(out), list(pulled)
                    rec(tag + ("generator", i), run_generator)

                def stacked():
                    game = make_incomplete(n, fulls[0], known, computer)
                    out = G.get_stacked_exploitabilities_of_action_sequences(game, fulls, seqs, GAPS[gap_name], processes)
                    return iter(out) is out, list(out)
                rec(tag + ("stacked",), stacked)
game = make_incomplete(3, full, minimal(3), "superadditive_cached")
rec("many-not-iterable", lambda: staged(lambda: G.get_exploitabilities_of_action_sequence(game, 5, [], l1_norm)))
rec("many-not-iterable-zero", lambda: staged(lambda: G.get_exploitabilities_of_action_sequence(game, 5, [], l1_norm, 0)))
rec("many-empty", lambda: staged(lambda: G.get_exploitabilities_of_action_sequence(game, [], [], l1_norm, 2)))
rec("many-bad-full", lambda: staged(lambda: G.get_exploitabilities_of_action_sequence(game, [full, None], [], l1_norm, 2)))
rec("stacked-no-len", lambda: staged(lambda: G.get_stacked_exploitabilities_of_action_sequences(game, iter([full]), [[]], l1_norm)))

for public in ["Action", "ActionSequence", "LOGGER", "possible_next_actions", "possible_action_sequences",
               "apply_action_sequence", "_get_act_sequence_exploitability", "get_exploitabilities_of_action_sequences",
               "sample_exploitabilities_of_action_sequences", "get_exploitabilities_of_action_sequence",
               "get_stacked_exploitabilities_of_action_sequences", "Coalition", "all_coalitions", "get_known_coalitions",
               "Pool", "combinations", "np", "logging"]:
    rec(("name", public), lambda: hasattr(G, public))
rec("worker-pickle", lambda: pickle.dumps(G._get_act_sequence_exploitability, protocol=4))
rec("clock", lambda: next(_clock))

finish()
'''


def run_both(driver_source, touched):
    with tempfile.TemporaryDirectory() as tmp:
        orig = os.path.join(tmp, "orig")
        os.makedirs(orig)
        subprocess.run(f"git -C {WT} archive HEAD incomplete_cooperative | tar -x -C {orig}", shell=True, check=True)
        changed = [p for p in touched
                   if open(os.path.join(orig, p), "rb").read() != open(os.path.join(WT, p), "rb").read()]
        print("files differing from HEAD:", changed or "NONE (patch not applied? comparison is trivial)")
        driver = os.path.join(tmp, "driver.py")
        with open(driver, "w") as f:
            f.write(driver_source)
        procs = []
        for label, tree in (("orig", orig), ("new", WT)):  # two separate interpreters, side by side
            out = os.path.join(tmp, label + ".pkl")
            env = dict(os.environ, PYTHONPATH=tree, OMP_NUM_THREADS="1", PYTHONHASHSEED="0",
                       PYTHONDONTWRITEBYTECODE="1")
            procs.append((out, subprocess.Popen([PY, driver, out, tree], cwd=tmp, env=env)))
        blobs = []
        for out, proc in procs:
            if proc.wait() != 0:
                raise SystemExit(f"driver failed with status {proc.returncode}")
        for out, proc in procs:
            with open(out, "rb") as f:
                blobs.append(f.read())
    return blobs


def main():
    blob_orig, blob_new = run_both(DRIVER, TOUCHED)
    if blob_orig == blob_new:
        print(f"IDENTICAL ({len(pickle.loads(blob_orig))} records, {len(blob_orig)} bytes)")
        return 0
    a, b = pickle.loads(blob_orig), pickle.loads(blob_new)
    print(f"DIFFERENT: {len(a)} vs {len(b)} records")
    shown = 0
    for (la, va), (lb, vb) in zip(a, b):
        if la != lb or va != vb:
            print("  first differences at", la, lb)
            print("    orig:", repr(va)[:300])
            print("    new: ", repr(vb)[:300])
            shown += 1
            if shown >= 5:
                break
    return 1


if __name__ == "__main__":
    sys.exit(main())
