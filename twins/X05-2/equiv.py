#!/usr/bin/env python
"""Differential equivalence check for patch_2 (incomplete_cooperative/shapley.py, incomplete_cooperative/exploitability.py).

The ORIGINAL package is taken from git (`git archive HEAD incomplete_cooperative`) into a temporary directory,
the REFACTORED package is the worktree as it is now (patch applied) -- or, with `--patch FILE`, a second
`git archive` copy to which FILE is applied.  The same worker runs in two separate interpreters (one per tree),
pickles everything it observed, and the two pickles have to be byte-equal.

    /venv/bin/python equiv_2.py [--worktree /tmp/wt_x4_X05] [--patch /tmp/twin_out/X05/patch_2.diff]

Exit status 0 iff everything is identical.
"""
import argparse
import os
import pickle
import subprocess
import sys
import tempfile

WORKTREE_DEFAULT = "/tmp/wt_x4_X05"

WORKER = r'''
import os
import pickle
import sys
import warnings
from fractions import Fraction

import numpy as np
import sympy

warnings.simplefilter("ignore")

import incomplete_cooperative
import incomplete_cooperative.generators as _generators_module
from incomplete_cooperative import exploitability as E
from incomplete_cooperative import shapley as S
from incomplete_cooperative.bounds import BOUNDS
from incomplete_cooperative.coalitions import (Coalition, all_coalitions, grand_coalition,
                                               minimal_game_coalitions, player_to_coalition)
from incomplete_cooperative.game import IncompleteCooperativeGame
from incomplete_cooperative.generators import GENERATORS
from incomplete_cooperative.graph_game import GraphCooperativeGame
from incomplete_cooperative.icg_gym import ICG_Gym
from incomplete_cooperative.protocols import Game, IncompleteGame

# some registered generators draw from an unseeded module level generator: make it deterministic
_generators_module._gen.bit_generator.state = np.random.default_rng(20240229).bit_generator.state

RECORDS = []


def enc(obj):
    """Turn an observation into plain, deterministically picklable data (bit exact for floats and arrays)."""
    if isinstance(obj, np.ndarray):
        if obj.dtype == object:
            return ("ndobj", obj.shape, [enc(x) for x in obj.ravel().tolist()])
        return ("nd", obj.dtype.str, obj.shape, np.ascontiguousarray(obj).tobytes())
    if isinstance(obj, np.generic):
        return ("np", type(obj).__name__, obj.dtype.str, obj.tobytes())
    if isinstance(obj, bool) or obj is None or isinstance(obj, (int, str, bytes)):
        return (type(obj).__name__, obj)
    if isinstance(obj, float):
        return ("float", obj.hex())
    if isinstance(obj, Fraction):
        return ("Fraction", obj.numerator, obj.denominator)
    if isinstance(obj, sympy.Basic):
        return ("sympy", type(obj).__name__, sympy.srepr(obj))
    if isinstance(obj, Coalition):
        return ("Coalition", enc(obj.id))
    if isinstance(obj, BaseException):
        return ("exc", type(obj).__name__, str(obj))
    if isinstance(obj, (tuple, list)):
        return (type(obj).__name__, [enc(x) for x in obj])
    if isinstance(obj, dict):
        return ("dict", [(enc(k), enc(v)) for k, v in obj.items()])
    if isinstance(obj, IncompleteCooperativeGame):
        return ("ICG", obj.number_of_players, enc(obj._values))
    if isinstance(obj, GraphCooperativeGame):
        return ("GCG", obj.number_of_players, enc(obj._graph_matrix))
    if isinstance(obj, E.MaxGainGame):
        return ("MaxGainGame", enc(obj.player), enc(obj._player_mask), sorted(vars(obj)))
    if isinstance(obj, Spy):
        return ("Spy", list(obj._log))
    return ("obj", type(obj).__module__, type(obj).__qualname__)


def record(label, fn, *state):
    """Call `fn`, store its result (or exception) and the state of the objects it may have touched."""
    try:
        out = ("ok", enc(fn()))
    except BaseException as e:  # noqa
        out = ("raised", enc(e))
    RECORDS.append((label, out, [enc(s) for s in state]))


class Spy:
    """A game that forwards everything to another game and writes down every access, in order."""

    def __init__(self, game):
        self._game = game
        self._log = []

    @property
    def number_of_players(self):
        self._log.append(("number_of_players",))
        return self._game.number_of_players


def _spy_method(name):
    def method(self, *args):
        args = tuple(a if isinstance(a, (Coalition, np.ndarray, int, float, type(None))) else list(a) for a in args)
        self._log.append((name, repr(enc(args))[:200]))
        return getattr(self._game, name)(*args)
    method.__name__ = name
    return method


for _name in ("get_values", "get_value", "copy", "__add__", "get_upper_bound", "get_upper_bounds", "get_lower_bound",
              "get_lower_bounds", "get_interval", "get_intervals", "is_value_known", "are_values_known",
              "get_known_value", "get_known_values", "compute_bounds"):
    setattr(Spy, _name, _spy_method(_name))


class ObjectGame:
    """An incomplete game over arbitrary numbers (fractions, symbols): tables are object arrays."""

    def __init__(self, lower, upper):
        self.lower = np.array(lower, dtype=object)
        self.upper = np.array(upper, dtype=object)
        self.number_of_players = int(np.log2(len(self.lower)))

    def _pick(self, table, coalitions):
        return table if coalitions is None else table[[c.id for c in coalitions]]

    def get_value(self, coalition):
        return self.lower[coalition.id]

    def get_values(self, coalitions=None):
        return self._pick(self.lower, coalitions)

    def get_upper_bound(self, coalition):
        return self.upper[coalition.id]

    def get_lower_bound(self, coalition):
        return self.lower[coalition.id]

    def get_upper_bounds(self, coalitions=None):
        return self._pick(self.upper, coalitions)

    def get_lower_bounds(self, coalitions=None):
        return self._pick(self.lower, coalitions)

    def copy(self):
        return ObjectGame(self.lower.copy(), self.upper.copy())

    def __add__(self, other):
        return ObjectGame(self.lower + other.lower, self.upper + other.upper)


def full_icg(values):
    n = int(np.log2(len(values)))
    game = IncompleteCooperativeGame(n)
    game.set_values(np.asarray(values))
    return game


def superadditive_values(n, rng, integer=False):
    weights = rng.integers(1, 9, n) if integer else rng.random(n) + 0.05
    extra = rng.integers(0, 5, n) if integer else rng.random(n)
    vals = np.zeros(2**n)
    for c in all_coalitions(n):
        players = list(c.players)
        m = sum(weights[p] for p in players)
        vals[c.id] = (m * m if len(players) > 1 else 0) + sum(extra[p] for p in players)
    return vals


def partial_game(n, rng, vals, kind, bounds="superadditive"):
    game = IncompleteCooperativeGame(n, BOUNDS[bounds])
    if kind == "minimal":
        known = list(minimal_game_coalitions(n))
    elif kind == "full":
        known = list(all_coalitions(n))
    elif kind == "no_grand":
        known = [c for c in all_coalitions(n) if c.id != 2**n - 1]
    else:
        p = float(kind)
        minimal = {c.id for c in minimal_game_coalitions(n)}
        known = [c for c in all_coalitions(n) if c.id in minimal or rng.random() < p]
    game.set_known_values(vals[[c.id for c in known]], known)
    try:
        game.compute_bounds()
    except AssertionError:
        pass
    return game


def look_at_game(label, game, players, rng):
    """Everything the two modules offer, on one game."""
    n = game.number_of_players
    record(label + "/exploitability", lambda: E.compute_exploitability(game), game)
    for player in players:
        made = []
        record(f"{label}/mgg{player}/init", lambda: made.append(E.MaxGainGame(game, player)) or made[-1])
        if not made:
            continue
        mgg = made[-1]
        record(f"{label}/mgg{player}/n", lambda: mgg.number_of_players)
        record(f"{label}/mgg{player}/isgame", lambda: (isinstance(mgg, Game), isinstance(mgg, IncompleteGame)))
        record(f"{label}/mgg{player}/values", lambda: mgg.get_values(), mgg)
        subset = [Coalition(int(i)) for i in rng.integers(0, 2**n, 5)]
        record(f"{label}/mgg{player}/values_subset", lambda: mgg.get_values(subset))
        record(f"{label}/mgg{player}/values_gen", lambda: mgg.get_values(c for c in subset))
        record(f"{label}/mgg{player}/values_empty", lambda: mgg.get_values([]))
        record(f"{label}/mgg{player}/value_each", lambda: [mgg.get_value(c) for c in all_coalitions(n)])
        record(f"{label}/mgg{player}/value_types", lambda: [type(mgg.get_value(c)).__name__ for c in all_coalitions(n)])
        for bad in (Coalition(2**n), Coalition(-1), 3, None, "x"):
            record(f"{label}/mgg{player}/value_bad_{type(bad).__name__}_{getattr(bad, 'id', bad)}",
                   lambda: mgg.get_value(bad))
        record(f"{label}/mgg{player}/shapley", lambda: S.compute_shapley_value_for_player(player, mgg))
        record(f"{label}/mgg{player}/shapley_all", lambda: list(S.compute_shapley_value(mgg)))
    for player in players:
        record(f"{label}/shapley{player}", lambda: S.compute_shapley_value_for_player(player, game), game)
    record(label + "/shapley_all", lambda: list(S.compute_shapley_value(game)), game)
    record(label + "/shapley_sum", lambda: sum(S.compute_shapley_value(game)), game)


# ---------------------------------------------------------------- the weights
for n in list(range(-2, 25)) + [170, 171, 172, 2.0, 3.5, None, "3", True]:
    record(f"contributions/{n!r}", lambda: S._get_contributions(n))

# ---------------------------------------------------------------- table games with bounds
for n in range(1, 7):
    for seed in range(8 if n < 6 else 3):
        rng = np.random.default_rng(100 * n + seed)
        vals = superadditive_values(n, rng, integer=bool(seed % 2))
        for kind in ("minimal", "full", "no_grand", "0.3", "0.7"):
            if n == 1 and kind == "no_grand":
                continue
            for bounds in ("superadditive", "superadditive_cached"):
                game = partial_game(n, rng, vals, kind, bounds)
                players = list(range(n)) + [n, n + 3, -1]
                look_at_game(f"icg/{n}/{seed}/{kind}/{bounds}", game, players, rng)

# games with arbitrary (also crossing, non-finite) bounds
for n in range(1, 6):
    for seed in range(10):
        rng = np.random.default_rng(7 * n + seed)
        game = IncompleteCooperativeGame(n)
        game._values[:, 0] = rng.random(2**n) < 0.5
        game._values[:, 1] = rng.normal(size=2**n)
        game._values[:, 2] = game._values[:, 1] + rng.normal(size=2**n) * (seed % 3)
        game._values[-1, 0] = seed % 4 != 3  # the grand coalition is unknown now and then: ValueError
        if seed == 9:
            game._values[rng.integers(0, 2**n), 2] = np.inf
            game._values[rng.integers(0, 2**n), 1] = np.nan
        look_at_game(f"wild/{n}/{seed}", game, list(range(n)), rng)

# ---------------------------------------------------------------- Shapley value of complete games of all kinds
for n in range(1, 7):
    for seed in range(6):
        rng = np.random.default_rng(13 * n + seed)
        graph = GraphCooperativeGame(rng.random((n, n)))
        for player in list(range(n)) + [n, -1, 2.0, "a", None, [0], True]:
            record(f"graph/{n}/{seed}/shapley{player!r}", lambda: S.compute_shapley_value_for_player(player, graph))
        record(f"graph/{n}/{seed}/shapley_all", lambda: list(S.compute_shapley_value(graph)))
        record(f"graph/{n}/{seed}/exploitability", lambda: E.compute_exploitability(graph))  # not an incomplete game
        record(f"graph/{n}/{seed}/mgg", lambda: E.MaxGainGame(graph, 0).get_value(Coalition(1)))
for name in sorted(GENERATORS):
    if name.startswith("convex"):
        continue  # needs pyfmtools, which is not installed
    for n in (3, 5):
        rng = np.random.default_rng(n)
        try:
            game = GENERATORS[name](n, rng)
        except BaseException as e:  # noqa
            RECORDS.append((f"gen/{name}/{n}", ("generator raised", enc(e)), []))
            continue
        record(f"gen/{name}/{n}/shapley_all", lambda: list(S.compute_shapley_value(game)))
        record(f"gen/{name}/{n}/shapley_each", lambda: [S.compute_shapley_value_for_player(p, game) for p in range(n)])
        if isinstance(game, IncompleteCooperativeGame):
            incomplete = partial_game(n, rng, game.get_values(), "0.4")
            record(f"gen/{name}/{n}/exploitability", lambda: E.compute_exploitability(incomplete), incomplete)

# ---------------------------------------------------------------- exact and symbolic games
for n in range(1, 5):
    rng = np.random.default_rng(n)
    lower = [Fraction(int(a), 7) for a in rng.integers(0, 50, 2**n)]
    upper = [lo + Fraction(int(a), 3) for lo, a in zip(lower, rng.integers(0, 9, 2**n))]
    upper[-1] = lower[-1]
    look_at_game(f"fraction/{n}", ObjectGame(lower, upper), list(range(n)), rng)
    lower = [sympy.Symbol(f"l{i}") for i in range(2**n)]
    upper = [sympy.Symbol(f"u{i}") for i in range(2**n)]
    upper[-1] = lower[-1]
    look_at_game(f"symbolic/{n}", ObjectGame(lower, upper), list(range(n)), rng)
    lower = [sympy.Rational(int(a), 5) for a in rng.integers(0, 50, 2**n)]
    look_at_game(f"rational/{n}", ObjectGame(lower, lower), list(range(n)), rng)

# ---------------------------------------------------------------- the order of the accesses to the game
for n in range(1, 5):
    for seed in range(4):
        rng = np.random.default_rng(3 * n + seed)
        vals = superadditive_values(n, rng)
        inner = partial_game(n, rng, vals, "0.5")
        spy = Spy(inner)
        record(f"spy/{n}/{seed}/exploitability", lambda: E.compute_exploitability(spy), spy)
        spy = Spy(inner)
        record(f"spy/{n}/{seed}/shapley_player", lambda: S.compute_shapley_value_for_player(0, spy), spy)
        spy = Spy(full_icg(vals))
        record(f"spy/{n}/{seed}/shapley_all", lambda: list(S.compute_shapley_value(spy)), spy)
        spy = Spy(inner)
        mgg = E.MaxGainGame(spy, n - 1)
        record(f"spy/{n}/{seed}/mgg_value", lambda: [mgg.get_value(c) for c in all_coalitions(n)], spy)
        spy = Spy(inner)
        record(f"spy/{n}/{seed}/bad_player", lambda: S.compute_shapley_value_for_player([0], spy), spy)
        record(f"spy/{n}/{seed}/bad_player2", lambda: S.compute_shapley_value_for_player(-1, spy), spy)

# ---------------------------------------------------------------- laziness and exception moments
for bad in (None, 3, object(), IncompleteCooperativeGame(0), IncompleteCooperativeGame(2)):
    name = type(bad).__name__ + str(getattr(bad, "number_of_players", ""))
    made = []
    record(f"lazy/{name}/create", lambda: made.append(S.compute_shapley_value(bad)) or type(made[-1]).__name__)
    record(f"lazy/{name}/first", lambda: next(made[-1]))
    record(f"lazy/{name}/second", lambda: next(made[-1]))
    record(f"lazy/{name}/player", lambda: S.compute_shapley_value_for_player(0, bad))
    record(f"lazy/{name}/exploitability", lambda: E.compute_exploitability(bad))
    record(f"lazy/{name}/mgg", lambda: E.MaxGainGame(bad, 0))

# ---------------------------------------------------------------- through the gym (the reward is the exploitability)
for gname in ("factory", "graph", "xos"):
    for n in (3, 4):
        for seed in range(3):
            rng = np.random.default_rng(seed + 17)

            def generator(rng=rng, n=n, gname=gname):
                return GENERATORS[gname](n, rng)
            incomplete = IncompleteCooperativeGame(n, BOUNDS["superadditive"])
            env = ICG_Gym(incomplete, generator, minimal_game_coalitions(n), E.compute_exploitability)
            record(f"gym/{gname}/{n}/{seed}/init", lambda: (env.state, env.reward, env.done), incomplete)
            actions = np.random.default_rng(seed).permutation(len(env.explorable_coalitions))
            for a in actions[:6]:
                record(f"gym/{gname}/{n}/{seed}/step{a}", lambda: env.step(int(a)), incomplete)
            record(f"gym/{gname}/{n}/{seed}/unstep", lambda: env.unstep(int(actions[0])), incomplete)

# the public (and the untouched private) names stay where they were
record("names/shapley", lambda: sorted(k for k in vars(S) if k in (
    "compute_shapley_value", "compute_shapley_value_for_player", "_get_contributions", "_shapley_value_for_player",
    "Coalition", "all_coalitions", "exclude_coalition", "player_to_coalition", "factorial", "starmap")))
record("names/exploitability", lambda: sorted(k for k in vars(E) if not k.startswith("__")))
record("names/mgg", lambda: sorted(k for k in vars(E.MaxGainGame) if not k.startswith("__")))
record("pickle/mgg", lambda: pickle.loads(pickle.dumps(E.MaxGainGame(full_icg(np.arange(8.0)), 1))))

with open(sys.argv[1], "wb") as f:
    pickle.dump({"where": os.path.dirname(os.path.abspath(incomplete_cooperative.__file__)), "records": RECORDS}, f,
                protocol=4)
'''


def _run(cmd, **kw):
    return subprocess.run(cmd, check=True, **kw)


def _archive(worktree, dest):
    os.makedirs(dest)
    tar = subprocess.run(["git", "-C", worktree, "archive", "HEAD", "incomplete_cooperative"],
                         check=True, stdout=subprocess.PIPE).stdout
    _run(["tar", "-x", "-C", dest], input=tar)


def _worker(root, worker, out, cwd):
    env = dict(os.environ, PYTHONPATH=root, PYTHONHASHSEED="0", OMP_NUM_THREADS="1", PYTHONDONTWRITEBYTECODE="1")
    _run([sys.executable, worker, out], env=env, cwd=cwd)
    with open(out, "rb") as f:
        raw = f.read()
    return pickle.loads(raw)


def main():
    ap = argparse.ArgumentParser()
    ap.add_argument("--worktree", default=WORKTREE_DEFAULT)
    ap.add_argument("--patch", default=None, help="apply this diff to a second copy instead of using the worktree")
    args = ap.parse_args()
    worktree = os.path.abspath(args.worktree)
    with tempfile.TemporaryDirectory(prefix="equiv2_") as tmp:
        base = os.path.join(tmp, "base")
        _archive(worktree, base)
        if args.patch:
            new = os.path.join(tmp, "new")
            _archive(worktree, new)
            _run(["git", "apply", os.path.abspath(args.patch)], cwd=new)
        else:
            new = worktree
        worker = os.path.join(tmp, "worker.py")
        with open(worker, "w") as f:
            f.write(WORKER)
        a = _worker(base, worker, os.path.join(tmp, "a.pkl"), tmp)
        b = _worker(new, worker, os.path.join(tmp, "b.pkl"), tmp)
        for res, root in ((a, base), (b, new)):
            expected = os.path.join(os.path.realpath(root), "incomplete_cooperative")
            if os.path.realpath(res["where"]) != expected:
                print(f"worker imported the package from {res['where']}, expected {expected}")
                return 2
        same_sources = subprocess.run(["diff", "-rq", "-x", "__pycache__", os.path.join(base, "incomplete_cooperative"),
                                       os.path.join(new, "incomplete_cooperative")],
                                      stdout=subprocess.PIPE).returncode == 0
        if same_sources:
            print("WARNING: the two trees have identical sources (is the patch applied?)")
        ra, rb = a["records"], b["records"]
        bad = 0
        if len(ra) != len(rb):
            print(f"different number of records: {len(ra)} vs {len(rb)}")
            bad += 1
        for x, y in zip(ra, rb):
            if pickle.dumps(x, protocol=4) != pickle.dumps(y, protocol=4):
                bad += 1
                if bad <= 5:
                    print("DIFFERENCE at", x[0], "\n  original:  ", repr(x)[:300], "\n  refactored:", repr(y)[:300])
        if pickle.dumps(ra, protocol=4) != pickle.dumps(rb, protocol=4) and not bad:
            bad += 1
        raised = sum(1 for r in ra if r[1][0] == "raised")
        print(f"{len(ra)} records compared ({raised} of them exceptions), {bad} differences")
        return 1 if bad else 0


if __name__ == "__main__":
    sys.exit(main())
