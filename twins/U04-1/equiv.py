"""Differential test for refactoring 1 (bounds.py: index sets of the sam_apx bounds selected once, zip).

Run with cwd=/tmp/wt10/U04.  Loads the ORIGINAL package source from git HEAD under the name `icg_orig`
and the refactored one from the worktree, and compares the bound computers exactly (values, exceptions,
and the sequence of calls made on the game object).
"""
import atexit
import importlib
import re
import shutil
import subprocess  # nosec
import sys
import tempfile
from functools import partial
from pathlib import Path

import numpy as np

WT = "/tmp/wt10/U04"
ORIG = "icg_orig"


def load_original():
    tmp = Path(tempfile.mkdtemp(prefix="icg_orig_"))
    files = subprocess.check_output(  # nosec
        ["git", "-C", WT, "ls-tree", "-r", "--name-only", "HEAD", "incomplete_cooperative"], text=True).split("\n")
    for f in files:
        if not f.endswith(".py") or "/tests/" in f:
            continue
        src = subprocess.check_output(["git", "-C", WT, "show", f"HEAD:{f}"], text=True)  # nosec
        src = re.sub(r"\bincomplete_cooperative\b", ORIG, src)
        dest = tmp / ORIG / Path(f).relative_to("incomplete_cooperative")
        dest.parent.mkdir(parents=True, exist_ok=True)
        dest.write_text(src)
    sys.path.insert(0, str(tmp))
    atexit.register(shutil.rmtree, str(tmp), ignore_errors=True)
    return tmp


load_original()
sys.path.insert(0, WT)


def mods(pkg):
    return {name: importlib.import_module(f"{pkg}.{name}")
            for name in ["bounds", "game", "coalitions", "generators", "coalition_ids"]}


O = mods(ORIG)
N = mods("incomplete_cooperative")
assert N["bounds"].__file__.startswith(WT), N["bounds"].__file__
assert not O["bounds"].__file__.startswith(WT), O["bounds"].__file__


class Recorder:
    """A game proxy that records every call made on the game (name, arguments, result)."""

    def __init__(self, game):
        object.__setattr__(self, "_game", game)
        object.__setattr__(self, "log", [])

    @property
    def number_of_players(self):
        self.log.append(("number_of_players",))
        return self._game.number_of_players

    def __getattr__(self, name):
        attr = getattr(self._game, name)
        if not callable(attr):
            self.log.append(("attr", name))
            return attr

        def wrapper(*args, **kwargs):
            res = attr(*args, **kwargs)
            self.log.append((name, tuple(_freeze(a) for a in args),
                             tuple((k, _freeze(v)) for k, v in kwargs.items()), _freeze(res)))
            return res
        return wrapper


def _freeze(x):
    if isinstance(x, np.ndarray):
        return ("arr", x.dtype.str, x.shape, x.tobytes())
    if hasattr(x, "id") and type(x).__name__ == "Coalition":
        return ("coal", int(x.id))
    if isinstance(x, np.generic):
        return ("np", x.dtype.str, x.tobytes())
    return x


def run(M, computer_of, n, values, known_mask, record):
    """Build the game in package M, compute the bounds, return everything observable."""
    game = M["game"].IncompleteCooperativeGame(n)
    Coalition = M["coalitions"].Coalition
    ids = np.flatnonzero(known_mask)
    game.set_known_values(values[ids], [Coalition(int(i)) for i in ids])
    target = Recorder(game) if record else game
    try:
        ret = computer_of(M)(target)
        exc = None
    except Exception as e:  # noqa
        ret = None
        exc = (type(e).__name__, str(e))
    return ret, exc, game._values.copy(), (target.log if record else None)


def same(a, b):
    if a[0] is not b[0] and a[0] != b[0]:
        return False
    if a[1] != b[1]:
        return False
    if a[2].dtype != b[2].dtype or not np.array_equal(a[2], b[2], equal_nan=True):
        return False
    return a[3] == b[3]


def value_sources(n, seed):
    """Yield (name, values) pairs: registry generators (SAM and not), and raw arrays incl. nan / inf."""
    for gname in ["covg_fn_generator", "k_budget_generator", "factory", "noisy_factory_exp", "xos", "xs", "graph_cycle"]:
        if n < 2 and gname == "k_budget_generator":
            continue
        go = O["generators"].GENERATORS[gname](n, np.random.default_rng(seed))
        gn = N["generators"].GENERATORS[gname](n, np.random.default_rng(seed))
        vo, vn = np.array(go.get_values(), dtype=float), np.array(gn.get_values(), dtype=float)
        assert np.array_equal(vo, vn, equal_nan=True), ("generator differs", gname, n, seed)
        yield gname, vn
    rng = np.random.default_rng(1000 + seed)
    raw = rng.normal(size=2**n)
    raw[0] = 0
    yield "normal", raw
    ints = rng.integers(-5, 6, size=2**n).astype(float)
    ints[0] = 0
    yield "ints", ints
    weird = rng.normal(size=2**n)
    weird[0] = 0
    weird[rng.integers(1, 2**n)] = np.nan
    weird[rng.integers(1, 2**n)] = np.inf
    weird[rng.integers(1, 2**n)] = -np.inf
    yield "nan_inf", weird


def known_masks(n, rng):
    minimal = np.zeros(2**n, bool)
    minimal[0] = True
    minimal[-1] = True
    minimal[2**np.arange(n)] = True
    yield "minimal", minimal.copy()
    for p in (0.2, 0.5, 0.8):
        m = minimal | (rng.random(2**n) < p)
        yield f"minimal+{p}", m
    yield "full", np.ones(2**n, bool)
    # only the empty and the grand coalition (singletons unknown): np.min of an empty array raises
    bare = np.zeros(2**n, bool)
    bare[0] = True
    bare[-1] = True
    yield "bare", bare
    m = bare | (rng.random(2**n) < 0.4)
    yield "bare+0.4", m
    # grand coalition unknown: the assertion at the top fails
    m = minimal.copy()
    m[-1] = False
    yield "no_grand", m


def computers(n):
    for rep in (-2, -1, 0, 1, 2, 3, 7):
        yield f"rep={rep}", (lambda M, rep=rep: partial(
            M["bounds"].compute_bounds_superadditive_monotone_approx_cached, repetitions=rep))
    yield "rep=positional", (lambda M: (lambda g: M["bounds"].compute_bounds_superadditive_monotone_approx_cached(g, 2)))
    yield "rep=2.5", (lambda M: partial(M["bounds"].compute_bounds_superadditive_monotone_approx_cached, repetitions=2.5))
    for key in ["sam_apx_1", "sam_apx_10", "sam_apx_100"] + (["sam_apx_1000"] if n <= 3 else []):
        yield key, (lambda M, key=key: M["bounds"].BOUNDS[key])
    # the untouched computers, through the registry (they share the cached structure)
    for key in ["superadditive", "superadditive_cached"]:
        yield key, (lambda M, key=key: M["bounds"].BOUNDS[key])


def main():
    assert list(O["bounds"].BOUNDS) == list(N["bounds"].BOUNDS)
    cases = 0
    outcomes: dict = {}
    for n in (1, 2, 3, 4, 5, 6):
        for seed in range(4 if n < 6 else 2):
            rng = np.random.default_rng(77 * n + seed)
            for vname, values in value_sources(n, seed):
                for mname, mask in known_masks(n, rng):
                    for cname, computer_of in computers(n):
                        if cname == "superadditive" and mname.startswith("bare"):
                            continue  # asserts on the singletons; covered by one case below
                        record = (n <= 4 and cname not in ("sam_apx_100", "sam_apx_1000"))
                        a = run(O, computer_of, n, values, mask, record)
                        b = run(N, computer_of, n, values, mask, record)
                        cases += 1
                        key = a[1][0] if a[1] else 'no exception'
                        outcomes[key] = outcomes.get(key, 0) + 1
                        if not same(a, b):
                            print("DIFFERENT")
                            print("case:", dict(n=n, seed=seed, values=vname, known=mname, computer=cname))
                            print("values:", values.tolist())
                            print("known:", mask.tolist())
                            print("original :", a[0], a[1], a[2].tolist())
                            print("refactored:", b[0], b[1], b[2].tolist())
                            return 1
    # the cached structure itself
    for n in range(0, 8):
        so = O["bounds"]._get_sub_super_coalition_structure(n)
        sn = N["bounds"]._get_sub_super_coalition_structure(n)
        cases += 1
        if not all(x.dtype == y.dtype and np.array_equal(x, y) for x, y in zip(so, sn)):
            print("DIFFERENT")
            print("structure for", n)
            return 1
    print(f"{cases} cases; outcomes of the original: {outcomes}")
    print("EQUIVALENT")
    return 0


if __name__ == "__main__":
    sys.exit(main())
