"""Differential test: original package (from git HEAD) against the refactored worktree.

Run with cwd=/tmp/wt9/T03:  OMP_NUM_THREADS=1 /venv/bin/python /tmp/twin_out/T03/equiv_1.py

The original sources are written from `git show HEAD:<path>` into a temporary package `icg_orig`
(absolute imports of `incomplete_cooperative` rewritten to `icg_orig`), the refactored package is
imported from the current directory.  Both are run on the same inputs; results must be identical bit
for bit (type, dtype, shape, values incl. nan / signed zero) and exceptions must agree (type + text).

FOCUS of this script: patch 1 (incomplete_cooperative/shapley.py).  The whole chain
coalitions -> shapley -> exploitability is exercised anyway.
"""
from __future__ import annotations

import importlib
import itertools
import os
import subprocess
import sys
import tempfile
import warnings
from pathlib import Path

os.environ.setdefault("OMP_NUM_THREADS", "1")
import numpy as np  # noqa: E402

WT = Path("/tmp/wt9/T03")
assert Path.cwd().resolve() == WT.resolve(), "run with cwd=/tmp/wt9/T03"
sys.path.insert(0, str(WT))
warnings.simplefilter("ignore")

FOCUS = "shapley"


# --------------------------------------------------------------------------------------------------------------
def load_original() -> str:
    """Write the HEAD version of the package (without tests) to a temp dir as package `icg_orig`."""
    tmp = tempfile.mkdtemp(prefix="icg_orig_")
    names = subprocess.run(["git", "-C", str(WT), "ls-tree", "-r", "--name-only", "HEAD", "incomplete_cooperative"],
                           check=True, capture_output=True, text=True).stdout.split()
    for name in names:
        if "/tests/" in name or not name.endswith(".py"):
            continue
        src = subprocess.run(["git", "-C", str(WT), "show", f"HEAD:{name}"],
                             check=True, capture_output=True, text=True).stdout
        src = src.replace("from incomplete_cooperative", "from icg_orig").replace(
            "import incomplete_cooperative", "import icg_orig")
        target = Path(tmp) / name.replace("incomplete_cooperative", "icg_orig", 1)
        target.parent.mkdir(parents=True, exist_ok=True)
        target.write_text(src)
    sys.path.insert(0, tmp)
    return tmp


load_original()


class Pkg:
    """The modules of one of the two packages."""

    def __init__(self, name: str) -> None:
        self.name = name
        for mod in ["coalitions", "shapley", "exploitability", "game", "graph_game", "generators", "bounds",
                    "protocols", "norms", "normalize"]:
            setattr(self, mod, importlib.import_module(f"{name}.{mod}"))


OLD = Pkg("icg_orig")
NEW = Pkg("incomplete_cooperative")
assert "icg_orig_" in OLD.shapley.__file__ and OLD.shapley.__file__ != NEW.shapley.__file__
assert NEW.shapley.__file__.startswith(str(WT))

N_CASES = 0


class Different(Exception):
    """Raised at the first counterexample."""


def norm(x):
    """Bring a result into a package-independent, exactly comparable form."""
    if type(x).__name__ == "Coalition":
        return ("Coalition", x.id)
    if isinstance(x, np.ndarray):
        if x.dtype == object:
            return ("ndarray-object", x.shape, tuple(norm(y) for y in x.ravel()))
        return ("ndarray", str(x.dtype), x.shape, x.tobytes())
    if isinstance(x, np.generic):
        return (type(x).__name__, x.tobytes())
    if isinstance(x, float):
        return ("float", np.float64(x).tobytes())
    if isinstance(x, (list, tuple)):
        return (type(x).__name__, tuple(norm(y) for y in x))
    if isinstance(x, (int, bool, str, type(None))):
        return (type(x).__name__, x)
    if isinstance(x, BaseException):
        return ("EXC", type(x).__name__, str(x).replace("icg_orig", "incomplete_cooperative"))
    if hasattr(x, "__next__"):
        return ("iterator-of", type(x).__name__)
    raise TypeError(f"cannot normalise {type(x)}")


def call(fn):
    """Call and return either the result or the exception."""
    try:
        return fn()
    except RecursionError:
        raise
    except Exception as e:  # noqa: BLE001
        return e


def check(what: str, fn) -> None:
    """`fn(pkg)` is run for both packages; results have to be identical."""
    global N_CASES
    N_CASES += 1
    a, b = call(lambda: fn(OLD)), call(lambda: fn(NEW))
    na, nb = norm(a), norm(b)
    if na != nb:
        raise Different(f"{what}\n  original:   {a!r}\n  refactored: {b!r}")


# --------------------------------------------------------------------------------------------------------------
# 1. coalitions: every method / function on many operands
def coalition_cases() -> None:
    ids = list(range(0, 40)) + [63, 64, 127, 255, 1023, 2**20 + 5]
    others = [0, 1, 2, 5, True, False, np.int64(1), "x", None, 1.0, 2.5]
    for i in ids:
        check(f"len({i})", lambda p: len(p.coalitions.Coalition(i)))
        check(f"players({i})", lambda p: list(p.coalitions.Coalition(i).players))
        check(f"hash({i})", lambda p: hash(p.coalitions.Coalition(i)))
        check(f"inverted({i})", lambda p: p.coalitions.Coalition(i).inverted(6))
        check(f"sub_coalitions({i})", lambda p: list(p.coalitions.get_sub_coalitions(p.coalitions.Coalition(i % 64))))
        check(f"super_coalitions({i})",
              lambda p: list(p.coalitions.get_super_coalitions(p.coalitions.Coalition(i % 32), 5)))
        for o in others:
            check(f"{o!r} in C({i})", lambda p: o in p.coalitions.Coalition(i))
            check(f"C({i}) & {o!r}", lambda p: p.coalitions.Coalition(i) & o)
            check(f"C({i}) | {o!r}", lambda p: p.coalitions.Coalition(i) | o)
            check(f"C({i}) - {o!r}", lambda p: p.coalitions.Coalition(i) - o)
            check(f"C({i}) + {o!r}", lambda p: p.coalitions.Coalition(i) + o)
            check(f"C({i}) == {o!r}", lambda p: p.coalitions.Coalition(i) == o)
            check(f"C({i}) != {o!r}", lambda p: p.coalitions.Coalition(i) != o)
    for i, j in itertools.product(ids[:24] + ids[-3:], repeat=2):
        C = "coalitions"
        check(f"C({j}) in C({i})", lambda p: getattr(p, C).Coalition(j) in getattr(p, C).Coalition(i))
        check(f"C({i}) & C({j})", lambda p: getattr(p, C).Coalition(i) & getattr(p, C).Coalition(j))
        check(f"C({i}) | C({j})", lambda p: getattr(p, C).Coalition(i) | getattr(p, C).Coalition(j))
        check(f"C({i}) - C({j})", lambda p: getattr(p, C).Coalition(i) - getattr(p, C).Coalition(j))
        check(f"C({i}) + C({j})", lambda p: getattr(p, C).Coalition(i) + getattr(p, C).Coalition(j))
        check(f"C({i}) == C({j})", lambda p: getattr(p, C).Coalition(i) == getattr(p, C).Coalition(j))
        check(f"disjoint({i},{j})",
              lambda p: getattr(p, C).disjoint_coalitions(getattr(p, C).Coalition(i), getattr(p, C).Coalition(j)))
    for players in [[], [0], [1, 1], [0, 3, 5], (2, 4), range(7), [True, 2], ["a"], [1.0, 2.0], [None]]:
        check(f"from_players({players!r})", lambda p: p.coalitions.Coalition.from_players(players))
    for n in list(range(0, 8)) + ["x", None, 2.0, -1]:
        check(f"player_to_coalition({n!r})", lambda p: p.coalitions.player_to_coalition(n))
        check(f"grand_coalition({n!r})", lambda p: p.coalitions.grand_coalition(n))
        check(f"all_coalitions({n!r})", lambda p: list(p.coalitions.all_coalitions(n)))
        check(f"type all_coalitions({n!r})", lambda p: type(p.coalitions.all_coalitions(n)).__name__)
        check(f"minimal_game_coalitions({n!r})", lambda p: list(p.coalitions.minimal_game_coalitions(n)))
        for e in [0, 1, 5, 6]:
            check(f"exclude_coalition({e},{n!r})",
                  lambda p: list(p.coalitions.exclude_coalition(p.coalitions.Coalition(e),
                                                                p.coalitions.all_coalitions(n))))
    for n in range(1, 6):
        check(f"grand_coalition(game {n})",
              lambda p: p.coalitions.grand_coalition(p.game.IncompleteCooperativeGame(n)))
        check(f"all_coalitions(game {n})",
              lambda p: list(p.coalitions.all_coalitions(p.game.IncompleteCooperativeGame(n))))
        check(f"minimal_game_coalitions(game {n})",
              lambda p: list(p.coalitions.minimal_game_coalitions(p.game.IncompleteCooperativeGame(n))))
        check(f"get_known_coalitions(game {n})",
              lambda p: list(p.coalitions.get_known_coalitions(p.game.IncompleteCooperativeGame(n))))


# --------------------------------------------------------------------------------------------------------------
# 2. Shapley value of complete games
def full_game(p: Pkg, n: int, values: np.ndarray):
    """A complete game with the given value table."""
    game = p.game.IncompleteCooperativeGame(n)
    game.set_values(np.array(values, dtype=float))
    return game


class ListGame:
    """A foreign `Game` implementation whose `get_values` returns python lists (duck typing of the protocol)."""

    def __init__(self, n: int, values) -> None:
        self.number_of_players = n
        self.values = list(values)
        self.calls: list = []

    def get_values(self, coalitions=None):
        if coalitions is None:
            self.calls.append(None)
            return list(self.values)
        ids = [c.id for c in coalitions]
        self.calls.append(tuple(ids))
        return [self.values[i] for i in ids]

    def get_value(self, coalition):
        self.calls.append(("one", coalition.id))
        return self.values[coalition.id]

    def copy(self):
        return ListGame(self.number_of_players, self.values)

    def __add__(self, other):
        return ListGame(self.number_of_players, [a + b for a, b in zip(self.values, other.values)])


def shapley_all(p: Pkg, game):
    """All results of the shapley entry points for a game."""
    n = game.number_of_players
    it = p.shapley.compute_shapley_value(game)
    out = [type(it).__name__, list(it)]
    out.append([p.shapley.compute_shapley_value_for_player(i, game) for i in range(n)])
    out.append(p.shapley._get_contributions(n))
    return out


def shapley_cases() -> None:
    rng = np.random.default_rng(20240501)
    special = [0.0, -0.0, np.inf, -np.inf, np.nan, 1e308, -1e308, 1e-320, 3.0]
    for n in range(1, 8):
        for rep in range(30):
            kind = rep % 6
            if kind == 0:
                values = rng.normal(size=2**n) * 10.0**rng.integers(-3, 6)
            elif kind == 1:
                values = rng.integers(-5, 20, size=2**n).astype(float)
            elif kind == 2:
                values = rng.random(2**n)
                values[rng.integers(0, 2**n, size=2)] = rng.choice(special, size=2)
            elif kind == 3:
                values = np.cumsum(rng.random(2**n))
            elif kind == 4:
                values = rng.choice(special, size=2**n)
            else:
                values = rng.standard_cauchy(2**n) * 1e150
            values[0] = 0.0 if kind != 4 else values[0]
            check(f"shapley n={n} rep={rep} values={values!r}", lambda p: shapley_all(p, full_game(p, n, values)))
            if rep < 6:
                def run_list_game(p, values=values, n=n):
                    game = ListGame(n, values.tolist())
                    out = shapley_all(p, game)
                    return [out, [list(c) if isinstance(c, tuple) else c for c in game.calls]]
                check(f"shapley ListGame n={n} rep={rep}", run_list_game)
                check(f"shapley int ListGame n={n} rep={rep}",
                      lambda p: shapley_all(p, ListGame(n, [int(v) if np.isfinite(v) else 0 for v in values])))
    # errors: unknown values, bad players
    for n in range(1, 6):
        check(f"shapley of an incomplete game n={n}",
              lambda p: list(p.shapley.compute_shapley_value(p.game.IncompleteCooperativeGame(n))))
        for player in [-1, n, n + 3, "a", None, 1.0, True]:
            check(f"shapley for player {player!r} n={n}",
                  lambda p: p.shapley.compute_shapley_value_for_player(
                      player, full_game(p, n, np.arange(2**n, dtype=float))))
    check("shapley n=0", lambda p: list(p.shapley.compute_shapley_value(p.game.IncompleteCooperativeGame(0))))
    check("shapley player n=0",
          lambda p: p.shapley.compute_shapley_value_for_player(0, p.game.IncompleteCooperativeGame(0)))


# --------------------------------------------------------------------------------------------------------------
# 3. generators registry -> full game -> shapley; incomplete game with bounds registry -> exploitability
def exploit_all(p: Pkg, game):
    """All results of the exploitability code for an incomplete game."""
    n = game.number_of_players
    before = game._values.copy()
    out = [call(lambda: p.exploitability.compute_exploitability(game))]
    for player in range(n):
        mg = p.exploitability.MaxGainGame(game, player)
        out.append(mg.number_of_players)
        out.append(mg.player)
        out.append(mg._player_mask)
        out.append(mg.get_values())
        out.append(mg.get_values(p.coalitions.all_coalitions(n)))
        out.append(mg.get_values([p.coalitions.Coalition(i) for i in (2**n - 1, 0, 1, 1)]))
        out.append(call(lambda: mg.get_values([])))
        out.append(call(lambda: mg.get_values(iter([p.coalitions.Coalition(2**n)]))))
        out.append([mg.get_value(c) for c in p.coalitions.all_coalitions(n)])
        out.append(call(lambda: p.shapley.compute_shapley_value_for_player(player, mg)))
        out.append(call(lambda: list(p.shapley.compute_shapley_value(mg))))
    out.append(call(lambda: p.exploitability.MaxGainGame(game, n).get_values()))
    out.append(call(lambda: p.exploitability.MaxGainGame(game, -1).get_values()))
    out.append(call(lambda: p.exploitability.MaxGainGame(game, "a")))
    out.append(np.array_equal(before, game._values, equal_nan=True))  # the game is left untouched
    out.append(game._values.copy())
    return out


def registry_cases() -> None:
    gen_names = sorted(OLD.generators.GENERATORS)
    assert gen_names == sorted(NEW.generators.GENERATORS)
    bound_names = sorted(OLD.bounds.BOUNDS)
    assert bound_names == sorted(NEW.bounds.BOUNDS)
    for gen_name in gen_names:
        for n, seed in [(3, 0), (4, 1), (5, 2), (6, 3)]:
            def run(p, gen_name=gen_name, n=n, seed=seed):
                rng = np.random.default_rng(seed)
                # the graph generators draw from an unseeded module-level stream: give both packages the same state
                p.generators._gen.bit_generator.state = np.random.default_rng(500 + seed).bit_generator.state
                full =p.generators.GENERATORS[gen_name](n, rng)
                out = [full.get_values(), shapley_all(p, full)]
                sub = np.random.default_rng(1000 + seed)
                for bound_name in bound_names:
                    if bound_name.endswith("1000") or (bound_name.endswith("100") and n > 4):
                        continue
                    game = p.game.IncompleteCooperativeGame(n, p.bounds.BOUNDS[bound_name])
                    known = list(p.coalitions.minimal_game_coalitions(n))
                    extra = [p.coalitions.Coalition(int(i))
                             for i in sub.choice(2**n, size=int(sub.integers(0, 2**n // 2)), replace=False)]
                    known = list({c.id: c for c in known + extra}.values())
                    game.set_known_values(full.get_values(known), known)
                    np.random.seed(seed)
                    game.compute_bounds()
                    out.append(exploit_all(p, game))
                    # reveal everything step by step
                    for c in p.coalitions.all_coalitions(n):
                        if not game.is_value_known(c) and sub.random() < 0.5:
                            game.reveal_value(full.get_value(c), c)
                            np.random.seed(seed)
                            game.compute_bounds()
                            out.append(call(lambda: p.exploitability.compute_exploitability(game)))
                out.append(rng.random())  # same number of draws from the stream
                return out
            check(f"generator {gen_name} n={n} seed={seed}", run)


def raw_bounds_cases() -> None:
    """Incomplete games with arbitrary (also inconsistent / non-finite) bounds written directly."""
    rng = np.random.default_rng(77)
    special = [0.0, -0.0, np.inf, -np.inf, np.nan, 1e308, -1e308, 5e-324]
    for n in range(1, 7):
        for rep in range(40):
            lower = rng.normal(size=2**n) * 10.0**rng.integers(-2, 4)
            width = rng.random(2**n) * (rep % 4)
            upper = lower + width if rep % 5 else lower - width
            if rep % 7 == 3:
                lower[rng.integers(0, 2**n, 2)] = rng.choice(special, 2)
                upper[rng.integers(0, 2**n, 2)] = rng.choice(special, 2)
            known_mask = rng.random(2**n) < 0.3
            known_mask[0] = True
            known_mask[-1] = rep % 9 != 8  # sometimes the grand coalition is unknown -> ValueError

            def run(p, n=n, lower=lower, upper=upper, known_mask=known_mask):
                game = p.game.IncompleteCooperativeGame(n)
                known = [p.coalitions.Coalition(int(i)) for i in np.flatnonzero(known_mask)]
                game.set_known_values(lower[known_mask], known)
                game.set_lower_bounds(lower.copy())
                game.set_upper_bounds(upper.copy())
                return exploit_all(p, game)
            check(f"raw bounds n={n} rep={rep}", run)
    # exploitability through the gap function registry of run.model is the same object
    check("exploitability of a complete graph game (not incomplete)",
          lambda p: p.exploitability.compute_exploitability(p.graph_game.GraphCooperativeGame(np.ones((3, 3)))))


def main() -> int:
    try:
        coalition_cases()
        shapley_cases()
        raw_bounds_cases()
        registry_cases()
    except Different as e:
        print("DIFFERENT")
        print(e)
        return 1
    changed = subprocess.run(["git", "-C", str(WT), "diff", "--stat"], capture_output=True, text=True).stdout.strip()
    print(f"focus={FOCUS}; compared {N_CASES} cases; worktree diff: {changed.splitlines()[-1] if changed else 'none'}")
    print("EQUIVALENT")
    return 0


if __name__ == "__main__":
    sys.exit(main())
