#!/venv/bin/python
"""Differential equivalence check for patch_1 (IntEnum codes in bounds.py / game.py, np.full, dict-union registry).

Usage:  /venv/bin/python equiv_1.py [worktree]      (default worktree: /tmp/wt_x4_X02, with the patch applied)

The original package is taken from `git archive HEAD`, the refactored one is the working tree.  Both are run in
separate interpreters; everything they produce is reduced to plain python objects (arrays as dtype/shape/bytes) and
pickled; the two pickles have to be byte-equal.  Exit status 0 iff identical.
"""
import os
import pickle
import subprocess
import sys
import tempfile

PY = "/venv/bin/python"
DEFAULT_WT = "/tmp/wt_x4_X02"


# --------------------------------------------------------------------------------------------------------------------
# worker (runs with PYTHONPATH pointing to one of the two trees)
# --------------------------------------------------------------------------------------------------------------------
def norm(x):
    """Reduce an outcome to something that pickles deterministically and compares exactly."""
    import numpy as np
    if isinstance(x, np.ndarray):
        return ("nd", x.dtype.str, x.shape, x.flags["C_CONTIGUOUS"], x.flags["F_CONTIGUOUS"],
                np.ascontiguousarray(x).tobytes())
    if isinstance(x, np.generic):
        return ("sc", type(x).__name__, x.tobytes())
    if isinstance(x, (list, tuple)):
        return (type(x).__name__, [norm(y) for y in x])
    if isinstance(x, dict):
        return ("dict", [(norm(k), norm(v)) for k, v in x.items()])
    if isinstance(x, (int, float, str, bool, bytes, type(None))):
        return (type(x).__name__, repr(x) if isinstance(x, float) else x)
    raise TypeError(f"cannot normalise {type(x)}")


def attempt(fn, *a, **kw):
    """Call, returning the normalised result or the normalised exception."""
    try:
        return ("ok", norm(fn(*a, **kw)))
    except BaseException as e:  # noqa
        return ("exc", type(e).__name__, str(e))


def worker(out_path):
    import numpy as np

    from incomplete_cooperative import bounds as B
    from incomplete_cooperative.coalitions import (Coalition, all_coalitions,
                                                   minimal_game_coalitions)
    from incomplete_cooperative.game import IncompleteCooperativeGame

    out = []
    rec = out.append

    # ---- the registry -------------------------------------------------------------------------------------------
    rec(("keys", list(B.BOUNDS.keys())))
    for k, v in B.BOUNDS.items():
        rec(("entry", k, type(v).__name__, getattr(v, "func", v).__name__,
             repr(getattr(v, "args", None)), repr(getattr(v, "keywords", None)), pickle.dumps(v, protocol=4)))
    rec(("public", [n for n in ("BOUNDS", "compute_bounds_superadditive", "compute_bounds_superadditive_cached",
                                "compute_bounds_superadditive_monotone_approx_cached",
                                "_get_sub_super_coalition_structure", "get_sub_coalitions_id",
                                "get_super_coalitions_id", "get_sub_coalitions", "get_super_coalitions",
                                "all_coalitions", "get_all_coalitions", "get_size", "cache", "partial", "np", "Any",
                                "CoalitionId", "Coalition", "BoundableIncompleteGame", "GameBoundsComputer")
                      if hasattr(B, n)]))

    # ---- the cached structure ----------------------------------------------------------------------------------
    for n in range(0, 8):
        rec(("structure", n, attempt(B._get_sub_super_coalition_structure, n)))
        # a second call has to hand out the very same (cached) objects
        a = B._get_sub_super_coalition_structure(n)
        b = B._get_sub_super_coalition_structure(n)
        rec(("cached", n, all(x is y for x, y in zip(a, b))))

    # ---- class constants of the game ---------------------------------------------------------------------------
    G = IncompleteCooperativeGame
    rec(("cols", int(G._values_is_known_index), int(G._values_lower_index), int(G._values_upper_index),
         G._values_is_known_index == 0, G._values_lower_index == 1, G._values_upper_index == 2,
         isinstance(G._values_lower_index, int), G._values_upper_index + 1, hash(G._values_upper_index)))

    # ---- bounds on random incomplete games ---------------------------------------------------------------------
    computers = ["superadditive", "superadditive_cached", "sam_apx_1", "sam_apx_10"]
    runs = {3: 150, 4: 150, 5: 80, 6: 30}
    for n, count in runs.items():
        coalitions = list(all_coalitions(n))
        minimal = {c.id for c in minimal_game_coalitions(n)}
        for seed in range(count):
            rng = np.random.default_rng([n, seed])
            kind = seed % 5
            if kind == 0:      # integer valued
                values = rng.integers(0, 20, 2**n).astype(float)
            elif kind == 1:    # convex-ish (superadditive): squares of sizes times noise
                values = np.array([len(c) ** 2 for c in coalitions], float) * (1 + rng.random())
            elif kind == 2:    # arbitrary floats, negative too
                values = rng.normal(size=2**n) * 10
            elif kind == 3:    # ties
                values = rng.integers(0, 3, 2**n).astype(float)
            else:
                values = rng.random(2**n)
            values[0] = 0
            known = set(minimal)
            dens = rng.random()
            known |= {int(i) for i in np.flatnonzero(rng.random(2**n) < dens)}
            if seed % 11 == 7:    # a singleton is missing
                known.discard(1 << int(rng.integers(n)))
            if seed % 13 == 5:    # the grand coalition is missing
                known.discard(2**n - 1)
            if seed % 17 == 3:    # only empty + grand
                known = {0, 2**n - 1}
            known_sorted = sorted(known)
            for name in computers:
                game = IncompleteCooperativeGame(n, B.BOUNDS[name])
                game.set_known_values(values[known_sorted], [Coalition(i) for i in known_sorted])
                res = attempt(game.compute_bounds)
                rec(("bounds", n, seed, name, res, norm(game._values)))
                if seed % 10 == 0:
                    rec(("pickle", n, seed, name, pickle.dumps(game, protocol=4)))
                if name == "superadditive_cached" and res[0] == "ok":
                    # reveal a few more values, recompute (the gym does that), read through every accessor
                    unknown = [c for c in coalitions if not game.is_value_known(c)]
                    for c in unknown[:3]:
                        game.reveal_value(values[c.id], c)
                        rec(("reveal", n, seed, c.id, attempt(game.compute_bounds), norm(game._values)))
                    for c in unknown[:2]:
                        game.unreveal_value(c)
                        rec(("unreveal", n, seed, c.id, attempt(game.compute_bounds), norm(game._values)))

    # ---- the accessors of the table (columns are addressed through the class constants) ------------------------
    for n in (2, 3, 4):
        coalitions = list(all_coalitions(n))
        for seed in range(60):
            rng = np.random.default_rng([99, n, seed])
            game = IncompleteCooperativeGame(n, B.BOUNDS["superadditive_cached"])
            other = IncompleteCooperativeGame(n)
            full_values = rng.normal(size=2**n)
            other.set_values(full_values)
            rec(("init", n, seed, norm(game._values), norm(other._values)))
            some = [coalitions[i] for i in rng.permutation(2**n)[:int(rng.integers(1, 2**n))]]
            vals = rng.normal(size=len(some))
            ops = [
                ("set_values", lambda: game.set_values(vals, some)),
                ("set_values_gen", lambda: game.set_values(list(vals), iter(some))),
                ("get_value", lambda: game.get_value(coalitions[int(rng.integers(2**n))])),
                ("get_values", lambda: game.get_values()),
                ("get_values_some", lambda: game.get_values(some)),
                ("get_values_other", lambda: game.get_values(coalitions[:3])),
                ("set_value", lambda: game.set_value(float(rng.normal()), coalitions[int(rng.integers(2**n))])),
                ("unset_value", lambda: game.unset_value(coalitions[int(rng.integers(1, 2**n))])),
                ("upper_bounds", lambda: game.get_upper_bounds()),
                ("upper_bounds_some", lambda: game.get_upper_bounds(some)),
                ("lower_bounds", lambda: game.get_lower_bounds()),
                ("lower_bounds_some", lambda: game.get_lower_bounds(iter(some))),
                ("upper_bound", lambda: game.get_upper_bound(some[0])),
                ("lower_bound", lambda: game.get_lower_bound(some[0])),
                ("interval", lambda: game.get_interval(some[-1])),
                ("intervals", lambda: game.get_intervals()),
                ("intervals_some", lambda: game.get_intervals(some)),
                ("is_known", lambda: [game.is_value_known(c) for c in coalitions]),
                ("are_known", lambda: game.are_values_known()),
                ("are_known_some", lambda: game.are_values_known(some)),
                ("known_value", lambda: [game.get_known_value(c) for c in coalitions]),
                ("known_values", lambda: game.get_known_values()),
                ("known_values_some", lambda: game.get_known_values(some)),
                ("set_upper_bounds", lambda: game.set_upper_bounds(rng.normal(size=2**n))),
                ("set_upper_bounds_some", lambda: game.set_upper_bounds(vals + 1, some)),
                ("set_lower_bounds", lambda: game.set_lower_bounds(rng.normal(size=2**n))),
                ("set_lower_bounds_some", lambda: game.set_lower_bounds(vals - 1, some)),
                ("set_upper_bound", lambda: game.set_upper_bound(3.5, some[0])),
                ("set_lower_bound", lambda: game.set_lower_bound(-3.5, some[0])),
                ("reveal", lambda: game.reveal_value(1.25, some[0])),
                ("unreveal", lambda: game.unreveal_value(some[0])),
                ("neg", lambda: (-game)._values),
                ("copy", lambda: game.copy()._values),
                ("eq", lambda: game == game.copy()),
                ("eq_other", lambda: game == other),
                ("eq_bad", lambda: game == 3),
                ("full", lambda: game.full),
                ("add_bad", lambda: (game + other)._values),
                ("add", lambda: (other + other)._values),
                ("add_neg", lambda: (other + (-other))._values),
                ("set_known_values", lambda: game.set_known_values(vals, some)),
                ("set_known_values_view", lambda: game.set_known_values(game.get_upper_bounds()[:len(some)], some)),
                ("compute", lambda: game.compute_bounds()),
                ("pickle", lambda: pickle.dumps(game, protocol=4)),
            ]
            order = rng.permutation(len(ops))
            for i in list(order) + list(order[::-1]):
                label, fn = ops[int(i)]
                rec(("op", n, seed, label, attempt(fn), norm(game._values)))

    with open(out_path, "wb") as f:
        pickle.dump(out, f, protocol=4)


# --------------------------------------------------------------------------------------------------------------------
# driver
# --------------------------------------------------------------------------------------------------------------------
def run_tree(tree, out_path):
    env = dict(os.environ, PYTHONPATH=tree, OMP_NUM_THREADS="1", PYTHONHASHSEED="0", PYTHONDONTWRITEBYTECODE="1")
    subprocess.run([PY, os.path.abspath(__file__), "--worker", out_path], check=True, env=env, cwd=tempfile.gettempdir())


def main():
    wt = sys.argv[1] if len(sys.argv) > 1 else DEFAULT_WT
    with tempfile.TemporaryDirectory(prefix="equiv1_") as tmp:
        orig = os.path.join(tmp, "orig")
        os.mkdir(orig)
        repo = wt if os.path.exists(os.path.join(wt, ".git")) else DEFAULT_WT
        archive = subprocess.run(["git", "-C", repo, "archive", "HEAD", "incomplete_cooperative"],
                                 check=True, capture_output=True).stdout
        subprocess.run(["tar", "-x", "-C", orig], input=archive, check=True)
        a_path, b_path = os.path.join(tmp, "a.pkl"), os.path.join(tmp, "b.pkl")
        run_tree(orig, a_path)
        run_tree(wt, b_path)
        a_bytes, b_bytes = open(a_path, "rb").read(), open(b_path, "rb").read()
        a, b = pickle.loads(a_bytes), pickle.loads(b_bytes)
        print(f"original: {len(a)} records, refactored: {len(b)} records")
        bad = 0
        for i, (x, y) in enumerate(zip(a, b)):
            if x != y:
                bad += 1
                if bad <= 10:
                    print("DIFF at record", i, x[:4], "\n   orig:", repr(x)[:300], "\n   new: ", repr(y)[:300])
        if len(a) != len(b) or bad or a_bytes != b_bytes:
            print(f"NOT EQUIVALENT: {bad} differing records, byte-equal pickles: {a_bytes == b_bytes}")
            return 1
        n_exc = sum(1 for r in a if any(isinstance(f, tuple) and f and f[0] == "exc" for f in r))
        print(f"identical (byte-equal pickles); {n_exc} records are raised exceptions")
        return 0


if __name__ == "__main__":
    if len(sys.argv) == 3 and sys.argv[1] == "--worker":
        worker(sys.argv[2])
    else:
        sys.exit(main())
