"""Differential test for refactoring 2 (normalize.py: lambdas that only forward are dropped, the triangular double loop is one itertools loop).

Run with cwd=/tmp/wt12/W05.  The ORIGINAL package is exported from git HEAD into a temporary directory; the original and the
refactored package are each exercised in their own interpreter (both are imported as `incomplete_cooperative`, so absolute and
relative imports resolve inside the same tree) and the recorded results are compared bit for bit.
"""
import os
import pickle
import shutil
import struct
import subprocess
import sys
import tempfile
import warnings

WORKTREE = os.path.abspath(os.getcwd())


# ----------------------------------------------------------------------------------------------------------- canonical form
def canon(x):
    """Turn a result into a picklable structure that compares bit for bit."""
    import numpy as np
    if isinstance(x, BaseException):
        return ("EXC", type(x).__name__, str(x))
    if isinstance(x, np.ndarray):
        if x.dtype == object:
            return ("ndo", x.shape, [canon(y) for y in x.ravel().tolist()])
        return ("nd", x.dtype.str, x.shape, np.ascontiguousarray(x).tobytes())
    if isinstance(x, np.generic):
        return ("ng", x.dtype.str, x.tobytes())
    if isinstance(x, bool) or x is None or isinstance(x, (int, str, bytes)):
        return (type(x).__name__, x)
    if isinstance(x, float):
        return ("float", struct.pack("<d", x))
    if isinstance(x, (tuple, list)):
        return (type(x).__name__, [canon(y) for y in x])
    if isinstance(x, dict):
        return ("dict", [(canon(k), canon(v)) for k, v in x.items()])
    name = type(x).__name__
    if name == "Coalition":
        return ("Coalition", x.id)
    if name == "IncompleteCooperativeGame":
        return ("ICG", x.number_of_players, canon(x._values))
    if name == "GraphCooperativeGame":
        return ("GG", x.number_of_players, canon(x._graph_matrix))
    return ("obj", type(x).__module__, name)


class Recorder:
    """Collect labelled results, exceptions and warnings."""

    def __init__(self):
        self.records = []

    def call(self, label, fn):
        with warnings.catch_warnings(record=True) as caught:
            warnings.simplefilter("always")
            try:
                result = canon(fn())
            except Exception as e:  # noqa
                result = canon(e)
        warns = [(w.category.__name__, str(w.message)) for w in caught]
        self.records.append((label, result, warns))


# ------------------------------------------------------------------------------------------------------------------- worker
def reseed_module_generator(generators, seed):
    """`graph_generator` draws from a module-level generator: put it into a known state (in place: it is bound in partials)."""
    import numpy as np
    generators._gen.bit_generator.state = np.random.default_rng(seed).bit_generator.state


def worker(out_path):
    import numpy as np
    import incomplete_cooperative
    assert os.path.abspath(incomplete_cooperative.__file__).startswith(os.path.abspath(os.getcwd()) + os.sep), \
        incomplete_cooperative.__file__
    import incomplete_cooperative.generators as G
    import incomplete_cooperative.normalize as N
    from incomplete_cooperative.bounds import BOUNDS
    from incomplete_cooperative.coalitions import Coalition, minimal_game_coalitions
    from incomplete_cooperative.exploitability import MaxGainGame
    from incomplete_cooperative.game import IncompleteCooperativeGame
    from incomplete_cooperative.graph_game import GraphCooperativeGame
    from incomplete_cooperative.icg_gym import ICG_Gym
    from incomplete_cooperative.norms import l1_norm

    rec = Recorder()
    case = 0

    def exercise(label, game):
        """Norminfo, normalisation, denormalisation of a copy of `game`; everything is recorded."""
        rec.call(label + " game", lambda: game)
        rec.call(label + " norminfo", lambda: N._get_norminfo(game))
        work = game.copy()
        info = []
        rec.call(label + " normalize", lambda: info.append(N.normalize_game(work)) or info[0])
        rec.call(label + " normalized", lambda: work)
        if info:
            rec.call(label + " denormalize", lambda: N.denormalize_game(work, info[0]))
            rec.call(label + " denormalized", lambda: work)
        # the type-specific functions called directly
        direct = game.copy()
        fn = N._normalize_graph_game if isinstance(direct, GraphCooperativeGame) else N._normalize_icg
        rec.call(label + " direct", lambda: fn(direct))
        rec.call(label + " direct result", lambda: direct)

    # --- every generator of the registry (all of them, `convex` raises ImportError in both trees)
    for name in G.GENERATORS:
        for n in (3, 4, 5, 6):
            if n == 6 and name in ("oxs",):
                continue
            for seed in range(3):
                case += 1
                reseed_module_generator(G, 7 * seed + n)
                holder = []
                label = f"case {case} generator={name} n={n} seed={seed}"
                rec.call(label + " generate",
                         lambda: holder.append(G.GENERATORS[name](n, np.random.default_rng(100 * seed + n))) or 0)
                if holder:
                    exercise(label, holder[0])

    # --- hand-made incomplete cooperative games
    rng = np.random.default_rng(2024)
    for n in (1, 2, 3, 4, 5):
        for variant in range(16):
            case += 1
            game = IncompleteCooperativeGame(n)
            singles = rng.uniform(-3, 3, n)
            additive = np.array([sum(singles[i] for i in range(n) if c >> i & 1) for c in range(2**n)])
            if variant == 0:
                values = additive                                               # additive: the zero path
            elif variant == 1:
                values = additive * 1e12                                        # additive, large scale
            elif variant == 2:
                values = np.zeros(2**n)                                         # zero game, scale 0
            elif variant == 3:
                values = additive + 1e-13 * rng.uniform(-1, 1, 2**n)            # additive up to noise near the threshold
            elif variant == 4:
                values = rng.uniform(-5, 5, 2**n)
                values[-1] = np.inf                                             # warnings, non-finite values
            elif variant == 5:
                values = rng.uniform(-5, 5, 2**n)
                values[int(rng.integers(2**n))] = np.nan
            elif variant == 6:
                values = rng.integers(-4, 10, 2**n).astype(float)
            elif variant == 7:
                values = additive - np.array([bin(c).count("1")**2 for c in range(2**n)])   # negative grand value
            else:
                values = rng.uniform(-5, 5, 2**n) * 10.0**int(rng.integers(-8, 8))
            values = np.array(values, dtype=float)
            values[0] = 0
            game.set_values(values)
            exercise(f"case {case} icg n={n} variant={variant}", game)

    # --- incomplete games: the values are not all known
    for n in (3, 4):
        for k in range(12):
            case += 1
            game = IncompleteCooperativeGame(n, BOUNDS["superadditive_cached"])
            values = rng.uniform(0, 5, 2**n)
            known = [c for c in range(2**n) if rng.random() < 0.6]
            game.set_known_values(values[known], [Coalition(c) for c in known])
            exercise(f"case {case} incomplete n={n} known={known}", game)

    # --- hand-made graph games
    for n in (1, 2, 3, 4, 5, 6):
        for variant in range(10):
            case += 1
            if variant == 0:
                matrix = np.zeros((n, n))                                       # grand coalition value 0: early return
            elif variant == 1:
                matrix = -rng.uniform(0, 1, (n, n))
            elif variant == 2:
                matrix = rng.integers(0, 3, (n, n))
            elif variant == 3:
                matrix = rng.uniform(-1, 1, (n, n))
                matrix[0, n - 1] = np.inf
            elif variant == 4:
                matrix = rng.uniform(-1, 1, (n, n))
                matrix[0, n - 1] = np.nan
            else:
                matrix = rng.uniform(-1, 1, (n, n)) * 10.0**int(rng.integers(-6, 6))
            game = GraphCooperativeGame(matrix)
            # put something below the diagonal again, so that the clearing loop is visible
            game._graph_matrix += np.tril(rng.uniform(1, 2, (n, n)))
            exercise(f"case {case} graph n={n} variant={variant}", game)

    # --- graph games whose matrix does not fit the number of players (the loop fails half way: same partial effect)
    for n, shape in ((3, (2, 3)), (3, (3, 2)), (4, (3, 4)), (4, (4, 3)), (2, (3, 3)), (0, (2, 2)), (3, (3,)), (3, (3, 3, 2))):
        case += 1
        game = GraphCooperativeGame(np.ones((3, 3)))
        game.number_of_players = n
        game._graph_matrix = rng.uniform(1, 2, shape)
        label = f"case {case} misfit n={n} shape={shape}"
        rec.call(label + " direct", lambda: N._normalize_graph_game(game))
        rec.call(label + " matrix", lambda: game._graph_matrix)
        rec.call(label + " normalize", lambda: N.normalize_game(game))
        rec.call(label + " matrix 2", lambda: game._graph_matrix)
    for players in (np.int64(3), 3.0, None, "3"):
        case += 1
        game = GraphCooperativeGame(rng.uniform(1, 2, (3, 3)))
        game._graph_matrix += 1
        rec.call(f"case {case} odd number_of_players {players!r}",
                 lambda: (setattr(game, "number_of_players", players), N._normalize_graph_game(game))[1])
        rec.call(f"case {case} matrix", lambda: game._graph_matrix)

    # --- games of unknown type
    full = IncompleteCooperativeGame(3)
    full.set_values(np.arange(8.0))
    rec.call("unknown type MaxGainGame", lambda: N.normalize_game(MaxGainGame(full, 0)))
    rec.call("unknown type object", lambda: N.normalize_game(object()))
    rec.call("unknown type None", lambda: N._get_norminfo(None))

    # --- through the environment: the observation shows normalised values
    for name in ("factory", "noisy_factory_exp", "xos", "xs3", "covg_fn_generator", "graph_cycle", "graph_random",
                 "graph", "graph_beta_2_3", "graph_poiss_5", "k_budget_generator", "factory_cheerleader_next"):
        for n in (3, 4, 5):
            case += 1
            reseed_module_generator(G, n)
            gen_rng = np.random.default_rng(n + 17)
            incomplete = IncompleteCooperativeGame(n, BOUNDS["superadditive_cached"])
            label = f"case {case} env generator={name} n={n}"
            holder = []
            rec.call(label + " init", lambda: holder.append(ICG_Gym(
                incomplete, lambda: G.GENERATORS[name](n, gen_rng), minimal_game_coalitions(incomplete), l1_norm)) or 0)
            if not holder:
                continue
            env = holder[0]
            act_rng = np.random.default_rng(n)
            for episode in range(2):
                rec.call(label + f" reset {episode}", env.reset)
                rec.call(label + f" normalized {episode}", lambda: env.normalized_game)
                for step in range(4):
                    valid = np.flatnonzero(env.action_masks())
                    if not len(valid):
                        break
                    action = int(act_rng.choice(valid))
                    rec.call(label + f" step {episode}.{step} action {action}", lambda: env.step(action))

    rec.call("number of cases", lambda: case)
    with open(out_path, "wb") as f:
        pickle.dump(rec.records, f)


# ------------------------------------------------------------------------------------------------------------------- driver
def export_original(dst):
    """Write the package as of git HEAD into `dst`."""
    files = subprocess.run(["git", "-C", WORKTREE, "ls-tree", "-r", "--name-only", "HEAD", "incomplete_cooperative"],
                           check=True, capture_output=True, text=True).stdout.split("\n")
    for path in filter(None, files):
        target = os.path.join(dst, path)
        os.makedirs(os.path.dirname(target), exist_ok=True)
        with open(target, "wb") as f:
            f.write(subprocess.run(["git", "-C", WORKTREE, "show", f"HEAD:{path}"], check=True, capture_output=True).stdout)


def main():
    tmp = tempfile.mkdtemp(prefix="equiv2_")
    try:
        original = os.path.join(tmp, "original")
        os.makedirs(original)
        export_original(original)
        results = {}
        for name, root in (("original", original), ("refactored", WORKTREE)):
            out = os.path.join(tmp, name + ".pkl")
            env = dict(os.environ, OMP_NUM_THREADS="1", MKL_NUM_THREADS="1", PYTHONPATH=root, PYTHONDONTWRITEBYTECODE="1",
                       PYTHONHASHSEED="0")
            subprocess.run([sys.executable, os.path.abspath(__file__), "--worker", out], cwd=root, env=env, check=True)
            with open(out, "rb") as f:
                results[name] = pickle.load(f)
    finally:
        shutil.rmtree(tmp, ignore_errors=True)
    a, b = results["original"], results["refactored"]
    for ra, rb in zip(a, b):
        if ra != rb:
            print("DIFFERENT")
            print("original:  ", repr(ra)[:2000])
            print("refactored:", repr(rb)[:2000])
            return 1
    if len(a) != len(b):
        print("DIFFERENT: number of records", len(a), len(b))
        return 1
    exceptions = sum(1 for r in a if r[1][0] == "EXC")
    print(f"compared {len(a)} records ({exceptions} of them exceptions, {a[-1][1]} cases)")
    print("EQUIVALENT")
    return 0


if __name__ == "__main__":
    if len(sys.argv) == 3 and sys.argv[1] == "--worker":
        sys.path.insert(0, os.getcwd())
        worker(sys.argv[2])
    else:
        sys.exit(main())
