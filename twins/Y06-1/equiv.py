"""Differential equivalence check for refactoring 1 (bounds.py: _Relation IntEnum, np.full, dict union)."""
import os
import pickle
import shutil
import subprocess
import sys
import tempfile

WT = "/tmp/wt_y5_Y06"
PY = "/venv/bin/python"


def arr(a):
    import numpy as np
    a = np.asarray(a)
    return (a.dtype.str, a.shape, a.tobytes())


def worker(out_path):
    import numpy as np

    import incomplete_cooperative.bounds as B
    from incomplete_cooperative.coalitions import Coalition
    from incomplete_cooperative.game import IncompleteCooperativeGame

    out = []
    # public / private names of the module
    out.append(("names", sorted(k for k in vars(B) if k.startswith("compute_") or k in ("BOUNDS", "_get_sub_super_coalition_structure"))))
    out.append(("bounds_keys", list(B.BOUNDS)))
    for key, comp in B.BOUNDS.items():
        out.append(("bounds_pickle", key, pickle.dumps(comp, protocol=4)))
        out.append(("bounds_repr", key, getattr(comp, "__name__", None), getattr(comp, "keywords", None),
                    getattr(getattr(comp, "func", None), "__name__", None)))

    # cached structure (twice: fresh and from the cache)
    for n in [0, 1, 2, 3, 4, 5, 6, 3, 5]:
        s = B._get_sub_super_coalition_structure(n)
        out.append(("structure", n, type(s).__name__, len(s), [arr(x) for x in s]))
    out.append(("cache_info", tuple(B._get_sub_super_coalition_structure.cache_info())))

    computers = [("superadditive", B.compute_bounds_superadditive),
                 ("superadditive_cached", B.compute_bounds_superadditive_cached)]
    computers += [(f"apx_{r}", (lambda g, r=r: B.compute_bounds_superadditive_monotone_approx_cached(g, r)))
                  for r in (0, 1, 2, 5)]
    computers += [(k, v) for k, v in B.BOUNDS.items() if k in ("sam_apx_1", "sam_apx_10")]

    def run(tag, name, comp, game):
        try:
            res = comp(game)
            outcome = ("ok", repr(res))
        except BaseException as e:  # noqa
            outcome = ("exc", type(e).__name__, str(e))
        out.append((tag, name, outcome, arr(game._values)))

    count = 0
    for n in (1, 2, 3, 4, 5):
        size = 2**n
        for seed in range(14):
            rng = np.random.default_rng(1000 * n + seed)
            kind = seed % 4
            if kind == 0:   # convex-ish: size squared plus noise
                vals = np.array([bin(c).count("1")**2 for c in range(size)], float) + rng.random(size) * 0.3
            elif kind == 1:  # arbitrary (possibly negative, not superadditive)
                vals = rng.normal(size=size) * 5
            elif kind == 2:  # integers with many ties
                vals = rng.integers(0, 4, size).astype(float)
            else:           # additive
                w = rng.random(n)
                vals = np.array([sum(w[i] for i in range(n) if c >> i & 1) for c in range(size)])
            vals[0] = 0
            minimal = {0, size - 1} | {2**i for i in range(n)}
            mode = seed % 7
            if mode == 0:
                known = set(minimal)
            elif mode == 1:
                known = set(range(size))
            elif mode == 2:   # grand coalition missing -> AssertionError
                known = (minimal | set(rng.choice(size, size // 2).tolist())) - {size - 1}
            elif mode == 3:   # some singleton missing
                known = (minimal | set(rng.choice(size, size // 2).tolist())) - {1}
            elif mode == 4:   # only empty and grand
                known = {0, size - 1}
            else:
                known = minimal | set(rng.choice(size, int(rng.integers(0, size))).tolist())
            for name, comp in computers:
                game = IncompleteCooperativeGame(n, comp)
                ids = sorted(known)
                game.set_known_values(vals[ids], [Coalition(i) for i in ids])
                if mode == 6:   # pre-existing (stale) bounds on the unknown entries
                    game._values[:, 1:3] += (1 - game._values[:, :1]) * rng.random((size, 2))
                run("direct", (n, seed, name), comp, game)
                # second application on the result, through the game object
                run("again", (n, seed, name), lambda g: g.compute_bounds(), game)
                count += 2
    # empty coalition unknown -> assertion
    for name, comp in computers:
        game = IncompleteCooperativeGame(3, comp)
        game.set_values(np.arange(8.0))
        game.unset_value(Coalition(0))
        run("noempty", name, comp, game)
    out.append(("count", count))
    with open(out_path, "wb") as f:
        pickle.dump(out, f, protocol=4)


def main():
    tmp = tempfile.mkdtemp(prefix="y06_eq1_")
    try:
        orig = os.path.join(tmp, "orig")
        os.mkdir(orig)
        subprocess.run(f"git archive HEAD incomplete_cooperative | tar -x -C {orig}", shell=True, check=True, cwd=WT)
        paths = {}
        for tag, root in (("orig", orig), ("new", WT)):
            paths[tag] = os.path.join(tmp, tag + ".pkl")
            env = dict(os.environ, PYTHONPATH=root, PYTHONHASHSEED="0", OMP_NUM_THREADS="1", PYTHONDONTWRITEBYTECODE="1")
            subprocess.run([PY, os.path.abspath(__file__), "--worker", paths[tag]], check=True, env=env, cwd=tmp)
        a = open(paths["orig"], "rb").read()
        b = open(paths["new"], "rb").read()
        ra, rb = pickle.loads(a), pickle.loads(b)
        bad = [i for i, (x, y) in enumerate(zip(ra, rb)) if x != y]
        print(f"records: {len(ra)} vs {len(rb)}; runs: {ra[-1]}; exceptions: "
              f"{sum(1 for r in ra if len(r) > 2 and isinstance(r[2], tuple) and r[2][:1] == ('exc',))}")
        if a != b or len(ra) != len(rb) or bad:
            print("DIFFERENT", bad[:10])
            for i in bad[:3]:
                print(ra[i][:3], rb[i][:3])
            return 1
        print("IDENTICAL")
        return 0
    finally:
        shutil.rmtree(tmp, ignore_errors=True)


if __name__ == "__main__":
    if len(sys.argv) > 2 and sys.argv[1] == "--worker":
        worker(sys.argv[2])
    else:
        sys.exit(main())
