"""Differential test of refactoring 1: the way the GENERATORS registry of generators.py is put together.

Run with cwd=/tmp/wt12/W06.  Loads the ORIGINAL package from git HEAD under another package name and the refactored
package from the worktree, and compares: the order of the registry keys, the structure of every entry (partial / function,
bound arguments, order of keywords), and the games returned by every entry for several player counts and seeds
(values bit for bit, dtype, class, state of the supplied generator and of the module-level generator afterwards,
exceptions).
"""
import copy
import functools
import importlib
import os
import re
import signal
import subprocess
import sys
import tempfile
import types
import warnings

import numpy as np

WT = os.getcwd()
ORIG_NAME = "icg_orig_w06_1"


def load_original(name: str):
    """Write the package as of HEAD into a temporary directory under the package name `name` and make it importable."""
    tmp = tempfile.mkdtemp(prefix="w06_orig_")
    files = subprocess.check_output(["git", "-C", WT, "ls-tree", "-r", "--name-only", "HEAD", "incomplete_cooperative"],
                                    text=True).split()
    for path in files:
        if not path.endswith(".py") or "/tests/" in path:
            continue
        source = subprocess.check_output(["git", "-C", WT, "show", f"HEAD:{path}"], text=True)
        source = re.sub(r"^(\s*(?:from|import)\s+)incomplete_cooperative\b", r"\g<1>" + name, source, flags=re.M)
        target = os.path.join(tmp, name, os.path.relpath(path, "incomplete_cooperative"))
        os.makedirs(os.path.dirname(target), exist_ok=True)
        with open(target, "w") as file:
            file.write(source)
    sys.path.insert(0, tmp)


def describe(obj, module):
    """Structural description of a registry entry that does not depend on the package name."""
    if isinstance(obj, functools.partial):
        return ("partial", describe(obj.func, module), tuple(describe(a, module) for a in obj.args),
                tuple((k, describe(v, module)) for k, v in obj.keywords.items()))
    if isinstance(obj, types.MethodType) or (hasattr(obj, "__self__") and isinstance(obj.__self__, np.random.Generator)):
        return ("bound", obj.__name__, "module _gen" if obj.__self__ is module._gen else repr(type(obj.__self__)))
    if isinstance(obj, (types.FunctionType, types.BuiltinFunctionType)):
        owner = obj.__module__ or ""
        owner = owner.replace(ORIG_NAME, "PKG").replace("incomplete_cooperative", "PKG")
        return ("function", owner, obj.__qualname__)
    return ("value", type(obj).__name__, repr(obj))


class _Timeout(BaseException):
    """A call did not finish (some generators loop forever for one player, in both versions)."""


def _alarm(signum, frame):
    raise _Timeout("no result within the time limit")


signal.signal(signal.SIGALRM, _alarm)
TIME_LIMIT = 300  # seconds; a safety net only: ordinary calls need milliseconds
# `while cheerleader is None or cheerleader == owner` never ends with a single player (in both versions)
ENDLESS = {("factory_cheerleader", 1), ("factory_cheerleader_next", 1)}


def run(module, key, number_of_players, seed, gen_state):
    """Run one registry entry and return everything observable."""
    signal.alarm(TIME_LIMIT)
    try:
        return _run(module, key, number_of_players, seed, gen_state)
    finally:
        signal.alarm(0)


def _run(module, key, number_of_players, seed, gen_state):
    module._gen.bit_generator.state = copy.deepcopy(gen_state)
    rng = np.random.default_rng(seed)
    with warnings.catch_warnings():
        warnings.simplefilter("ignore")
        try:
            game = module.GENERATORS[key](number_of_players, rng)
            values = game.get_values()
            result = ("ok", type(game).__name__, game.number_of_players, str(values.dtype), values.shape, values.tobytes(),
                      getattr(game, "_graph_matrix", np.zeros(0)).tobytes(),
                      getattr(game, "_values", np.zeros(0)).tobytes())
        except BaseException as error:  # noqa
            result = ("raised", type(error).__name__, str(error).replace(ORIG_NAME, "PKG").replace(
                "incomplete_cooperative", "PKG"))
    if result[1] == "_Timeout":
        raise SystemExit(f"DIFFERENT? {key} n={number_of_players} seed={seed} did not finish")
    return result + (repr(rng.bit_generator.state), repr(module._gen.bit_generator.state), module._LAST_OWNER)


def main() -> int:
    load_original(ORIG_NAME)
    sys.path.insert(0, WT)
    orig = importlib.import_module(ORIG_NAME + ".generators")
    new = importlib.import_module("incomplete_cooperative.generators")
    assert os.path.realpath(new.__file__).startswith(os.path.realpath(WT)), new.__file__
    assert ORIG_NAME in orig.__file__

    if list(orig.GENERATORS.keys()) != list(new.GENERATORS.keys()):
        print("DIFFERENT: registry keys / order", list(orig.GENERATORS.keys()), list(new.GENERATORS.keys()))
        return 1
    for key in orig.GENERATORS:
        d_orig, d_new = describe(orig.GENERATORS[key], orig), describe(new.GENERATORS[key], new)
        if d_orig != d_new:
            print("DIFFERENT: structure of entry", key, d_orig, d_new)
            return 1
    # names visible with `from generators import *` (no __all__: the public, non-underscore names)
    public_orig = sorted(n for n in vars(orig) if not n.startswith("_"))
    public_new = sorted(n for n in vars(new) if not n.startswith("_"))
    if public_new != public_orig:
        print("DIFFERENT: public module names", set(public_new) ^ set(public_orig))
        return 1

    cases = 0
    for key in orig.GENERATORS:
        if key == "convex":  # needs pyfmtools, which is not installed: compare the exception only, once
            player_counts, seeds = [3], [0]
        else:
            player_counts, seeds = [1, 2, 3, 4, 5, 6], [0, 1, 20241]
        for number_of_players in player_counts:
            for seed in seeds:
                if (key, number_of_players) in ENDLESS:
                    continue
                gen_state = np.random.default_rng(1000 * seed + number_of_players).bit_generator.state
                res_orig = run(orig, key, number_of_players, seed, gen_state)
                res_new = run(new, key, number_of_players, seed, gen_state)
                cases += 1
                if res_orig != res_new:
                    print("DIFFERENT:", key, "n =", number_of_players, "seed =", seed)
                    print(" original:  ", res_orig[:5], res_orig[-3:])
                    print(" refactored:", res_new[:5], res_new[-3:])
                    return 1
    # the registry is also what the command line offers
    print(f"{cases} generator calls over {len(orig.GENERATORS)} registry entries compared")
    print("EQUIVALENT")
    return 0


if __name__ == "__main__":
    sys.exit(main())
