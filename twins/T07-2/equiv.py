"""Differential test for refactoring 2 (solvers/greedy.py and solvers/largest_coalition.py: selection written differently).

Run with cwd=/tmp/wt9/T07.  The ORIGINAL package is taken from `git archive HEAD incomplete_cooperative` into a temporary
directory; the refactored one is the worktree.  Each is imported in its own worker process (so that both are really called
`incomplete_cooperative`, absolute imports included), runs the same cases and pickles the results; the parent compares them
exactly.
"""
import os
import pickle
import re
import subprocess
import sys
import tempfile
from pathlib import Path

WORKTREE = Path("/tmp/wt9/T07")


# ----------------------------------------------------------------------------------------------------------------- worker
def _norm(obj):
    """Turn a result into something picklable and exactly comparable."""
    import numpy as np
    if isinstance(obj, np.ndarray):
        return ("nd", str(obj.dtype), obj.shape, obj.tobytes() if obj.dtype != object else repr(obj.tolist()))
    if isinstance(obj, np.generic):
        return ("np", type(obj).__name__, repr(obj.item()))
    if isinstance(obj, (list, tuple)):
        return (type(obj).__name__, [_norm(x) for x in obj])
    if isinstance(obj, dict):
        return ("dict", [(_norm(k), _norm(v)) for k, v in obj.items()])
    if isinstance(obj, float):
        return ("float", obj.hex() if obj == obj else "nan")
    if isinstance(obj, (int, str, bool, type(None))):
        return (type(obj).__name__, obj)
    if type(obj).__name__ == "Coalition":
        return ("Coalition", obj.id)
    return ("repr", repr(obj))


def _game_state(game):
    return [game._values.copy() if hasattr(game, "_values") else None,
            game.get_lower_bounds().copy(), game.get_upper_bounds().copy(), game.are_values_known().copy()]


def _rng_state(rng):
    return repr(rng.bit_generator.state)


class _LogCatcher:
    def __init__(self):
        import logging
        self.records = []
        outer = self

        class H(logging.Handler):
            def emit(self, record):
                msg = record.getMessage()
                msg = re.sub(r"0x[0-9a-fA-F]+", "ADDR", msg)
                msg = re.sub(r"[0-9.e+-]+", "#", msg)
                outer.records.append((record.name, record.levelname, msg))
        self.handler = H()
        lg = logging.getLogger("incomplete_cooperative.gameplay")
        lg.addHandler(self.handler)
        lg.setLevel(logging.INFO)
        lg.propagate = False

    def take(self):
        out, self.records = self.records, []
        return out


def run_cases(root):
    import random
    from argparse import Namespace
    from unittest.mock import patch

    import numpy as np

    import incomplete_cooperative
    assert Path(incomplete_cooperative.__file__).resolve().is_relative_to(Path(root).resolve()), incomplete_cooperative.__file__
    from incomplete_cooperative import generators
    from incomplete_cooperative.coalitions import Coalition
    from incomplete_cooperative.generators import GENERATORS
    from incomplete_cooperative.run.model import GAP_FUNCTIONS, ModelInstance
    from incomplete_cooperative.run.solve import solve_func
    from incomplete_cooperative.solvers import SOLVERS, GreedySolver, LargestSolver

    logs = _LogCatcher()
    results = {}

    def reseed_module_gen(seed):
        generators._gen.bit_generator.state = np.random.default_rng(seed).bit_generator.state
        generators._LAST_OWNER = 0

    def record(key, fn):
        try:
            val = ("ok", _norm(fn()))
        except BaseException as e:  # noqa
            val = ("exc", type(e).__name__, re.sub(r"0x[0-9a-fA-F]+", "ADDR", str(e)))
        results[key] = (val, logs.take())

    def attempt(fn):
        try:
            return ("ok", fn())
        except BaseException as e:  # noqa
            return ("exc", type(e).__name__, str(e))

    def env_state(env):
        gym = getattr(env, "icg_gym", env)
        out = _game_state(gym.incomplete_game) + [gym.steps_taken, gym.full_game.get_values().copy(),
                                                  gym.normalized_game.get_values().copy(),
                                                  _rng_state(gym.generator.args[1]), _rng_state(env.np_random)]
        if hasattr(env, "rng"):
            out.append(_rng_state(env.rng))
        return out

    gen_names = list(GENERATORS)
    gap_names = list(GAP_FUNCTIONS)
    solver_names = list(SOLVERS)
    assert solver_names == ["greedy", "greedy_worst", "random", "largest"], solver_names
    bound_names = ["superadditive", "superadditive_cached", "sam_apx_1"]

    # A: walk real environments to the end; at every state ask every registered solver, check the env before / after
    for gi, name in enumerate(gen_names):
        for seed in range(2):
            n = [4, 3, 4, 5][(gi + seed) % 4] if (gi % 9 == 0) else [4, 3][(gi + seed) % 2]

            def run_a(name=name, seed=seed, n=n, gi=gi):
                reseed_module_gen(100 + seed)
                instance = ModelInstance(number_of_players=n, game_generator=name, seed=seed + 11 * gi,
                                         gap_function=gap_names[(gi + seed) % len(gap_names)],
                                         game_class=bound_names[(gi + seed) % len(bound_names)],
                                         run_steps_limit=[None, 3, 6][(gi + seed) % 3])
                env = instance.get_env()
                solvers = {key: SOLVERS[key](instance) for key in solver_names}
                env.reset(seed=seed)
                for s in solvers.values():
                    s.after_reset(env)
                trace = []
                step = 0
                while not env.done and step < 12:
                    before = env_state(env)
                    picks = {}
                    for key, s in solvers.items():
                        picks[key] = attempt(lambda s=s: s.next_step(env))
                        picks[key + "/untouched"] = _norm(env_state(env)) == _norm(before)
                    trace.append([picks, before, env.action_masks().copy()])
                    chooser = solver_names[(step + gi) % len(solver_names)]
                    if picks[chooser][0] != "ok":
                        break
                    trace.append(list(env.step(picks[chooser][1]))[:4])
                    step += 1
                trace.append(env_state(env))
                return trace
            record(("A", name, seed), run_a)

    # A2: linear environments (no `unstep`, no `explorable_coalitions`): identical exceptions / side effects
    for gi, name in enumerate(["factory", "noisy_factory", "graph", "xos", "graph_cycle", "k_budget"]):
        def run_a2(name=name, gi=gi):
            if name not in GENERATORS:
                name = gen_names[-1]
            reseed_module_gen(150)
            instance = ModelInstance(number_of_players=4, game_generator=name, seed=gi, linear=True)
            env = instance.get_env()
            out = []
            for key in solver_names:
                s = SOLVERS[key](instance)
                out.append(attempt(lambda: s.after_reset(env)))
                out.append(attempt(lambda: s.next_step(env)))
                out.append(env_state(env))
            return out
        record(("A2", name), run_a2)

    # B: the solve command with every registered solver
    for gi, name in enumerate(gen_names):
        for si, solver in enumerate(solver_names):
            if (gi + si) % 2:
                continue

            def run_b(name=name, solver=solver, gi=gi, si=si):
                reseed_module_gen(200 + si)
                args = Namespace(number_of_players=3 + (gi + si) % 2, game_generator=name, seed=gi + 3, solver=solver,
                                 run_steps_limit=[2, 4, 3][(gi + si) % 3], solve_repetitions=1 + gi % 3,
                                 parallel_environments=1 + (gi // 2) % 2, func="foobar",
                                 gap_function=gap_names[(gi + si) % len(gap_names)],
                                 model_dir=Path(tempfile.gettempdir()) / "unused", unique_name="x")
                instance = ModelInstance.from_parsed_arguments(args)
                captured = []
                with patch("incomplete_cooperative.run.save.SAVERS",
                           {"saver": lambda path, unique_name, output: captured.append(output)}):
                    with tempfile.TemporaryDirectory() as d:
                        instance.model_dir = Path(d)
                        solve_func(instance, args)
                output, = captured
                return [output.data, output.actions, _rng_state(instance.game_generator_rng)]
            record(("B", name, solver), run_b)

    # C: a scripted gym that logs every call: same calls in the same order, same pick, ties / NaN / inf / odd types
    class ScriptedGym:
        def __init__(self, mask, rewards, sizes, step_result_len=5):
            self.mask = np.array(mask, dtype=bool)
            self.rewards = rewards
            self._coalitions = sizes
            self.log = []
            self.step_result_len = step_result_len

        def action_masks(self):
            self.log.append("mask")
            return self.mask.copy()

        @property
        def explorable_coalitions(self):
            self.log.append("explorable")
            return self._coalitions

        def step(self, action):
            self.log.append(("step", action))
            r = self.rewards[action]
            if isinstance(r, BaseException):
                raise r
            return ("state", r, False, False, {})[:self.step_result_len]

        def unstep(self, action):
            self.log.append(("unstep", action))
            return ("state", 0, False, False, {})

    class LenLogger:
        def __init__(self, size, log, idx):
            self.size, self.log, self.idx = size, log, idx

        def __len__(self):
            self.log.append(("len", self.idx))
            if self.size < 0:
                raise TypeError("negative")
            return self.size

    rnd = random.Random(4242)
    pool = [0.0, -0.0, 1.0, -1.0, 0.5, 0.1 + 0.2, 0.3, float("nan"), float("inf"), float("-inf"), 2, True,
            np.float64(0.3), np.float32(0.3), np.float64("nan"), -0.25, -0.5, 1e-320]
    for case in range(900):
        m = rnd.randrange(0, 9)
        mode = case % 5
        if mode == 0:
            mask = [True] * m
        elif mode == 1:
            mask = [False] * m
        else:
            mask = [rnd.random() < 0.6 for _ in range(m)]
        if case % 3 == 0:
            rewards = [rnd.choice(pool) for _ in range(m)]
        elif case % 3 == 1:
            rewards = [-rnd.randrange(0, 3) / 4 for _ in range(m)]
        else:
            rewards = [-rnd.random() for _ in range(m)]
        if case % 41 == 0 and m:
            rewards[rnd.randrange(m)] = RuntimeError("step failed")
        if case % 43 == 0 and m:
            rewards[rnd.randrange(m)] = "text"
        sizes_plain = [rnd.randrange(0, 5) for _ in range(m)]

        def run_c(mask=mask, rewards=rewards, sizes_plain=sizes_plain, case=case, m=m):
            out = []
            for label, make in (("greedy", lambda: GreedySolver()), ("worst", lambda: GreedySolver(worst=True)),
                                ("worst1", lambda: GreedySolver(None, 1)), ("worst0", lambda: GreedySolver(None, 0)),
                                ("registry_greedy", lambda: SOLVERS["greedy"](None)),
                                ("registry_worst", lambda: SOLVERS["greedy_worst"](None)),
                                ("largest", lambda: LargestSolver()), ("registry_largest", lambda: SOLVERS["largest"](None))):
                gym = ScriptedGym(mask, rewards, None, step_result_len=4 if case % 97 == 0 else 5)
                if case % 2:
                    gym._coalitions = [LenLogger(-1 if (case % 53 == 0 and i == m - 1) else s, gym.log, i)
                                       for i, s in enumerate(sizes_plain)]
                else:
                    gym._coalitions = [Coalition(2 ** s - 1) for s in sizes_plain]
                solver = make()
                res = attempt(lambda: solver.next_step(gym))
                calls = [c for c in gym.log if not (isinstance(c, tuple) and c[0] == "len") and c != "explorable"]
                # `len` of a coalition / attribute reads are pure on real objects: compare which coalitions were measured
                measured = sorted({c for c in gym.log if isinstance(c, tuple) and c[0] == "len"})
                out.append([label, res, calls, measured, sorted(vars(solver).items())])
            return out
        record(("C", case), run_c)
    return results


# ----------------------------------------------------------------------------------------------------------------- parent
def main():
    if len(sys.argv) == 4 and sys.argv[1] == "--worker":
        root, out = sys.argv[2], sys.argv[3]
        sys.path.insert(0, root)
        res = run_cases(root)
        with open(out, "wb") as f:
            pickle.dump(res, f)
        return 0

    assert Path.cwd().resolve() == WORKTREE.resolve(), "run with cwd=/tmp/wt9/T07"
    with tempfile.TemporaryDirectory(prefix="equiv_T07_") as tmp:
        orig = Path(tmp) / "orig"
        orig.mkdir()
        archive = subprocess.run(["git", "-C", str(WORKTREE), "archive", "HEAD", "incomplete_cooperative"],
                                 check=True, capture_output=True).stdout
        subprocess.run(["tar", "-x", "-C", str(orig)], input=archive, check=True)
        env = dict(os.environ, OMP_NUM_THREADS="1", MKL_NUM_THREADS="1", PYTHONDONTWRITEBYTECODE="1", MPLBACKEND="Agg")
        env.pop("PYTHONPATH", None)
        outs = {}
        procs = {}
        for label, root in (("original", orig), ("refactored", WORKTREE)):
            outs[label] = Path(tmp) / f"{label}.pkl"
            procs[label] = subprocess.Popen([sys.executable, __file__, "--worker", str(root), str(outs[label])],
                                            cwd=tmp, env=env)
        for label, p in procs.items():
            if p.wait() != 0:
                print(f"DIFFERENT: worker {label} crashed")
                return 1
        res = {label: pickle.loads(outs[label].read_bytes()) for label in outs}
    a, b = res["original"], res["refactored"]
    if list(a) != list(b):
        print("DIFFERENT: case lists differ")
        return 1
    n_exc = 0
    for key in a:
        if a[key] != b[key]:
            print("DIFFERENT", key)
            print(" original:  ", str(a[key])[:2000])
            print(" refactored:", str(b[key])[:2000])
            return 1
        n_exc += a[key][0][0] == "exc"
    print(f"{len(a)} cases compared ({n_exc} of them raise the same exception in both)")
    print("EQUIVALENT")
    return 0


if __name__ == "__main__":
    sys.exit(main())
