"""Differential test for refactoring 3 (game_properties.py: np.all(np.logical_or(a, b)) -> (a | b).all(), np.all(x) ->
x.all(), named intermediates and descriptive loop variables; graph_game.py: np.fromiter(map(...)) -> np.array([...])).

Run with cwd=/tmp/wt9/T06.  The ORIGINAL package is taken from `git show HEAD:<path>` (all tracked files under
incomplete_cooperative/ are written to a temporary directory), the REFACTORED one is the working tree.  Each version is
executed in its own interpreter (`--worker <root> <out>`), with identical inputs, and the pickled outcomes are compared
exactly (bit for bit for arrays, type + message for exceptions).
"""
import os
import pickle
import subprocess
import sys
import tempfile
from pathlib import Path

import numpy as np

WORKTREE = Path("/tmp/wt9/T06")


# --------------------------------------------------------------------------------------------------------------------
# worker: runs the cases against the package found under `root`
# --------------------------------------------------------------------------------------------------------------------
def _outcome(fn):
    try:
        return ("ok", fn())
    except BaseException as e:  # noqa
        return ("exc", type(e).__name__, str(e))


def _table(game):
    """Whole internal state of a game, exactly."""
    if hasattr(game, "_graph_matrix"):
        return ("graph", game.number_of_players, game._graph_matrix.copy(), str(game._graph_matrix.dtype))
    return ("icg", game.number_of_players, game._values.copy(), str(game._values.dtype))


def worker(root: str, out: str) -> None:
    sys.path.insert(0, root)
    import warnings

    import incomplete_cooperative
    assert Path(incomplete_cooperative.__file__).resolve().is_relative_to(Path(root).resolve()), incomplete_cooperative.__file__
    from incomplete_cooperative import game_properties as P
    from incomplete_cooperative import generators as G
    from incomplete_cooperative.coalitions import Coalition, all_coalitions
    from incomplete_cooperative.game import IncompleteCooperativeGame
    from incomplete_cooperative.graph_game import GraphCooperativeGame
    from incomplete_cooperative.normalize import normalize_game

    results = []

    def _typed(x):
        return (type(x).__name__, x)

    def props(label, game, tolerances=((1e-9, 0),)):
        """All three predicates (type of the result included) + the warnings they emit."""
        def run():
            rec = []
            with warnings.catch_warnings(record=True) as caught:
                warnings.simplefilter("always")
                for rtol, atol in tolerances:
                    rec.append(("sa", rtol, atol, _typed(P.is_superadditive(game, rtol=rtol, atol=atol))))
                rec.append(("sa-default", _typed(P.is_superadditive(game))))
                rec.append(("mono", _typed(P.is_monotone_decreasing(game))))
                rec.append(("sam", _typed(P.is_sam(game))))
            rec.append(("warnings", [(w.category.__name__, str(w.message)) for w in caught]))
            rec.append(("untouched", _table(game)))
            return rec
        results.append((label, _outcome(run)))

    tols = ((1e-9, 0), (0, 0), (1e-3, 0), (0, 1e-6), (1e-9, 1e-12), (0.5, 0.5))

    def tabulated(graph_game):
        t = IncompleteCooperativeGame(graph_game.number_of_players)
        t.set_values(graph_game.get_values())
        return t

    # 1. every registry generator, several sizes and seeds; the game, its negation and its normalised form
    for name in sorted(G.GENERATORS):
        for n in (3, 4, 5, 6):
            if name == "oxs" and n > 4:
                continue
            for seed in (0, 1, 2):
                G._gen.bit_generator.state = np.random.default_rng(1000 * n + seed).bit_generator.state
                G._LAST_OWNER = seed % n
                made = _outcome(lambda: G.GENERATORS[name](n, np.random.default_rng(seed)))
                results.append((f"gen/{name}/{n}/{seed}/made", ("ok", _table(made[1])) if made[0] == "ok" else made))
                if made[0] != "ok":
                    continue
                game = made[1]
                props(f"gen/{name}/{n}/{seed}", game)
                props(f"gen-neg/{name}/{n}/{seed}", -game)
                norm = game.copy()
                normalize_game(norm)
                props(f"gen-norm/{name}/{n}/{seed}", norm, tols[:3])
                if isinstance(game, GraphCooperativeGame):
                    props(f"gen-tab/{name}/{n}/{seed}", tabulated(game))

    # 2. random tables: borderline superadditive (perturbed in the last bits), nan / inf entries, all tolerances
    rng = np.random.default_rng(777)
    for i in range(400):
        n = int(rng.integers(1, 7))
        kind = i % 8
        ids = np.arange(2**n)
        sizes = np.array([bin(c).count("1") for c in ids])
        if kind == 0:
            vals = rng.normal(size=2**n)
        elif kind == 1:                                   # convex: superadditive
            vals = sizes.astype(float) ** 2
        elif kind == 2:                                   # additive with rounding noise
            w = rng.random(n)
            vals = np.array([w[[p for p in range(n) if c >> p & 1]].sum() for c in ids], dtype=float)
            noise = rng.integers(-2, 3, size=2**n)
            for _ in range(2):
                vals = np.where(noise > 0, np.nextafter(vals, np.inf), np.where(noise < 0, np.nextafter(vals, -np.inf), vals))
        elif kind == 3:                                   # scaled convex with relative noise around the tolerance
            vals = sizes.astype(float) ** 1.0 * (1 + rng.normal(size=2**n) * 1e-9)
        elif kind == 4:                                   # non-increasing
            vals = -np.minimum(sizes, int(rng.integers(1, n + 1))).astype(float)
        elif kind == 5:
            vals = rng.normal(size=2**n)
            vals[rng.integers(0, 2**n)] = np.nan
        elif kind == 6:
            vals = rng.normal(size=2**n)
            vals[rng.integers(0, 2**n)] = np.inf if i % 16 < 8 else -np.inf
        else:
            vals = rng.integers(-3, 4, size=2**n).astype(float)
        if kind not in (5, 6) and i % 3:
            vals[0] = 0.0
        g = IncompleteCooperativeGame(n)
        g.set_values(vals)
        props(f"table/{i}", g, tols)

    # 3. incomplete games (unknown values -> ValueError from get_values)
    for i in range(60):
        n = int(rng.integers(2, 6))
        g = IncompleteCooperativeGame(n)
        g.set_values(rng.random(2**n))
        for c in rng.choice(2**n, int(rng.integers(1, 4)), replace=False):
            g.unset_value(Coalition(int(c)))
        props(f"incomplete/{i}", g)

    # 4. graph games: the predicates, and GraphCooperativeGame.get_values with every kind of argument
    for i in range(200):
        n = int(rng.integers(0, 7))
        kind = i % 4
        m = [rng.random((n, n)), rng.normal(size=(n, n)), rng.integers(0, 3, size=(n, n)), np.zeros((n, n))][kind]
        made = _outcome(lambda: GraphCooperativeGame(m))
        if made[0] != "ok":
            results.append((f"graph/{i}", made))
            continue
        g = made[1]
        props(f"graph/{i}", g, tols[:2])
        props(f"graph-neg/{i}", -g, tols[:2])

        def values_of(arg):
            v = g.get_values(arg)
            return (type(v).__name__, str(v.dtype), v.shape, v.copy(), bool(v.flags.writeable), bool(v.flags.owndata))
        some = [Coalition(int(c)) for c in rng.integers(0, 2**n, size=int(rng.integers(0, 9)))]
        args = {
            "none": lambda: None,
            "list": lambda: list(some),
            "tuple": lambda: tuple(some),
            "empty": lambda: [],
            "generator": lambda: (c for c in some),
            "map": lambda: map(Coalition, range(2**n)),
            "all": lambda: all_coalitions(g),
            "too-big": lambda: [Coalition(2**(n + 2) + 1)] + some,        # IndexError in get_value (for n >= 2)
            "ints": lambda: [1, 2],                                        # AttributeError: int has no `players`
            "not-iterable": lambda: 5,
            "string": lambda: "ab",
            "raising": lambda: (1 // (len(some) - k) and some[0] for k in range(len(some) + 1)),  # ZeroDivisionError midway
        }
        for aname, mk in args.items():
            results.append((f"graph-values/{i}/{aname}", _outcome(lambda: values_of(mk()))))
        results.append((f"graph-eq/{i}", _outcome(lambda: (g == tabulated(g), g == g.copy(), g == -g))))

    # 5. unsupported objects
    class ListGame:
        number_of_players = 2

        def get_values(self, coalitions=None):
            return [0.0, 1.0, 1.0, 3.0]

    class IntGame:
        number_of_players = 2

        def get_values(self, coalitions=None):
            return np.array([0, 1, 1, 3])

    class ShortGame:
        number_of_players = 3

        def get_values(self, coalitions=None):
            return np.array([0.0, 1.0, 1.0, 3.0])

    class ObjGame:
        number_of_players = 2

        def get_values(self, coalitions=None):
            return np.array([0, 1, 1, 3], dtype=object)

    for obj in (None, 3, ListGame(), IntGame(), ShortGame(), ObjGame()):
        for fname in ("is_superadditive", "is_monotone_decreasing", "is_sam"):
            results.append((f"bad/{type(obj).__name__}/{fname}", _outcome(lambda: _typed(getattr(P, fname)(obj)))))
    g = IncompleteCooperativeGame(3)
    g.set_values(np.arange(8.0))
    for rtol, atol in (("x", 0), (None, 0), (np.array([1e-9, 1.0]), 0), (-1.0, 0), (np.nan, np.nan), (np.inf, 0)):
        results.append((f"bad-tol/{rtol!r}/{atol!r}", _outcome(lambda: _typed(P.is_superadditive(g, rtol=rtol, atol=atol)))))
        results.append((f"bad-tol-pos/{rtol!r}/{atol!r}", _outcome(lambda: _typed(P.is_superadditive(g, rtol, atol)))))

    with open(out, "wb") as f:
        pickle.dump(results, f)


# --------------------------------------------------------------------------------------------------------------------
# driver
# --------------------------------------------------------------------------------------------------------------------
def same(a, b) -> bool:
    if type(a) is not type(b):
        return False
    if isinstance(a, np.ndarray):
        if a.dtype != b.dtype or a.shape != b.shape:
            return False
        if a.dtype.kind == "f":
            return bool(np.array_equal(a, b, equal_nan=True)) and bool(np.array_equal(np.signbit(a), np.signbit(b)))
        return bool(np.array_equal(a, b))
    if isinstance(a, (list, tuple)):
        return len(a) == len(b) and all(same(x, y) for x, y in zip(a, b))
    if isinstance(a, dict):
        return a.keys() == b.keys() and all(same(a[k], b[k]) for k in a)
    if isinstance(a, (float, np.floating)):
        return (a == b) or (a != a and b != b)
    return a == b


def extract_original(dest: Path) -> None:
    files = subprocess.run(["git", "-C", str(WORKTREE), "ls-tree", "-r", "--name-only", "HEAD", "incomplete_cooperative"],
                           check=True, capture_output=True, text=True).stdout.split()
    for rel in files:
        blob = subprocess.run(["git", "-C", str(WORKTREE), "show", f"HEAD:{rel}"], check=True, capture_output=True).stdout
        target = dest / rel
        target.parent.mkdir(parents=True, exist_ok=True)
        target.write_bytes(blob)


def main() -> int:
    env = dict(os.environ, OMP_NUM_THREADS="1", MKL_NUM_THREADS="1", PYTHONDONTWRITEBYTECODE="1", PYTHONHASHSEED="0")
    with tempfile.TemporaryDirectory(prefix="T06_equiv3_") as tmp:
        orig_root = Path(tmp) / "orig"
        extract_original(orig_root)
        outs = {}
        for label, root in (("orig", orig_root), ("new", WORKTREE)):
            out = Path(tmp) / f"{label}.pkl"
            subprocess.run([sys.executable, __file__, "--worker", str(root), str(out)], check=True, env=env, cwd=tmp)
            with open(out, "rb") as f:
                outs[label] = pickle.load(f)
    a, b = outs["orig"], outs["new"]
    if len(a) != len(b):
        print("DIFFERENT: number of cases", len(a), len(b))
        return 1
    n_exc = 0
    for (la, ra), (lb, rb) in zip(a, b):
        if la != lb or not same(ra, rb):
            print("DIFFERENT at case", la, lb)
            print(" original  :", ra)
            print(" refactored:", rb)
            return 1
        n_exc += ra[0] == "exc"
    print(f"{len(a)} cases compared ({n_exc} of them raise identically)")
    print("EQUIVALENT")
    return 0


if __name__ == "__main__":
    if len(sys.argv) > 1 and sys.argv[1] == "--worker":
        worker(sys.argv[2], sys.argv[3])
    else:
        sys.exit(main())
