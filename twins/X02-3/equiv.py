#!/venv/bin/python
"""Differential equivalence check for patch_3 (evaluation.py: private in-process pool object, np.empty + fill).

Usage:  /venv/bin/python equiv_3.py [tree]      (default tree: /tmp/wt_x4_X02, with the patch applied)

The original package is taken from `git archive HEAD`, the refactored one is the working tree.  Both are run in
separate interpreters; everything they produce is reduced to plain python objects (arrays as dtype/shape/flags/bytes)
and pickled; the two pickles have to be byte-equal.  Exit status 0 iff identical.
"""
import os
import pickle
import re
import subprocess
import sys
import tempfile

PY = "/venv/bin/python"
DEFAULT_WT = "/tmp/wt_x4_X02"


def norm(x):
    """Reduce an outcome to something that pickles deterministically and compares exactly."""
    import numpy as np
    if isinstance(x, np.ndarray):
        return ("nd", x.dtype.str, x.shape, x.flags["C_CONTIGUOUS"], x.flags["F_CONTIGUOUS"], x.flags["OWNDATA"],
                np.ascontiguousarray(x).tobytes())
    if isinstance(x, np.generic):
        return ("sc", type(x).__name__, x.tobytes())
    if isinstance(x, (list, tuple)):
        return (type(x).__name__, [norm(y) for y in x])
    if isinstance(x, dict):
        return ("dict", [(norm(k), norm(v)) for k, v in x.items()])
    if isinstance(x, (int, float, str, bool, bytes, type(None))):
        return (type(x).__name__, repr(x) if isinstance(x, float) else x)
    raise TypeError(f"cannot normalise {type(x)}")


def attempt(fn, *a, **kw):
    """Call, returning the normalised result or the normalised exception (addresses masked)."""
    try:
        return ("ok", norm(fn(*a, **kw)))
    except BaseException as e:  # noqa
        return ("exc", type(e).__name__, re.sub(r"0x[0-9a-fA-F]+", "0x?", str(e)))


# ---- scripted environments (module level: instances are pickled into the worker processes of the pool) -------------
LOG = []  # events of the current call, in order (only those that happen in this process)


class ScriptedEnv:
    """An environment that follows a script and logs every call."""

    def __init__(self, ident, rewards, done_at=None, fail_at=None, fail_kind=None, start_reward=-10.0):
        self.ident = ident
        self.rewards = list(rewards)
        self.done_at = done_at
        self.fail_at = fail_at
        self.fail_kind = fail_kind
        self.start_reward = start_reward
        self.t = 0
        self.was_reset = 0
        LOG.append(("create", ident))

    @property
    def reward(self):
        LOG.append(("reward", self.ident, self.t))
        return self.start_reward

    def reset(self, seed=None, options=None):
        LOG.append(("reset", self.ident))
        self.t = 0
        self.was_reset += 1
        if self.fail_kind == "reset":
            raise RuntimeError(f"reset of {self.ident} failed")
        return None, {}

    def step(self, action):
        LOG.append(("step", self.ident, self.t, action))
        t = self.t
        self.t += 1
        if self.fail_at == t:
            if self.fail_kind == "raise":
                raise ArithmeticError(f"step {t} of env {self.ident} failed")
            if self.fail_kind == "short":
                return None, self.rewards[t], False, {}
            if self.fail_kind == "long":
                return None, self.rewards[t], False, False, {"chosen_coalition": 1}, None
            if self.fail_kind == "nokey":
                return None, self.rewards[t], False, False, {"chosen": 3}
            if self.fail_kind == "badid":
                return None, self.rewards[t], False, False, {"chosen_coalition": "abc"}
            if self.fail_kind == "badreward":
                return None, "r", False, False, {"chosen_coalition": 1}
        return None, self.rewards[t], self.done_at is not None and t >= self.done_at, False, \
            {"chosen_coalition": 100 * self.ident + action}


def scripted_policy(env):
    """Choose the action by the clock of the environment."""
    LOG.append(("policy", env.ident, env.t))
    return (7 * env.ident + 3 * env.t) % 11


def failing_policy(env):
    """Fail at the third step of the second environment."""
    if env.ident == 1 and env.t == 2:
        raise LookupError("policy failed")
    return env.t


class Hook:
    """A picklable after_reset callback."""

    def __init__(self, fail_on=None):
        self.fail_on = fail_on

    def __call__(self, env):
        LOG.append(("after_reset", env.ident, env.was_reset, env.t))
        env.start_reward = env.start_reward - 0.5
        if self.fail_on == env.ident:
            raise KeyError(f"hook failed on {env.ident}")


class EnvFactory:
    """Create the scripted environments one after the other."""

    def __init__(self, seed, steps, fail_kind=None, fail_env=None, done_early=False, fail_create=None):
        import numpy as np
        self.rng = np.random.default_rng([7, seed])
        self.steps = steps
        self.count = 0
        self.fail_kind = fail_kind
        self.fail_env = fail_env
        self.done_early = done_early
        self.fail_create = fail_create

    def __call__(self):
        ident = self.count
        self.count += 1
        if self.fail_create == ident:
            raise OSError(f"cannot create env {ident}")
        rewards = -self.rng.random(self.steps + 3)
        done_at = int(self.rng.integers(0, self.steps + 1)) if self.done_early and self.steps else None
        fail = ident == self.fail_env
        return ScriptedEnv(ident, rewards, done_at=done_at, fail_at=int(self.rng.integers(0, max(1, self.steps))) if fail else None,
                           fail_kind=self.fail_kind if fail else None, start_reward=-float(self.rng.random()))


def worker(out_path):
    import numpy as np

    import incomplete_cooperative.evaluation as E
    from incomplete_cooperative.evaluation import eval_one, evaluate

    out = []
    rec = out.append

    def logged(fn, *a, **kw):
        del LOG[:]
        res = attempt(fn, *a, **kw)
        return res, list(LOG)

    rec(("names", [n for n in ("evaluate", "eval_one", "Pool", "starmap", "np", "Callable", "GapFunction", "Gym",
                               "GymGenerator") if hasattr(E, n)],
         evaluate.__defaults__[0], eval_one.__defaults__[0].__name__, evaluate.__defaults__[1].__name__,
         evaluate.__module__, eval_one.__module__, eval_one.__qualname__, pickle.dumps(eval_one)))

    # ---- eval_one alone ----------------------------------------------------------------------------------------
    kinds = [None, "raise", "short", "long", "nokey", "badid", "badreward", "reset"]
    for steps in (0, 1, 2, 3, 5, 8):
        for seed in range(12):
            for kind in kinds:
                for done_early in (False, True):
                    factory = EnvFactory(seed, steps, fail_kind=kind, fail_env=0, done_early=done_early)
                    env = factory()
                    if seed % 3 == 0:
                        res = logged(eval_one, scripted_policy, env, steps, None)
                    elif seed % 3 == 1:
                        res = logged(eval_one, scripted_policy, env, steps, None, Hook())
                    else:
                        res = logged(eval_one, scripted_policy, env, steps, None, after_reset=Hook(fail_on=seed % 2))
                    rec(("eval_one", steps, seed, kind, done_early, res, env.t, env.was_reset, env.start_reward))
    for bad in (-1, -2, -5, 2.0, None, "3", True, np.int64(3), np.float64(2)):
        env = EnvFactory(0, 4)()
        rec(("eval_one_bad_limit", repr(bad), logged(eval_one, scripted_policy, env, bad, None)))
    # a limit that is larger than what the environment survives
    for limit in (3, 6):
        env = EnvFactory(1, 1)()
        rec(("eval_one_exhausted", limit, logged(eval_one, scripted_policy, env, limit, None)))

    # ---- evaluate on scripted environments, in process and in pools --------------------------------------------
    for processes in (1, 0, -3, True, 2, 3, 5):
        in_process = processes is True or processes <= 1
        for repetitions in {1: (0, 1, 2, 5, 9), 2: (0, 1, 2, 5), 3: (3, 7), 5: (4,)}.get(processes, (0, 3, 7)):
            for steps in ((0, 1, 4) if in_process else (1, 4)):
                for variant in range(7):
                    seed = 100 * repetitions + 10 * steps + variant
                    kw = {}
                    policy = scripted_policy
                    hook = Hook()
                    if variant == 1:
                        kw = dict(done_early=True)
                    elif variant == 2:
                        kw = dict(fail_kind=kinds[1 + seed % 6], fail_env=min(1, repetitions - 1))
                    elif variant == 3:
                        hook = Hook(fail_on=repetitions // 2)
                    elif variant == 4:
                        policy = failing_policy
                    elif variant == 5:
                        kw = dict(fail_create=repetitions // 2)
                    elif variant == 6:
                        hook = None
                    factory = EnvFactory(seed, steps, **kw)
                    if hook is None:
                        if processes is not True and processes > 1:
                            continue  # the default callback cannot be pickled; see below
                        res = logged(evaluate, policy, factory, repetitions, steps, None, processes)
                    else:
                        res = logged(evaluate, policy, factory, repetitions, steps, None, processes, hook)
                    rec(("evaluate", repr(processes), repetitions, steps, variant, res, factory.count,
                         norm(factory.rng.random(2))))
    # the default callback (a lambda) in a pool: the task cannot be sent
    for repetitions in (1, 3):
        factory = EnvFactory(5, 2)
        rec(("evaluate_default_hook_pool", repetitions, logged(evaluate, scripted_policy, factory, repetitions, 2, None, 2),
             factory.count))
    # odd arguments: the moment and the kind of the failure
    for args in [(scripted_policy, EnvFactory(1, 2), "3", 2, None, 1, Hook()),
                 (scripted_policy, EnvFactory(1, 2), 3, 2, None, None, Hook()),
                 (scripted_policy, EnvFactory(1, 2), 3, 2, None, "2", Hook()),
                 (scripted_policy, EnvFactory(1, 2), 3, 2, None, 1.5, Hook()),
                 (scripted_policy, EnvFactory(1, 2), 3, 2, None, 2.0, Hook()),
                 (scripted_policy, EnvFactory(1, 2), 3, -1, None, 1, Hook()),
                 (scripted_policy, EnvFactory(1, 2), -1, 2, None, 1, Hook()),
                 (scripted_policy, EnvFactory(1, 2), 3, 1, None, 1, Hook()),   # shape assertion holds: limit 1
                 (scripted_policy, None, 3, 2, None, 1, Hook()),
                 (scripted_policy, None, 3, 2, None, 2, Hook()),
                 (scripted_policy, None, 0, 2, None, 2, Hook())]:
        res = logged(evaluate, *args)
        rec(("evaluate_odd", repr(args[2:6]), res, getattr(args[1], "count", None)))

    # ---- evaluate on the real environments of the package -----------------------------------------------------
    from incomplete_cooperative.run.model import ModelInstance
    from incomplete_cooperative.solvers import SOLVERS

    class Recorder:
        """after_reset in this process: remember the hidden game, then let the solver do its part."""

        def __init__(self, solver):
            self.solver = solver
            self.games = []

        def __call__(self, env):
            self.games.append(env.get_wrapper_attr("full_game").get_values().copy())
            self.solver.after_reset(env)

    # the graph generators of the package draw from an unseeded module-level generator: put it into a fixed state
    # ("graph" reads that module-level generator inside the worker processes, where the result depends on which
    # process gets which task - in both versions; it is used in process only)
    import incomplete_cooperative.generators as GEN
    GEN._gen.bit_generator.state = np.random.PCG64(20240229).state
    generators = ["noisy_factory", "xos", "graph_beta_2_3", "graph"]
    case = 0
    for players in (3, 4):
        for solver_name in SOLVERS:
            for gi, generator in enumerate(generators):
                for processes in (1, 2 + (case // 2) % 3):  # in process, and in a pool of 2, 3 or 4
                    case += 1
                    if generator == "graph" and processes > 1:
                        generator = "factory_cheerleader"
                    seed = 1000 + 37 * case
                    linear = case % 5 == 0
                    gap = ["exploitability", "l1_norm", "l2_norm", "linf_norm"][case % 4]
                    game_class = ["superadditive_cached", "superadditive", "sam_apx_1"][case % 3]
                    explorable = 2**players - players - 2
                    limit = [explorable, 2, explorable + 2, 1][case % 4]
                    if linear:
                        limit = min(limit, players - 2) or 1
                    env_limit = [None, limit, max(1, limit - 1)][case % 3]  # the environment may be done earlier
                    repetitions = 1 + (case * 7) % 6
                    instance = ModelInstance(number_of_players=players, game_class=game_class, game_generator=generator,
                                             gap_function=gap, run_steps_limit=env_limit, seed=seed, linear=linear,
                                             parallel_environments=processes)
                    solver = SOLVERS[solver_name](instance)
                    if processes == 1 and case % 2:
                        hook = Recorder(solver)
                    else:
                        hook = solver.after_reset
                    res = attempt(evaluate, solver.next_step, instance.get_env, repetitions, limit,
                                  instance.gap_function_callable, processes, hook)
                    state = instance.game_generator_rng.bit_generator.state
                    rec(("real", players, solver_name, generator, processes, seed, linear, gap, game_class, limit,
                         env_limit, repetitions, res,
                         norm(getattr(hook, "games", [])),
                         repr(state["state"]), instance.game_generator_rng.bit_generator.seed_seq.n_children_spawned,
                         repr(solver._generator.getstate()[1][:5]) if hasattr(solver, "_generator") else None))

    with open(out_path, "wb") as f:
        pickle.dump(out, f, protocol=4)


# --------------------------------------------------------------------------------------------------------------------
# driver
# --------------------------------------------------------------------------------------------------------------------
def main():
    wt = sys.argv[1] if len(sys.argv) > 1 else DEFAULT_WT
    repo = wt if os.path.exists(os.path.join(wt, ".git")) else DEFAULT_WT
    with tempfile.TemporaryDirectory(prefix="equiv3_") as tmp:
        orig = os.path.join(tmp, "orig")
        os.mkdir(orig)
        archive = subprocess.run(["git", "-C", repo, "archive", "HEAD", "incomplete_cooperative"],
                                 check=True, capture_output=True).stdout
        subprocess.run(["tar", "-x", "-C", orig], input=archive, check=True)
        a_path, b_path = os.path.join(tmp, "a.pkl"), os.path.join(tmp, "b.pkl")
        procs = []
        for tree, path in ((orig, a_path), (wt, b_path)):
            env = dict(os.environ, PYTHONPATH=tree, OMP_NUM_THREADS="1", PYTHONHASHSEED="0",
                       PYTHONDONTWRITEBYTECODE="1", PYTHONWARNINGS="ignore")
            procs.append(subprocess.Popen([PY, os.path.abspath(__file__), "--worker", path], env=env,
                                          cwd=tempfile.gettempdir()))
        if any(p.wait() for p in procs):
            print("a worker failed")
            return 2
        a_bytes, b_bytes = open(a_path, "rb").read(), open(b_path, "rb").read()
        a, b = pickle.loads(a_bytes), pickle.loads(b_bytes)
        print(f"original: {len(a)} records, refactored: {len(b)} records")
        bad = 0
        for i, (x, y) in enumerate(zip(a, b)):
            if x != y:
                bad += 1
                if bad <= 10:
                    print("DIFF at record", i, "\n   orig:", repr(x)[:400], "\n   new: ", repr(y)[:400])
        if len(a) != len(b) or bad or a_bytes != b_bytes:
            print(f"NOT EQUIVALENT: {bad} differing records, byte-equal pickles: {a_bytes == b_bytes}")
            return 1

        def has_exc(r):
            return "('exc'" in repr(r)
        print(f"identical (byte-equal pickles); {sum(map(has_exc, a))} records are raised exceptions")
        return 0


if __name__ == "__main__":
    if len(sys.argv) == 3 and sys.argv[1] == "--worker":
        worker(sys.argv[2])
    else:
        sys.exit(main())
