#!/usr/bin/env python
"""Differential equivalence check of patch_3 (coalitions.py: match statements instead of isinstance chains;
exploitability.py: functools.reduce instead of sum, membership test fed directly into the boolean mask).

The ORIGINAL package is extracted from git HEAD into a temporary directory, the REFACTORED package is the
worktree (patch applied).  The same driver runs in two separate interpreters, pickles a normalised trace of every
outcome (results, exception types and messages, object state, aliasing facts) and the traces are compared exactly.

Exit status 0 iff the traces are identical.
"""
import os
import pickle
import subprocess
import sys
import tempfile

WORKTREE = os.environ.get("X07_TREE", "/tmp/wt_x4_X07")
GIT_TREE = os.environ.get("X07_GIT", "/tmp/wt_x4_X07")
PYTHON = os.environ.get("X07_PYTHON", "/venv/bin/python")

DRIVER = r'''
import os, pickle, random, sys
import numpy as np

import incomplete_cooperative
EXPECTED = sys.argv[1]
assert os.path.realpath(os.path.dirname(os.path.dirname(incomplete_cooperative.__file__))) == os.path.realpath(EXPECTED), \
    (incomplete_cooperative.__file__, EXPECTED)

from incomplete_cooperative.coalitions import Coalition, all_coalitions, grand_coalition
from incomplete_cooperative.game import IncompleteCooperativeGame
from incomplete_cooperative.bounds import BOUNDS
from incomplete_cooperative.norms import l1_norm, l2_norm, linf_norm
from incomplete_cooperative.exploitability import compute_exploitability
from incomplete_cooperative.normalize import normalize_game
from incomplete_cooperative.icg_gym import ICG_Gym
from incomplete_cooperative import coalitions as coalitions_module
from incomplete_cooperative import exploitability as exploitability_module
from incomplete_cooperative.coalitions import (disjoint_coalitions, exclude_coalition, get_known_coalitions,
                                               get_sub_coalitions, get_super_coalitions, minimal_game_coalitions,
                                               player_to_coalition)
from incomplete_cooperative.exploitability import MaxGainGame
from incomplete_cooperative.graph_game import GraphCooperativeGame
from incomplete_cooperative.shapley import compute_shapley_value, compute_shapley_value_for_player
from incomplete_cooperative.protocols import Game


def norm(x):
    """Turn an outcome into a plain, exactly comparable structure."""
    if isinstance(x, BaseException):
        return ("exc", type(x).__name__, str(x))
    if isinstance(x, IncompleteCooperativeGame):
        return ("ICG", x.number_of_players, norm(x._values), getattr(x._bounds_computer, "__name__", repr(type(x._bounds_computer))))
    if isinstance(x, Coalition):
        return ("Coalition", norm(x.id))
    if isinstance(x, np.ndarray):
        if x.dtype == object:
            return ("ndobj", x.shape, [norm(e) for e in x.ravel().tolist()])
        return ("nd", x.dtype.str, x.shape, np.ascontiguousarray(x).tobytes())
    if isinstance(x, np.generic):
        return ("npscalar", type(x).__name__, x.dtype.str, x.tobytes())
    if isinstance(x, bool) or x is None or isinstance(x, str) or isinstance(x, bytes):
        return (type(x).__name__, x)
    if isinstance(x, int):
        return ("int", int(x)) if type(x) is int else ("intsub", type(x).__name__, int(x))
    if isinstance(x, float):
        return ("float", x.hex())
    if isinstance(x, (tuple, list)):
        return (type(x).__name__, [norm(e) for e in x])
    if isinstance(x, dict):
        return ("dict", [(norm(k), norm(v)) for k, v in x.items()])
    text = repr(x)
    return ("other", type(x).__name__, text if " at 0x" not in text else "<object with an address>")


TRACE = []


def call(label, fn, *args, **kwargs):
    """Run, record the result or the exception."""
    try:
        r = fn(*args, **kwargs)
    except Exception as e:  # noqa
        TRACE.append((label, norm(e)))
        return e
    TRACE.append((label, norm(r)))
    return r



def drain(iterable, limit=5000):
    out = []
    for x in iterable:
        out.append(x)
        if len(out) >= limit:
            break
    return out


class SubCoalition(Coalition):
    """A subclass of the coalition."""


class SubInt(int):
    """A subclass of int."""


class DuckGame:
    """Satisfies the Game protocol structurally."""

    def __init__(self, n):
        self.n = n

    def __repr__(self):
        return f"{type(self).__name__}({self.n!r})"

    @property
    def number_of_players(self):
        return self.n

    def get_values(self, coalitions=None):
        return np.zeros(2**self.n)

    def get_value(self, coalition):
        return 0.0

    def copy(self):
        return DuckGame(self.n)

    def __add__(self, other):
        return self


class BrokenDuckGame(DuckGame):
    """The property raises."""

    @property
    def number_of_players(self):
        raise AttributeError("no players here")


class HalfDuck:
    """Has a number of players but is not a Game."""

    number_of_players = 3

    def __repr__(self):
        return "HalfDuck()"


class Indexable:
    """Not an int, but usable as one in some places."""

    def __repr__(self):
        return "Indexable()"

    def __index__(self):
        return 2

    def __rpow__(self, base):
        return base**2


def operands():
    yield from [Coalition(i) for i in (0, 1, 2, 3, 5, 6, 7, 12, 31, 2**40 + 1)]  # no negative ids: their repr never ends
    yield from [SubCoalition(0), SubCoalition(5)]
    yield from [0, 1, 2, 3, 5, -1, -2, 70, True, False, SubInt(2), SubInt(0)]
    yield from [np.int64(1), np.int32(2), np.int64(0), np.uint8(3), np.bool_(True)]
    yield from [1.0, 2.5, float("nan"), np.float64(1.0), "1", "", b"1", None, [1], (1,), {1}, [0], [], 1 + 0j,
                Indexable(), DuckGame(2), int]


def coalition_algebra():
    lefts = [Coalition(i) for i in (0, 1, 2, 3, 5, 6, 7, 12, 31, 64)] + [SubCoalition(5), Coalition(2.0),
                                                                             Coalition(np.int64(6)), Coalition(np.int32(5))]
    for li, left in enumerate(lefts):
        for ri, right in enumerate(operands()):
            label = ("alg", li, ri)
            call(label + ("eq",), lambda: left == right)
            call(label + ("ne",), lambda: left != right)
            call(label + ("req",), lambda: right == left)
            call(label + ("sub",), lambda: left - right)
            call(label + ("add",), lambda: left + right)
            call(label + ("contains",), lambda: right in left)
            call(label + ("and",), lambda: left & right)
            call(label + ("or",), lambda: left | right)
            call(label + ("in-list",), lambda: right in [Coalition(0), left, Coalition(9)])
            call(label + ("list-index",), lambda: [Coalition(0), Coalition(9), left].index(right))
            call(label + ("list-count",), lambda: [Coalition(5), left, 5, Coalition(1)].count(right))
            call(label + ("in-set",), lambda: right in {Coalition(0), left, Coalition(9)})
            call(label + ("dict-get",), lambda: {left: "a", Coalition(1): "b"}.get(right))
            call(label + ("eq-dunder",), lambda: Coalition.__eq__(left, right))
            call(label + ("sub-dunder",), lambda: Coalition.__sub__(left, right))
            call(label + ("add-dunder",), lambda: Coalition.__add__(left, right))
            if isinstance(right, Coalition):
                call(label + ("disjoint",), disjoint_coalitions, left, right)
        if not (isinstance(left.id, int) and left.id < 0):  # a negative id never runs out of players
            call(("alg", li, "len"), len, left)
            call(("alg", li, "players"), lambda: list(left.players))
        call(("alg", li, "hash"), hash, left)
        for n in (0, 1, 3, 5, np.int64(4), 2.0, "3", DuckGame(3), IncompleteCooperativeGame(4)):
            call(("alg", li, "inverted", repr(n)[:20]), left.inverted, n)
        call(("alg", li, "set-dedup"), lambda: sorted(c.id for c in {left, Coalition(left.id), Coalition(0)}))


def game_arguments():
    yield from [0, 1, 2, 3, 5, 8, True, False, SubInt(3), -1, -3]
    yield from [np.int64(3), np.int32(4), np.uint8(2), np.int8(7), np.int64(0)]
    yield from [2.0, 2.5, np.float64(3.0), "3", None, [2], 1 + 0j, Indexable()]
    yield from [IncompleteCooperativeGame(n) for n in (0, 1, 2, 3, 5)]
    yield IncompleteCooperativeGame(3, BOUNDS["superadditive"])
    yield GraphCooperativeGame(np.ones((4, 4)))
    yield MaxGainGame(IncompleteCooperativeGame(3), 1)
    yield from [DuckGame(0), DuckGame(3), DuckGame(np.int64(3)), DuckGame(2.0), DuckGame("x"), BrokenDuckGame(3),
                HalfDuck(), DuckGame, IncompleteCooperativeGame]


def coalition_factories():
    for i, arg in enumerate(game_arguments()):
        label = ("factory", i, type(arg).__name__)
        TRACE.append((label, "isinstance Game", isinstance(arg, Game)))
        call(label + ("grand",), coalitions_module.grand_coalition, arg)
        call(label + ("all",), lambda: drain(coalitions_module.all_coalitions(arg)))
        call(label + ("all-type",), lambda: type(coalitions_module.all_coalitions(arg)).__name__)
        call(label + ("minimal",), lambda: drain(minimal_game_coalitions(arg)))
        # a generator function: nothing happens before the first next()
        g = call(label + ("minimal-create",), minimal_game_coalitions, arg)
        if not isinstance(g, Exception):
            for k in range(4):
                call(label + ("minimal-next", k), next, g)
        call(label + ("known",), lambda: drain(get_known_coalitions(arg)))
        for c in (Coalition(0), Coalition(5)):
            call(label + ("inverted", c.id), c.inverted, arg)
            call(label + ("super", c.id), lambda: drain(get_super_coalitions(c, arg)))
    for cid in range(0, 40):
        c = Coalition(cid)
        call(("sub", cid), lambda: drain(get_sub_coalitions(c)))
        for n in (3, 6):
            call(("super", cid, n), lambda: drain(get_super_coalitions(c, n)))
            call(("exclude", cid, n), lambda: drain(exclude_coalition(c, coalitions_module.all_coalitions(n))))
    for players in ([], [0], [0, 0, 1], (2, 5), {1, 3}, range(4), [np.int64(1), 2], [True, 2], ["a"], [1.0], None, 3):
        call(("from_players", repr(players)), Coalition.from_players, players)


def convex_values(n, rnd, power):
    weights = [rnd.uniform(0.5, 4) for _ in range(n)]
    return np.array([sum(w for i, w in enumerate(weights) if c >> i & 1)**power for c in range(2**n)])


def mask_state(mg):
    return ("mask", norm(mg._player_mask), mg.player, mg.number_of_players)


def exploitability_cases():
    for n in range(0, 7):
        for seed in range(40 if n < 6 else 10):
            rnd = random.Random(1000 * n + seed)
            label = ("expl", n, seed)
            game = IncompleteCooperativeGame(n, BOUNDS["superadditive"])
            kind = seed % 4
            if kind == 0:
                values = convex_values(n, rnd, 2.0)
            elif kind == 1:
                values = np.array([rnd.uniform(-5, 5) for _ in range(2**n)])
            elif kind == 2:
                values = np.array([float(rnd.randint(-3, 3)) for _ in range(2**n)])
            else:
                values = convex_values(n, rnd, 1.5)
                values[rnd.randrange(2**n)] = rnd.choice([float("nan"), float("inf"), -0.0])
            known = sorted({0, 2**n - 1, *[2**i for i in range(n)], *rnd.sample(range(2**n), rnd.randint(0, 2**n))})
            if seed == 5:
                known = [k for k in known if k != 2**n - 1] or [0]
            game.set_known_values(values[known], [Coalition(k) for k in known])
            game.set_lower_bounds(values - np.array([rnd.uniform(0, 2) for _ in range(2**n)]))
            game.set_upper_bounds(values + np.array([rnd.uniform(0, 2) for _ in range(2**n)]))
            call(label + ("exploitability-raw",), compute_exploitability, game)
            call(label + ("bounds",), game.compute_bounds)
            TRACE.append((label, "state", norm(game)))
            r = call(label + ("exploitability",), compute_exploitability, game)
            TRACE.append((label, "exploitability-type", type(r).__name__))
            for gname, gap in (("l1", l1_norm), ("l2", l2_norm), ("linf", linf_norm)):
                call(label + (gname,), gap, game)
            call(label + ("shapley",), lambda: list(compute_shapley_value(game)))
            for player in list(range(n)) + [n, -1, np.int64(0), True, 1.0, "0", None]:
                plabel = label + ("player", repr(player))
                mg = call(plabel + ("init",), MaxGainGame, game, player)
                if isinstance(mg, Exception):
                    continue
                TRACE.append((plabel, mask_state(mg)))
                call(plabel + ("get_values",), mg.get_values)
                subset = [Coalition(i) for i in rnd.sample(range(2**n), rnd.randint(0, 2**n))]
                call(plabel + ("get_values-subset",), mg.get_values, subset)
                call(plabel + ("get_values-gen",), mg.get_values, (c for c in subset))
                for c in [Coalition(i) for i in range(min(2**n, 16))] + [Coalition(2**n)]:
                    call(plabel + ("get_value", c.id), mg.get_value, c)
                call(plabel + ("shapley",), compute_shapley_value_for_player, player, mg)
                call(plabel + ("grand",), coalitions_module.grand_coalition, mg)
                call(plabel + ("isinstance",), isinstance, mg, Game)
    # games that are not incomplete cooperative games
    for arg in (DuckGame(3), GraphCooperativeGame(np.arange(16.0).reshape(4, 4)), 3, None, HalfDuck()):
        call(("expl-other", type(arg).__name__), compute_exploitability, arg)
        call(("maxgain-other", type(arg).__name__), MaxGainGame, arg, 0)


def reveal_paths():
    gaps = [("exploitability", compute_exploitability), ("l1", l1_norm), ("l2", l2_norm), ("linf", linf_norm)]
    for n in range(2, 6):
        for seed in range(10):
            rnd = random.Random(77 * n + seed)
            values = convex_values(n, rnd, rnd.choice([1.0, 1.5, 2.0]))
            for name in ("superadditive", "superadditive_cached", "sam_apx_1"):
                game = IncompleteCooperativeGame(n, BOUNDS[name])
                minimal = list(minimal_game_coalitions(game))
                game.set_known_values(values[[c.id for c in minimal]], minimal)
                order = [i for i in range(2**n) if not game.is_value_known(Coalition(i))]
                rnd.shuffle(order)
                label = ("reveal", n, seed, name)
                call(label + ("bounds0",), game.compute_bounds)
                TRACE.append((label, "start", norm(game), [c.id for c in minimal]))
                for i in order:
                    call(label + ("reveal", i), game.reveal_value, values[i], Coalition(i))
                    call(label + ("bounds", i), game.compute_bounds)
                    TRACE.append((label, i, norm(game)))
                    for gname, gap in gaps:
                        call(label + (gname, i), gap, game)
            full = IncompleteCooperativeGame(n)
            full.set_values(values)
            call(("normalize", n, seed), normalize_game, full)
            TRACE.append(("normalized", n, seed, norm(full)))
            call(("full-exploitability", n, seed), compute_exploitability, full)


def gym_episodes():
    for n in (3, 4):
        for seed in range(4):
            rnd = random.Random(5 * n + seed)
            values = convex_values(n, rnd, 2.0)
            full = IncompleteCooperativeGame(n)
            full.set_values(values)
            incomplete = IncompleteCooperativeGame(n, BOUNDS["superadditive_cached" if seed % 2 else "superadditive"])
            known = [Coalition(2**i) for i in range(n)] + [Coalition(1), Coalition(0)]
            gap = [compute_exploitability, l1_norm, compute_exploitability, linf_norm][seed]
            env = ICG_Gym(incomplete, lambda: full.copy(), known, gap, done_after_n_actions=None if seed < 2 else 3)
            label = ("gym", n, seed)
            TRACE.append((label, "explorable", [c.id for c in env.explorable_coalitions]))
            TRACE.append((label, "initially-known", sorted(c.id for c in env.initially_known_coalitions)))
            call(label + ("reset",), lambda: env.reset()[0])
            actions = list(range(len(env.explorable_coalitions)))
            rnd.shuffle(actions)
            for a in actions:
                call(label + ("step", a), env.step, a)
                TRACE.append((label, a, norm(env.incomplete_game)))
            for a in actions[:2]:
                call(label + ("unstep", a), env.unstep, a)


def module_facts():
    names = ['Coalition', 'Game', 'IncompleteGame', 'Iterable', 'Iterator', 'Player', 'T', 'TypeVar', 'all_coalitions',
             'annotations', 'disjoint_coalitions', 'exclude_coalition', 'get_known_coalitions', 'get_sub_coalitions',
             'get_super_coalitions', 'grand_coalition', 'minimal_game_coalitions', 'player_to_coalition', 'powerset']
    TRACE.append(("coalitions names", [(k, hasattr(coalitions_module, k)) for k in names]))
    names = ['Coalition', 'IncompleteGame', 'Iterable', 'MaxGainGame', 'Player', 'Value', 'Values', 'all_coalitions',
             'annotations', 'compute_exploitability', 'compute_shapley_value_for_player', 'grand_coalition', 'np']
    TRACE.append(("exploitability names", [(k, hasattr(exploitability_module, k)) for k in names]))
    TRACE.append(("pickles", pickle.dumps(Coalition(5), protocol=4), pickle.dumps(compute_exploitability),
                  pickle.dumps(coalitions_module.grand_coalition), pickle.dumps(Coalition),
                  pickle.dumps(MaxGainGame(IncompleteCooperativeGame(2), 0), protocol=4)))
    TRACE.append(("coalition dict", sorted(vars(Coalition(3))), sorted(k for k in vars(Coalition) if not k.startswith("__"))))
    TRACE.append(("hashable", Coalition.__hash__ is not None, hash(Coalition(7)) == hash(7)))


module_facts()
coalition_algebra()
coalition_factories()
exploitability_cases()
reveal_paths()
gym_episodes()
with open(sys.argv[2], "wb") as f:
    pickle.dump(TRACE, f, protocol=4)
print(len(TRACE))
'''


def run(tree, driver, out, tmp):
    env = dict(os.environ, PYTHONPATH=tree, PYTHONHASHSEED="0", OMP_NUM_THREADS="1", PYTHONDONTWRITEBYTECODE="1")
    res = subprocess.run([PYTHON, driver, tree, out], cwd=tmp, env=env, capture_output=True, text=True)
    if res.returncode != 0:
        print(res.stdout)
        print(res.stderr)
        raise SystemExit(f"driver failed on {tree} (exit status {res.returncode})")
    return int(res.stdout.strip().splitlines()[-1])


def first_difference(a, b, path=()):
    if type(a) is not type(b):
        return path, a, b
    if isinstance(a, (list, tuple)):
        if len(a) != len(b):
            return path + ("len",), len(a), len(b)
        for i, (x, y) in enumerate(zip(a, b)):
            d = first_difference(x, y, path + (i,))
            if d is not None:
                return d
        return None
    return None if a == b else (path, a, b)


def main():
    with tempfile.TemporaryDirectory(prefix="x07_equiv3_") as tmp:
        orig = os.path.join(tmp, "orig")
        os.mkdir(orig)
        archive = subprocess.run(["git", "-C", GIT_TREE, "archive", "HEAD", "incomplete_cooperative"],
                                 check=True, capture_output=True).stdout
        subprocess.run(["tar", "-x", "-C", orig], input=archive, check=True)
        driver = os.path.join(tmp, "driver.py")
        with open(driver, "w") as f:
            f.write(DRIVER)
        out_a, out_b = os.path.join(tmp, "a.pkl"), os.path.join(tmp, "b.pkl")
        n_a = run(orig, driver, out_a, tmp)
        n_b = run(WORKTREE, driver, out_b, tmp)
        with open(out_a, "rb") as f:
            bytes_a = f.read()
        with open(out_b, "rb") as f:
            bytes_b = f.read()
        trace_a, trace_b = pickle.loads(bytes_a), pickle.loads(bytes_b)
        diff = first_difference(trace_a, trace_b)
        if diff is not None or n_a != n_b:
            print("DIFFERENT", n_a, n_b)
            if diff is not None:
                path, a, b = diff
                print("at", path)
                if path and isinstance(path[0], int) and path[0] < len(trace_a):
                    print("record (original):  ", repr(trace_a[path[0]])[:600])
                    print("record (refactored):", repr(trace_b[path[0]])[:600])
                print("original:  ", repr(a)[:300])
                print("refactored:", repr(b)[:300])
            return 1
        n_exc = sum(1 for rec in trace_a if isinstance(rec[-1], tuple) and rec[-1][:1] == ("exc",))
        print(f"IDENTICAL: {n_a} records ({n_exc} of them exceptions), byte-equal pickles: {bytes_a == bytes_b}")
        return 0


if __name__ == "__main__":
    sys.exit(main())
