"""Differential test for refactoring 3 (solvers: registry filled by dict(zip(...)); largest-coalition rule as one max(key=...)).

Run with cwd=/tmp/wt12/W08.  The ORIGINAL package is exported from git HEAD into a temporary directory; the same
scenario script (this file, `worker` mode) is executed once against the original and once against the working tree,
each in its own interpreter, and the pickled traces are compared exactly.
"""
import os
import pickle
import subprocess
import sys
import tempfile
from pathlib import Path

import numpy as np

WORKTREE = Path.cwd()
PYTHON = sys.executable


# --------------------------------------------------------------------------------------------------------------------
# worker: produce a trace
# --------------------------------------------------------------------------------------------------------------------
def _exc(e: BaseException):
    return ("EXC", type(e).__name__, str(e))


def _call(fn, *args, **kwargs):
    try:
        return fn(*args, **kwargs)
    except Exception as e:  # noqa
        return _exc(e)


def _norm(x):
    """Turn a result into something picklable and comparable without the package classes."""
    if isinstance(x, dict):
        return {"__dict__": [(k, _norm(v)) for k, v in x.items()]}
    if isinstance(x, tuple):
        return ("__tuple__", type(x).__name__, [_norm(v) for v in x])
    if isinstance(x, list):
        return [_norm(v) for v in x]
    if isinstance(x, np.ndarray):
        return ("__nd__", str(x.dtype), x.shape, x.copy())
    if isinstance(x, (np.generic,)):
        return ("__np__", type(x).__name__, x.item() if not np.isnan(x) else "nan")
    if isinstance(x, (bool, int, float, str, type(None))):
        return (type(x).__name__, x if not (isinstance(x, float) and x != x) else "nan")
    if hasattr(x, "get_values"):  # a game
        return ("__game__", type(x).__name__, _norm(np.asarray(x.get_values())))
    return ("__obj__", type(x).__name__, repr(x))


def _gym_fingerprint(env):
    """Everything observable about an `ICG_Gym` (to see that solvers leave it alone - or disturb it identically)."""
    ig = env.incomplete_game
    return _norm([
        env.steps_taken,
        np.asarray(ig._values).copy(),
        np.asarray(env.full_game.get_values()), np.asarray(env.normalized_game.get_values()),
        _call(lambda: env.state), _call(lambda: env.reward), _call(lambda: env.done), _call(env.action_masks),
        None if env._np_random is None else env._np_random.bit_generator.state["state"]["state"],
    ])


def worker(out_path: str, expected_root: str) -> None:
    import incomplete_cooperative
    assert Path(incomplete_cooperative.__file__).resolve().is_relative_to(Path(expected_root).resolve()), \
        (incomplete_cooperative.__file__, expected_root)
    import functools
    import random as py_random

    import incomplete_cooperative.generators as generators_module
    import incomplete_cooperative.solvers as solvers_module
    from incomplete_cooperative.bounds import compute_bounds_superadditive
    from incomplete_cooperative.coalitions import Coalition, all_coalitions
    from incomplete_cooperative.evaluation import evaluate
    from incomplete_cooperative.exploitability import compute_exploitability
    from incomplete_cooperative.game import IncompleteCooperativeGame
    from incomplete_cooperative.generators import GENERATORS
    from incomplete_cooperative.icg_gym import ICG_Gym
    from incomplete_cooperative.norms import l1_norm
    from incomplete_cooperative.run.model import ModelInstance
    from incomplete_cooperative.solvers import SOLVERS

    # the graph generators draw from an unseeded module-level generator: pin its state so both runs see the same games
    generators_module._gen.bit_generator.state = np.random.default_rng(20240917).bit_generator.state
    py_random.seed(4242)  # `RandomSolver(None)` seeds itself from the OS, but keep the global stream pinned anyway

    trace = []
    cases = 0

    # (R) the registry itself
    def describe(factory):
        if isinstance(factory, functools.partial):
            return ("partial", factory.func.__module__, factory.func.__qualname__, _norm(list(factory.args)),
                    _norm(dict(factory.keywords)))
        return (type(factory).__name__, getattr(factory, "__module__", None), getattr(factory, "__qualname__", None))

    trace.append(("R", list(SOLVERS.keys()), [describe(v) for v in SOLVERS.values()], type(SOLVERS).__name__,
                  len(SOLVERS), [k for k in SOLVERS], sorted(solvers_module.__dict__["__annotations__"].keys()),
                  [isinstance(v, type) for v in SOLVERS.values()],
                  list(pickle.loads(pickle.dumps(SOLVERS)).keys()),
                  [describe(v) for v in pickle.loads(pickle.dumps(SOLVERS)).values()],
                  [n for n in ("GreedySolver", "LargestSolver", "RandomSolver", "SOLVERS", "partial", "Solver")
                   if hasattr(solvers_module, n)]))

    def make_solver(name, instance):
        solver = _call(SOLVERS[name], instance)
        return solver

    def drive(env, name, instance, driver, tag, follow_prob):
        """Play an episode; at every state ask the solver, then move by its answer or by a random valid action."""
        nonlocal cases
        solver = make_solver(name, instance)
        if isinstance(solver, tuple):
            trace.append((tag, "construct", solver))
            return
        trace.append((tag, "type", type(solver).__name__, _norm(getattr(solver, "worst", "n/a"))))
        for r in range(2):
            trace.append((tag, "reset", r, _norm(_call(env.reset)), _norm(_call(solver.after_reset, env))))
            for t in range(len(env.explorable_coalitions) + 2):
                before = _gym_fingerprint(env)
                action = _call(solver.next_step, env)
                after = _gym_fingerprint(env)
                trace.append((tag, "next_step", r, t, _norm(action), before, after))
                cases += 1
                mask = env.action_masks()
                if not mask.any():
                    break
                if isinstance(action, tuple) or driver.random() > follow_prob:
                    action = int(driver.choice(np.flatnonzero(mask)))
                trace.append((tag, "step", r, t, _norm(_call(env.step, action))))

    # (A) package-built environments, every registry entry
    generators = ["factory", "factory_fixed", "noisy_factory", "factory_cheerleader", "graph", "predictible_factory",
                  "factory_one"]
    for gi, gen in enumerate(generators):
        for n in (3, 4):
            for seed in (1, 7, 99):
                for name in SOLVERS:
                    inst = ModelInstance(number_of_players=n, game_generator=gen, seed=seed,
                                         gap_function="exploitability" if seed != 7 else "l1_norm")
                    env = inst.get_env()
                    drive(env, name, inst if seed != 99 else None, np.random.default_rng([gi, n, seed]),
                          ("A", gen, n, seed, name), follow_prob=[1.0, 0.5, 0.0][(gi + n + seed) % 3])

    # (B) tie-heavy games (value = size squared) and odd sets of initially known coalitions
    def build(n, known_ids, limit=None):
        incomplete = IncompleteCooperativeGame(n, compute_bounds_superadditive)
        full = IncompleteCooperativeGame(n, compute_bounds_superadditive)
        for coalition in all_coalitions(full):
            full.set_value(len(coalition) ** 2, coalition)
        env = ICG_Gym(incomplete, lambda: full.copy(), [Coalition(i) for i in known_ids], compute_exploitability, limit)
        env.np_random = np.random.default_rng(n * 1000 + len(known_ids))
        return env

    for n in (2, 3, 4, 5):
        ids = list(range(2 ** n))
        for variant in range(5):
            drv = np.random.default_rng([55, n, variant])
            if variant == 0:
                known = [2 ** i for i in range(n)]
            elif variant == 1:
                known = []
            elif variant == 2:
                known = ids  # nothing to reveal: every solver is asked in a state without valid actions
            else:
                known = [i for i in ids if drv.random() < 0.35 or bin(i).count("1") == 1]
            for name in SOLVERS:
                env = _call(build, n, known, limit=None if variant != 3 else 2)
                if isinstance(env, tuple):
                    trace.append((("B", n, variant, name), "build", env))
                    continue
                inst = ModelInstance(number_of_players=n, seed=variant)
                _call(drive, env, name, inst, drv, ("B", n, variant, name), [1.0, 0.3][variant % 2])

    # (F) duck-typed gyms for the size rule: arbitrary masks over arbitrarily ordered coalitions
    class FakeGym:
        def __init__(self, mask, coalitions):
            self._mask, self.explorable_coalitions, self.calls = mask, coalitions, 0

        def action_masks(self):
            self.calls += 1
            return self._mask

    drv = np.random.default_rng(2024)
    for case in range(400):
        n = int(drv.integers(2, 7))
        m = int(drv.integers(0, 2 ** n))
        coalitions = [Coalition(int(i)) for i in drv.integers(0, 2 ** n, m)]
        density = [0.0, 0.1, 0.5, 1.0][case % 4]
        mask = drv.random(m) < density
        if case % 7 == 0:
            mask = mask.astype(int)  # truthiness of integers
        fake = FakeGym(mask, coalitions if case % 5 else tuple(coalitions))
        for name in ("largest", "random"):
            solver = SOLVERS[name](ModelInstance(seed=case))
            trace.append(("F", case, name, _norm(_call(solver.next_step, fake)), fake.calls))
            cases += 1

    # (E) the route of the `solve` command
    for name in SOLVERS:
        for n in (3, 4):
            for seed in (3, 11):
                for gen in ("factory", "noisy_factory"):
                    inst = ModelInstance(number_of_players=n, game_generator=gen, seed=seed, run_steps_limit=4)
                    solver = SOLVERS[name](inst)
                    res = _call(evaluate, solver.next_step, inst.get_env, 3, inst.run_steps_limit,
                                inst.gap_function_callable, 1, solver.after_reset)
                    trace.append(("E", name, n, seed, gen, _norm(res)))
                    cases += 1

    with open(out_path, "wb") as f:
        pickle.dump({"trace": trace, "cases": cases}, f)


# --------------------------------------------------------------------------------------------------------------------
# driver: compare the traces
# --------------------------------------------------------------------------------------------------------------------
def same(a, b, path=()):
    """Return None if identical, else the path of the first difference."""
    if type(a) is not type(b):
        return path, a, b
    if isinstance(a, np.ndarray):
        if a.dtype != b.dtype or a.shape != b.shape:
            return path, a, b
        ok = np.array_equal(a, b, equal_nan=True) if a.dtype.kind in "fc" else np.array_equal(a, b)
        return None if ok else (path, a, b)
    if isinstance(a, (list, tuple)):
        for i, (x, y) in enumerate(zip(a, b)):
            d = same(x, y, path + (i,))
            if d is not None:
                return d
        if len(a) != len(b):
            return path + ("len",), len(a), len(b)
        return None
    if isinstance(a, dict):
        if list(a.keys()) != list(b.keys()):
            return path + ("keys",), list(a), list(b)
        for k in a:
            d = same(a[k], b[k], path + (k,))
            if d is not None:
                return d
        return None
    return None if a == b else (path, a, b)


def run_worker(root: Path, out: Path) -> None:
    env = dict(os.environ, PYTHONPATH=str(root), OMP_NUM_THREADS="1", MKL_NUM_THREADS="1", PYTHONHASHSEED="0", PYTHONDONTWRITEBYTECODE="1")
    subprocess.run([PYTHON, str(Path(__file__).resolve()), "worker", str(out), str(root)],
                   cwd=str(root), env=env, check=True)


def main() -> int:
    with tempfile.TemporaryDirectory(prefix="equiv_orig_") as tmp:
        tmp_path = Path(tmp)
        orig_root = tmp_path / "orig"
        orig_root.mkdir()
        archive = subprocess.run(["git", "-C", str(WORKTREE), "archive", "HEAD", "incomplete_cooperative"],
                                 check=True, capture_output=True).stdout
        subprocess.run(["tar", "-x", "-C", str(orig_root)], input=archive, check=True)
        changed = subprocess.run(["git", "-C", str(WORKTREE), "diff", "--stat", "HEAD"], check=True,
                                 capture_output=True, text=True).stdout
        print("working tree differs from HEAD in:\n" + (changed or "  (nothing!)\n"), end="")
        run_worker(orig_root, tmp_path / "orig.pkl")
        run_worker(WORKTREE, tmp_path / "new.pkl")
        with open(tmp_path / "orig.pkl", "rb") as f:
            orig = pickle.load(f)
        with open(tmp_path / "new.pkl", "rb") as f:
            new = pickle.load(f)
    print(f"cases: {orig['cases']} (orig) / {new['cases']} (refactored); trace entries: {len(orig['trace'])}")
    diff = same(orig, new)
    if diff is None and orig["cases"] >= 300:
        print("EQUIVALENT")
        return 0
    print("DIFFERENT")
    if diff is not None:
        path, a, b = diff
        print("first difference at", path)
        if len(path) >= 2 and path[0] == "trace" and isinstance(path[1], int):
            print("entry (orig):", orig["trace"][path[1]][:5])
        print("orig:", a)
        print("new :", b)
    return 1


if __name__ == "__main__":
    if len(sys.argv) > 1 and sys.argv[1] == "worker":
        worker(sys.argv[2], sys.argv[3])
    else:
        sys.exit(main())
