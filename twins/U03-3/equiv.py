"""Differential test for refactoring 3 (game.py: attrgetter instead of lambdas, tuple-unpacking negation, if/else get_known_value).

Run with cwd=/tmp/wt10/U03.  Loads the ORIGINAL package from git HEAD under the name `icg_orig`
and the working-tree package as `incomplete_cooperative`.  Random sequences of public operations are applied
to a game of each package; after every operation the returned value (or the exception type and message)
and the complete (known, lower, upper) table are compared bit for bit.
"""
import importlib
import io
import os
import re
import subprocess
import sys
import tarfile
import tempfile

import numpy as np

WT = os.getcwd()


def load_original(name="icg_orig"):
    tmp = tempfile.mkdtemp(prefix="equiv_orig_")
    data = subprocess.run(["git", "-C", WT, "archive", "HEAD", "incomplete_cooperative"],
                          check=True, capture_output=True).stdout
    tarfile.open(fileobj=io.BytesIO(data)).extractall(tmp)
    os.rename(os.path.join(tmp, "incomplete_cooperative"), os.path.join(tmp, name))
    for root, _, files in os.walk(os.path.join(tmp, name)):
        for f in files:
            if f.endswith(".py"):
                p = os.path.join(root, f)
                s = open(p).read()
                s2 = re.sub(r"\bincomplete_cooperative\b", name, s)
                if s2 != s:
                    open(p, "w").write(s2)
    sys.path.insert(0, tmp)
    return name


ORIG = load_original()
sys.path.insert(0, WT)


def mods(pkg):
    return {m: importlib.import_module(f"{pkg}.{m}") for m in ("bounds", "game", "coalitions")}


O = mods(ORIG)
N = mods("incomplete_cooperative")
assert O["game"].__file__ != N["game"].__file__
assert N["game"].__file__.startswith(WT)


def norm(x):
    """Turn a result into something comparable across the two packages."""
    if isinstance(x, np.ndarray):
        return ("nd", str(x.dtype), x.shape, x.copy())
    if isinstance(x, (np.generic,)):
        return ("np", type(x).__name__, x)
    if x is None or isinstance(x, (bool, int, float, str)):
        return ("py", type(x).__name__, x)
    if hasattr(x, "_values"):
        return ("game", x.number_of_players, x._values.copy(), x._bounds_computer is not None)
    if isinstance(x, (tuple, list)):
        return ("seq", type(x).__name__, [norm(y) for y in x])
    raise TypeError(type(x))


def same(a, b):
    if type(a) is not type(b):
        return False
    if isinstance(a, (tuple, list)):
        return len(a) == len(b) and all(same(x, y) for x, y in zip(a, b))
    if isinstance(a, np.ndarray):
        return a.dtype == b.dtype and a.shape == b.shape and np.array_equal(a, b, equal_nan=True)
    if isinstance(a, (float, np.floating)):
        return a == b or (a != a and b != b)
    return a == b


class Side:
    """One package, with a main game and a secondary game (for copies, negation, addition, equality)."""

    def __init__(self, m, n, key):
        self.m = m
        self.n = n
        comp = m["bounds"].BOUNDS[key] if key else None
        self.game = m["game"].IncompleteCooperativeGame(n, comp) if comp else m["game"].IncompleteCooperativeGame(n)
        self.other = self.game.copy()

    def C(self, i):
        return self.m["coalitions"].Coalition(i)

    def coals(self, ids, form):
        if ids is None:
            return None
        lst = [self.C(i) if not (isinstance(i, tuple)) else i[0] for i in ids]  # ("raw",) entries are not coalitions
        if form == "list":
            return lst
        if form == "tuple":
            return tuple(lst)
        if form == "gen":
            return (c for c in lst)
        return iter(lst)

    def apply(self, op):
        name, a = op[0], op[1:]
        g = self.game
        if name in ("get_value", "get_known_value", "get_upper_bound", "get_lower_bound", "get_interval",
                    "is_value_known", "unset_value", "unreveal_value"):
            return getattr(g, name)(self.C(a[0]))
        if name in ("set_value", "reveal_value", "set_upper_bound", "set_lower_bound"):
            return getattr(g, name)(a[0], self.C(a[1]))
        if name in ("get_values", "get_known_values", "get_upper_bounds", "get_lower_bounds", "get_intervals",
                    "are_values_known"):
            return getattr(g, name)(self.coals(a[0], a[1]))
        if name in ("set_values", "set_upper_bounds", "set_lower_bounds"):
            return getattr(g, name)(np.array(a[0], dtype=float) if a[3] == "nd" else list(a[0]), self.coals(a[1], a[2]))
        if name == "set_known_values":
            vals = a[0] if a[3] == "list" else (v for v in a[0])
            return g.set_known_values(vals, self.coals(a[1], a[2]))
        if name == "set_known_values_self":   # arguments that are views of / generators over the game itself
            ids = a[0]
            return g.set_known_values(g.get_upper_bounds(self.coals(ids, "list")) if ids is not None else g.get_upper_bounds(),
                                      self.coals(ids, "gen"))
        if name == "copy":
            self.other = g.copy()
            return self.other
        if name == "swap":
            self.game, self.other = self.other, self.game
            return None
        if name == "neg":
            r = -g
            rr = -r
            assert r is not g and r._values is not g._values
            self.other = r
            return [r, rr]
        if name == "eq":
            return g == self.other
        if name == "eq_bad":
            return g == 3
        if name == "add":
            return g + self.other
        if name == "full":
            return g.full
        if name == "compute_bounds":
            return g.compute_bounds()
        if name == "repr_known":
            return repr(g)
        raise KeyError(name)


def run(side, op):
    try:
        res = ("ok", norm(side.apply(op)))
    except BaseException as e:  # noqa
        res = ("exc", type(e).__name__, str(e))
    return res, norm(side.game), norm(side.other)


def random_ids(rng, n, allow_bad):
    size = 2**n
    k = int(rng.integers(0, size + 1))
    ids = [int(x) for x in rng.choice(size, k, replace=bool(rng.random() < 0.2))]
    if allow_bad and rng.random() < 0.08 and ids:
        ids[int(rng.integers(len(ids)))] = [size, size + 5, -1, -size - 1, (7,), ("x",)][int(rng.integers(6))]
    return ids


def random_value(rng):
    r = rng.random()
    if r < 0.4:
        return float(rng.integers(-5, 9))
    if r < 0.9:
        return float(rng.normal() * 3)
    return [float("nan"), float("inf"), -0.0, 1e300][int(rng.integers(4))]


def random_op(rng, n):
    size = 2**n
    single = ["get_value", "get_known_value", "get_upper_bound", "get_lower_bound", "get_interval",
              "is_value_known", "unset_value", "unreveal_value"]
    single_set = ["set_value", "reveal_value", "set_upper_bound", "set_lower_bound"]
    multi_get = ["get_values", "get_known_values", "get_upper_bounds", "get_lower_bounds", "get_intervals",
                 "are_values_known"]
    multi_set = ["set_values", "set_upper_bounds", "set_lower_bounds"]
    forms = ["list", "tuple", "gen", "iter"]
    r = rng.random()
    cid = int(rng.integers(0, size)) if rng.random() > 0.04 else int(size + rng.integers(0, 3))
    if r < 0.2:
        return (single[int(rng.integers(len(single)))], cid)
    if r < 0.4:
        return (single_set[int(rng.integers(len(single_set)))], random_value(rng), cid)
    if r < 0.55:
        ids = None if rng.random() < 0.3 else random_ids(rng, n, True)
        return (multi_get[int(rng.integers(len(multi_get)))], ids, forms[int(rng.integers(4))])
    if r < 0.75:
        ids = None if rng.random() < 0.3 else random_ids(rng, n, True)
        k = size if ids is None else len(ids)
        if rng.random() < 0.1:
            k = max(0, k + int(rng.integers(-1, 2)))   # size mismatch
        vals = [random_value(rng) for _ in range(k)]
        return (multi_set[int(rng.integers(3))], vals, ids, forms[int(rng.integers(4))], ["nd", "list"][int(rng.integers(2))])
    if r < 0.82:
        ids = None if rng.random() < 0.3 else random_ids(rng, n, True)
        k = size if ids is None else len(ids)
        if rng.random() < 0.1:
            k = max(0, k + int(rng.integers(-1, 2)))
        vals = [random_value(rng) for _ in range(k)]
        return ("set_known_values", vals, ids, forms[int(rng.integers(4))], ["list", "gen"][int(rng.integers(2))])
    if r < 0.85:
        return ("set_known_values_self", None if rng.random() < 0.3 else random_ids(rng, n, False))
    rest = ["copy", "swap", "neg", "eq", "eq_bad", "add", "full", "compute_bounds", "repr_known"]
    return (rest[int(rng.integers(len(rest)))],)


def main():
    keys = [None] + list(N["bounds"].BOUNDS)
    assert keys[1:] == list(O["bounds"].BOUNDS)
    ops_run = 0
    stats = {"ok": 0, "exc": 0}
    seqs = 0
    for seed in range(40):
        rng = np.random.default_rng(31337 + seed)
        for n in (3, 1, 4, 2, 5, 3):
            key = keys[(seed + n) % len(keys)]
            if key in ("sam_apx_100", "sam_apx_1000") and n > 3:
                key = "sam_apx_1"
            a, b = Side(O, n, key), Side(N, n, key)
            seqs += 1
            history = []
            for step in range(45):
                op = random_op(rng, n)
                if op[0] == "compute_bounds" and rng.random() < 0.7:
                    # make the preconditions of the bound computers hold most of the time
                    pre = ("set_values", [float(bin(i).count("1")) ** 2 for i in [0, 2**n - 1] + [2**i for i in range(n)]],
                           [0, 2**n - 1] + [2**i for i in range(n)], "list", "nd")
                    todo = [pre, op]
                else:
                    todo = [op]
                for o in todo:
                    history.append(o)
                    ra, rb = run(a, o), run(b, o)
                    ops_run += 1
                    stats[ra[0][0]] += 1
                    if not same(ra, rb):
                        print("DIFFERENT")
                        print(f"seed={seed} n={n} bounds={key} step={step}")
                        print("history:", history)
                        print("original  :", ra)
                        print("refactored:", rb)
                        return 1
    print(f"{seqs} operation sequences, {ops_run} operations compared; outcomes of the original: {stats}")
    print("EQUIVALENT")
    return 0


if __name__ == "__main__":
    sys.exit(main())
