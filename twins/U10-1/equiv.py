"""Differential test for refactoring 1 (run/save.py: `save_json` and `save`).

Run with cwd=/tmp/wt10/U10.  The ORIGINAL package is materialised from `git show HEAD:<path>` into a temporary
directory, the REFACTORED one is the worktree.  The same driver (this file with `--driver`) is run in a subprocess against
each of the two trees, from a fresh scratch directory (relative paths, so that messages of exceptions are comparable), and
the two pickled traces are compared exactly.
"""
from __future__ import annotations

import hashlib
import os
import pickle
import subprocess
import sys
import tempfile
from pathlib import Path

WORKTREE = Path("/tmp/wt10/U10")
PYTHON = "/venv/bin/python"


# --------------------------------------------------------------------------------------------------------------------
# driver: runs inside a subprocess, against whichever `incomplete_cooperative` is first on PYTHONPATH
# --------------------------------------------------------------------------------------------------------------------
def driver(out_file: str, expected_root: str) -> None:
    import json
    import shutil
    from argparse import Namespace
    from functools import partial
    from unittest.mock import patch

    import matplotlib
    matplotlib.use("Agg")
    import numpy as np

    import incomplete_cooperative
    assert Path(incomplete_cooperative.__file__).resolve().is_relative_to(Path(expected_root).resolve()), \
        incomplete_cooperative.__file__
    from incomplete_cooperative.run import save as save_mod
    from incomplete_cooperative.run.save import (Output, get_outputs_from_file,
                                                 save, save_json)

    trace: list = []
    audit: list = []
    audit_on = [False]

    def hook(event, args):
        if not audit_on[0]:
            return
        if event == "open":
            p = args[0]
            if isinstance(p, (str, bytes)) and not os.fsdecode(p).startswith("/"):
                audit.append(("open", os.fsdecode(p), args[1], args[2]))
        elif event in ("os.rename", "os.mkdir", "os.remove", "os.truncate"):
            audit.append((event,) + tuple(os.fsdecode(a) if isinstance(a, (str, bytes)) else a for a in args))

    sys.addaudithook(hook)

    def eval_like(*a, **k):  # repr contains "eval"
        return None

    def other(*a, **k):
        return None

    def rand_output(rng: np.random.Generator) -> Output:
        steps = int(rng.integers(0, 5))
        reps = int(rng.integers(1, 5))
        kind = int(rng.integers(0, 6))
        data = rng.normal(size=(steps + 1, reps)) * 10 ** int(rng.integers(-8, 8))
        if kind == 0:
            data[rng.random(data.shape) < 0.3] = np.nan
        elif kind == 1:
            data[rng.random(data.shape) < 0.2] = np.inf
            data[rng.random(data.shape) < 0.2] = -np.inf
        elif kind == 2:
            data = np.round(data).astype(np.int64)
        elif kind == 3:
            data = data.astype(np.float32)
        akind = int(rng.integers(0, 4))
        if akind == 0:  # evaluate(): steps x reps, NaN padded
            actions = rng.integers(0, 32, size=(max(steps, 1), reps)).astype(float)
            actions[rng.random(actions.shape) < 0.3] = np.nan
        elif akind == 1:  # greedy: n x 1 integers
            actions = rng.integers(0, 32, size=(steps, 1))
        elif akind == 2:  # greedy with no step
            actions = np.reshape(np.array([]), (0, 1))
        else:  # best states: (steps+1) x reps x steps, NaN padded
            actions = np.full((steps + 1, reps, steps), np.nan)
            for i in range(steps + 1):
                actions[i, :, :i] = rng.integers(0, 32, size=(reps, i))
        func = [eval_like, other, partial(other, randomize=True), partial(eval_like), "eval", "learn"][int(rng.integers(0, 6))]
        meta = {"func": func, "seed": int(rng.integers(0, 2**40)), "number_of_players": int(rng.integers(3, 7))}
        extra = int(rng.integers(0, 5))
        if extra == 0:
            meta["model_dir"] = Path("some") / "dir"
        elif extra == 1:
            meta["gamma"] = float(rng.random())
            meta["run_steps_limit"] = None
        elif extra == 2:
            meta["weird"] = {1, }
            meta["nested"] = {"a": [1, 2.5, None, Path("x")], "b": {"c": True}}
        elif extra == 3:
            meta["np_value"] = np.float64(rng.random())
            meta["np_int"] = np.int64(3)
        return Output(data, actions, Namespace(**meta))

    def snapshot(root: Path) -> list:
        out = []
        for p in sorted(root.rglob("*")):
            if p.is_dir():
                out.append((str(p), "dir"))
            elif p.suffix == ".png":
                out.append((str(p), "png", hashlib.sha256(p.read_bytes()).hexdigest()))
            else:
                out.append((str(p), "file", p.read_bytes()))
        return out

    def readback(path: Path) -> object:
        try:
            outs = get_outputs_from_file(path)
        except BaseException as e:  # noqa
            return ("exc", type(e).__name__, str(e))
        res = []
        for key, out in outs.items():
            single = Output.from_file(path, key)
            assert np.array_equal(single.data, out.data, equal_nan=True)
            meta = vars(out.parsed_args)
            res.append((key, out.data, out.actions, str(out.data.dtype), str(out.actions.dtype),
                        out.data.shape, out.actions.shape, sorted((k, repr(v)) for k, v in meta.items())))
        return res

    def call(label, fn, *args, root: Path, read: Path | None = None, **kwargs) -> None:
        del audit[:]
        audit_on[0] = True
        try:
            try:
                result = ("ok", fn(*args, **kwargs))
            except BaseException as e:  # noqa - also KeyboardInterrupt / SystemExit on purpose
                result = ("exc", type(e).__name__, str(e))
        finally:
            audit_on[0] = False
        trace.append((label, result, list(audit), snapshot(root), readback(read) if read is not None and read.is_file() else None))

    NAMES = ["run", "run.2", "2024-01-01T10:00:00.123456", "ünï", "a b", "", "x" * 40, "data", "metadata"]
    case = 0

    # ---- A: sequences of save_json -------------------------------------------------------------------------------
    for seed in range(260):
        rng = np.random.default_rng(1000 + seed)
        root = Path(f"A{seed}")
        root.mkdir()
        path = root / ["data.json", "res.v2.json", "noext"][seed % 3]
        for op in range(int(rng.integers(1, 7))):
            pick = rng.random()
            if pick < 0.8:
                name = NAMES[int(rng.integers(0, len(NAMES)))]
            else:
                name = [7, None, 2.5, True, ("t", 1), ["unhashable"], {"d": 1}][int(rng.integers(0, 7))]
            call(("A", seed, op, repr(name)), save_json, path, name, rand_output(rng), root=root, read=path)
            case += 1
        shutil.rmtree(root)

    # ---- B: pre-existing contents of the results file -------------------------------------------------------------
    contents = ["", "{", "[]", "[\"run\"]", "{}", "\"run\"", "\"xrunx\"", "null", "3", "true", "{\"run\": 1}",
                "{\"run\": {\"data\": [[1.0]], \"actions\": [[0]], \"metadata\": {\"run_type\": \"eval\"}}}",
                "{\"other\": {\"data\": [[NaN, Infinity]], \"actions\": [[NaN]], \"metadata\": {\"run_type\": \"learn\"}}}",
                "{\"other\": []}", "﻿{}", "{\"a\": 1} trailing"]
    for i, content in enumerate(contents):
        for which in ("save_json", "save"):
            for name in ("run", "other", 0):
                rng = np.random.default_rng(5000 + i)
                root = Path(f"B{i}{which}{name}")
                root.mkdir()
                (root / "data.json").write_text(content, encoding="utf-8")
                if which == "save_json":
                    call(("B", i, which, name), save_json, root / "data.json", name, rand_output(rng), root=root,
                         read=root / "data.json")
                else:
                    calls: list = []
                    with patch.object(save_mod, "SAVERS", {"data.json": save_json,
                                                           "rec": lambda p, n, o: calls.append((type(p).__name__, str(p), n))}):
                        call(("B", i, which, name), save, root, name, rand_output(rng), root=root, read=root / "data.json")
                    trace.append(("B-calls", calls))
                case += 1
                shutil.rmtree(root)
    # a directory in place of the file, a missing parent, a read-only tmp in the way
    for which in range(4):
        rng = np.random.default_rng(6000 + which)
        root = Path(f"Bx{which}")
        root.mkdir()
        if which == 0:
            (root / "data.json").mkdir()
            call(("Bx", which), save_json, root / "data.json", "run", rand_output(rng), root=root)
        elif which == 1:
            call(("Bx", which), save_json, root / "missing" / "data.json", "run", rand_output(rng), root=root)
        elif which == 2:
            (root / "data.json.tmp").mkdir()
            call(("Bx", which), save_json, root / "data.json", "run", rand_output(rng), root=root)
        else:
            (root / "data.json.tmp").write_text("stale leftovers of an interrupted save")
            call(("Bx", which), save_json, root / "data.json", "run", rand_output(rng), root=root, read=root / "data.json")
        case += 1
        shutil.rmtree(root)

    # ---- C: crashes while saving -----------------------------------------------------------------------------------
    real_dump = json.dump
    real_replace = os.replace

    def make_dump(cut: int, exc: BaseException):
        def dump(obj, fp, **kw):
            text = json.dumps(obj, **kw)
            fp.write(text[:cut])
            fp.flush()
            raise exc
        return dump

    def failing_replace(*a, **k):
        raise OSError(28, "No space left on device")

    for seed in range(120):
        rng = np.random.default_rng(7000 + seed)
        root = Path(f"C{seed}")
        via_save = seed % 2 == 1
        target = root if via_save else root / "data.json"
        recorder = {"data.json": save_json, "rec": lambda p, n, o: None}

        def do(name, output):
            if via_save:
                with patch.object(save_mod, "SAVERS", recorder):
                    return save(root, name, output)
            root.mkdir(exist_ok=True)
            return save_json(target, name, output)

        for op in range(int(rng.integers(2, 6))):
            name = NAMES[int(rng.integers(0, 4))]
            mode = int(rng.integers(0, 5))
            output = rand_output(rng)
            label = ("C", seed, op, name, mode, via_save)
            if mode == 0:
                call(label, do, name, output, root=Path("."), read=root / "data.json")
            elif mode == 1:
                exc = [KeyboardInterrupt(), SystemExit(3), MemoryError(), OSError(5, "I/O error")][int(rng.integers(0, 4))]
                with patch.object(json, "dump", make_dump(int(rng.integers(0, 60)), exc)):
                    call(label, do, name, output, root=Path("."), read=root / "data.json")
            elif mode == 2:
                with patch.object(os, "replace", failing_replace):
                    call(label, do, name, output, root=Path("."), read=root / "data.json")
            elif mode == 3:  # a value that cannot be written: circular metadata (fails in the middle of the dump)
                loop: list = []
                loop.append(loop)
                output.parsed_args.loop = loop
                call(label, do, name, output, root=Path("."), read=root / "data.json")
            else:  # the output itself cannot be turned into a record
                del output.parsed_args.func
                call(label, do, name, output, root=Path("."), read=root / "data.json")
            case += 1
        assert json.dump is real_dump and os.replace is real_replace
        shutil.rmtree(root, ignore_errors=True)

    # ---- D: `save` with recording savers (every saver gets which path, in which order) ----------------------------
    for seed in range(150):
        rng = np.random.default_rng(9000 + seed)
        root = Path(f"D{seed}")
        model_dir = [root, root / "deep" / "er", Path(f"D{seed}") / "." / "x"][seed % 3]
        calls = []

        def rec(tag):
            def saver(p, n, o):
                calls.append((tag, type(p).__name__, str(p), repr(n), o.data.shape))
                if tag == "boom" and rng.random() < 0.3:
                    raise RuntimeError("cannot draw")
            return saver
        savers = {"data.json": save_json, "data_plots": rec("plots"), "chosen.coalitions": rec("boom"), "z": rec("z")}
        if seed % 7 == 0:
            savers = {"first": rec("first"), **savers}
        with patch.object(save_mod, "SAVERS", savers):
            for op in range(int(rng.integers(1, 6))):
                name = NAMES[int(rng.integers(0, 5))] if rng.random() < 0.9 else [3, None, ["u"]][int(rng.integers(0, 3))]
                call(("D", seed, op, repr(name)), save, model_dir, name, rand_output(rng), root=Path("."),
                     read=model_dir / "data.json")
                case += 1
        trace.append(("D-calls", seed, calls))
        shutil.rmtree(root)

    # ---- E: the real savers, plots included ------------------------------------------------------------------------
    for seed in range(24):
        rng = np.random.default_rng(11000 + seed)
        root = Path(f"E{seed}")
        for op in range(3):
            name = NAMES[int(rng.integers(0, 3))]
            output = rand_output(rng)
            call(("E", seed, op, name), save, root / "model", name, output, root=Path("."), read=root / "model" / "data.json")
            case += 1
        shutil.rmtree(root, ignore_errors=True)

    with open(out_file, "wb") as f:
        pickle.dump({"cases": case, "trace": trace}, f)


# --------------------------------------------------------------------------------------------------------------------
# comparison
# --------------------------------------------------------------------------------------------------------------------
def same(a, b) -> bool:
    import numpy as np
    if type(a) is not type(b):
        return False
    if isinstance(a, np.ndarray):
        if a.dtype != b.dtype or a.shape != b.shape:
            return False
        if a.dtype.kind in "fc":
            return bool(np.array_equal(a, b, equal_nan=True)) and bool(np.array_equal(np.signbit(a), np.signbit(b)))
        return bool(np.array_equal(a, b))
    if isinstance(a, (list, tuple)):
        return len(a) == len(b) and all(same(x, y) for x, y in zip(a, b))
    if isinstance(a, dict):
        return list(a.keys()) == list(b.keys()) and all(same(a[k], b[k]) for k in a)
    if isinstance(a, float):
        return a == b or (a != a and b != b)
    return a == b


def materialise_original(dest: Path) -> None:
    names = subprocess.run(["git", "-C", str(WORKTREE), "ls-tree", "-r", "--name-only", "HEAD", "incomplete_cooperative"],
                           check=True, capture_output=True, text=True).stdout.split("\n")
    for name in filter(None, names):
        blob = subprocess.run(["git", "-C", str(WORKTREE), "show", f"HEAD:{name}"], check=True, capture_output=True).stdout
        target = dest / name
        target.parent.mkdir(parents=True, exist_ok=True)
        target.write_bytes(blob)


def run_driver(script: Path, package_root: Path, scratch: Path, out: Path) -> dict:
    scratch.mkdir()
    env = dict(os.environ, PYTHONPATH=str(package_root), OMP_NUM_THREADS="1", MKL_NUM_THREADS="1", MPLBACKEND="Agg",
               PYTHONDONTWRITEBYTECODE="1", PYTHONHASHSEED="0")
    subprocess.run([PYTHON, str(script), "--driver", str(out), str(package_root)], cwd=scratch, env=env, check=True)
    with out.open("rb") as f:
        return pickle.load(f)


def main() -> int:
    script = Path(__file__).resolve()
    with tempfile.TemporaryDirectory(prefix="equiv_U10_") as tmp_name:
        tmp = Path(tmp_name)
        materialise_original(tmp / "orig")
        changed = subprocess.run(["git", "-C", str(WORKTREE), "diff", "--stat"], check=True, capture_output=True, text=True).stdout
        if not changed.strip():
            print("WARNING: the worktree has no change, comparing the original with itself")
        original = run_driver(script, tmp / "orig", tmp / "scratch_orig", tmp / "orig.pkl")
        refactored = run_driver(script, WORKTREE, tmp / "scratch_new", tmp / "new.pkl")
    if original["cases"] != refactored["cases"] or len(original["trace"]) != len(refactored["trace"]):
        print("DIFFERENT: number of cases", original["cases"], refactored["cases"])
        return 1
    for a, b in zip(original["trace"], refactored["trace"]):
        if not same(a, b):
            print("DIFFERENT")
            print("original  :", repr(a)[:3000])
            print("refactored:", repr(b)[:3000])
            return 1
    print(f"{original['cases']} cases, {len(original['trace'])} trace records compared")
    print("EQUIVALENT")
    return 0


if __name__ == "__main__":
    if len(sys.argv) >= 2 and sys.argv[1] == "--driver":
        driver(sys.argv[2], sys.argv[3])
    else:
        sys.exit(main())
