"""Differential test for patch_2 (shapley.py: NamedTuple `_CoalitionPairs` + `_coalition_pairs` split off, unpacked at the caller).

Run with cwd=/tmp/wt12/W04.  Loads the ORIGINAL package from `git show HEAD:<path>` into a temporary directory and the
refactored package from the worktree, runs both on many inputs and compares results exactly.
"""
import importlib
import os
import subprocess
import sys
import tempfile
import warnings
from math import factorial

import numpy as np

WT = os.getcwd()
MODULES = ["coalitions", "protocols", "game", "graph_game", "shapley", "exploitability", "bounds", "generators"]
warnings.simplefilter("ignore")


def _purge():
    for name in [m for m in sys.modules if m == "incomplete_cooperative" or m.startswith("incomplete_cooperative.")]:
        del sys.modules[name]


def _load(root):
    _purge()
    sys.path.insert(0, root)
    try:
        mods = {n: importlib.import_module("incomplete_cooperative." + n) for n in MODULES}
        assert os.path.realpath(mods["shapley"].__file__).startswith(os.path.realpath(root)), mods["shapley"].__file__
    finally:
        sys.path.remove(root)
        _purge()
    return mods


def _materialise_original(tmp):
    files = subprocess.check_output(["git", "-C", WT, "ls-tree", "-r", "--name-only", "HEAD", "incomplete_cooperative"],
                                    text=True).split()
    for path in files:
        if not path.endswith(".py"):
            continue
        target = os.path.join(tmp, path)
        os.makedirs(os.path.dirname(target), exist_ok=True)
        with open(target, "wb") as handle:
            handle.write(subprocess.check_output(["git", "-C", WT, "show", "HEAD:" + path]))


def same(a, b):
    """Exact comparison (type, dtype, shape, bits)."""
    if isinstance(a, BaseException) or isinstance(b, BaseException):
        return type(a) is type(b) and str(a) == str(b)
    if isinstance(a, tuple) and isinstance(b, tuple) or isinstance(a, list) and isinstance(b, list):
        return len(a) == len(b) and all(same(x, y) for x, y in zip(a, b))
    if type(a) is not type(b):
        return False
    if isinstance(a, np.ndarray):
        return a.dtype == b.dtype and a.shape == b.shape and np.array_equal(a, b, equal_nan=a.dtype.kind in "fc") \
            and a.tobytes() == b.tobytes()
    if isinstance(a, (np.floating, float)):
        return np.array_equal(np.asarray(a), np.asarray(b), equal_nan=True) and \
            np.asarray(a).tobytes() == np.asarray(b).tobytes()
    return a == b


def run(fn):
    try:
        return fn()
    except Exception as exc:  # noqa: BLE001
        return exc


def check(label, results):
    orig, new = results
    if not same(orig, new):
        print("DIFFERENT")
        print("case:", label)
        print("original :", repr(orig))
        print("refactored:", repr(new))
        sys.exit(1)


class Recorder:
    """A proxy game that records every call made on it, with the type and content of the arguments."""

    def __init__(self, inner, log):
        self._inner = inner
        self._log = log

    @property
    def number_of_players(self):
        self._log.append(("number_of_players",))
        return self._inner.number_of_players

    def get_values(self, coalitions=None):
        if coalitions is None:
            self._log.append(("get_values", None))
            return self._inner.get_values()
        described = (type(coalitions).__name__, getattr(coalitions, "dtype", None), getattr(coalitions, "shape", None),
                     tuple((type(c).__name__, c.id) for c in coalitions))
        self._log.append(("get_values", described))
        return self._inner.get_values(coalitions)

    def get_value(self, coalition):
        self._log.append(("get_value", coalition.id))
        return self._inner.get_value(coalition)

    def copy(self):  # pragma: no cover
        raise NotImplementedError

    def __add__(self, other):  # pragma: no cover
        raise NotImplementedError


class TableGame:
    """A minimal complete game over an arbitrary table of values (any dtype, including object)."""

    def __init__(self, number_of_players, table):
        self.number_of_players = number_of_players
        self.table = table

    def get_values(self, coalitions=None):
        if coalitions is None:
            return self.table
        return self.table[[c.id for c in coalitions]]

    def get_value(self, coalition):
        return self.table[coalition.id]

    def copy(self):  # pragma: no cover
        raise NotImplementedError

    def __add__(self, other):  # pragma: no cover
        raise NotImplementedError


SPECIALS = np.array([0.0, -0.0, 1.0, -1.0, np.inf, -np.inf, np.nan, 1e308, -1e308, 1e-320, 0.1, 1 / 3, 1e16, -1e16])


def table(n, seed, style):
    rng = np.random.default_rng(seed)
    size = 2**n
    if style == "normal":
        out = rng.normal(size=size) * 10.0 ** rng.integers(-8, 9, size)
    elif style == "uniform":
        out = rng.random(size)
    elif style == "integers":
        out = rng.integers(-9, 10, size).astype(float)
    elif style == "specials":
        out = rng.choice(SPECIALS, size)
    else:
        raise AssertionError(style)
    out[0] = 0.0
    return out


def all_entry_points(mods, game, n, label, log=None):
    """Run every entry point of shapley.py on `game`; return the results (exceptions included)."""
    shapley = mods["shapley"]
    Coalition = mods["coalitions"].Coalition
    out = [("all", run(lambda: list(shapley.compute_shapley_value(game))))]
    for player in list(range(n)) + [n, -1]:
        out.append((f"single {player}", run(lambda: shapley.compute_shapley_value_for_player(player, game))))
    if n >= 1:
        coefficients = shapley._get_contributions(n)
        for player in range(n):
            out.append((f"inner {player}", run(lambda: shapley._shapley_value_for_player(
                Coalition(2**player), game, coefficients, factorial(n)))))
        # non-singleton and empty "singleton" arguments, wrong coefficient tables
        out.append(("inner pair", run(lambda: shapley._shapley_value_for_player(Coalition(3), game, coefficients,
                                                                                factorial(n)))))
        out.append(("inner empty", run(lambda: shapley._shapley_value_for_player(Coalition(0), game, coefficients,
                                                                                 factorial(n)))))
        out.append(("inner short table", run(lambda: shapley._shapley_value_for_player(
            Coalition(1), game, coefficients[:-1], factorial(n)))))
    return out


def compare(versions):
    assert versions[0]["shapley"].__file__ != versions[1]["shapley"].__file__
    assert not hasattr(versions[0]["shapley"], "_coalition_pairs")
    assert hasattr(versions[1]["shapley"], "_coalition_pairs")
    cases = 0

    # 1. fully known IncompleteCooperativeGame, plain and through the recording proxy
    for style in ["normal", "uniform", "integers", "specials"]:
        for n in range(0, 8):
            for seed in range(10 if n < 7 else 3):
                label = f"icg style={style} n={n} seed={seed}"
                values = table(n, seed, style)
                games = []
                for mods in versions:
                    game = mods["game"].IncompleteCooperativeGame(n)
                    game.set_values(values.copy())
                    games.append(game)
                check(label, [all_entry_points(m, g, n, label) for m, g in zip(versions, games)])
                logs = [[], []]
                check(label + " proxy", [all_entry_points(m, Recorder(g, log), n, label)
                                         for m, g, log in zip(versions, games, logs)])
                check(label + " call log", logs)
                check(label + " untouched", [g._values.copy() for g in games])
                cases += 2

    # 2. partially known games: the ValueError of get_values must come at the same point
    for n in range(1, 6):
        for seed in range(15):
            rng = np.random.default_rng(seed)
            values = table(n, seed, "normal")
            known = rng.random(2**n) < 0.8
            label = f"partial n={n} seed={seed}"
            logs = [[], []]
            results = []
            for mods, log in zip(versions, logs):
                game = mods["game"].IncompleteCooperativeGame(n)
                ids = np.flatnonzero(known)
                game.set_values(values[ids], [mods["coalitions"].Coalition(int(i)) for i in ids])
                results.append(all_entry_points(mods, Recorder(game, log), n, label))
            check(label, results)
            check(label + " call log", logs)
            cases += 1

    # 3. every registered generator (the convex one needs the missing pyfmtools package and fails in both)
    names = list(versions[0]["generators"].GENERATORS)
    assert names == list(versions[1]["generators"].GENERATORS)
    for name in names:
        for n in (3, 4, 5):
            for seed in range(3):
                label = f"generator {name} n={n} seed={seed}"
                games = []
                for mods in versions:
                    mods["generators"]._gen.bit_generator.state = np.random.default_rng(seed + 77).bit_generator.state
                    games.append(run(lambda: mods["generators"].GENERATORS[name](n, np.random.default_rng(seed))))
                if any(isinstance(g, BaseException) for g in games):
                    assert all(isinstance(g, BaseException) for g in games), label
                    continue
                check(label + " values", [run(lambda g=g: g.get_values()) for g in games])
                check(label, [all_entry_points(m, g, g.number_of_players, label) for m, g in zip(versions, games)])
                cases += 1

    # 4. max gain games of incomplete games with superadditive bounds (what exploitability feeds to the Shapley code)
    for n in range(2, 6):
        for seed in range(10):
            rng = np.random.default_rng(seed)
            known = rng.random(2**n) < 0.5
            known[[0, 2**n - 1] + [2**i for i in range(n)]] = True
            ids = np.flatnonzero(known)
            label = f"maxgain n={n} seed={seed}"
            results = []
            for mods in versions:
                full = mods["generators"].factory_generator(n, np.random.default_rng(seed), random_weights=True)
                game = mods["game"].IncompleteCooperativeGame(n, mods["bounds"].compute_bounds_superadditive)
                game.set_known_values(full.get_values()[ids], [mods["coalitions"].Coalition(int(i)) for i in ids])
                game.compute_bounds()
                out = [run(lambda: mods["exploitability"].compute_exploitability(game))]
                for player in range(n):
                    out.append(all_entry_points(mods, mods["exploitability"].MaxGainGame(game, player), n, label))
                results.append(out)
            check(label, results)
            cases += 1

    # 5. table games with other value types: int64, float32, object (Fractions), lists are rejected alike
    from fractions import Fraction
    for n in range(1, 6):
        for seed in range(6):
            rng = np.random.default_rng(seed)
            ints = rng.integers(-50, 50, 2**n)
            tables = {
                "int64": ints.astype(np.int64),
                "float32": rng.normal(size=2**n).astype(np.float32),
                "fractions": np.array([Fraction(int(i), 7) for i in ints], dtype=object),
                "short": rng.normal(size=2**n - 1),
                "2d": rng.normal(size=(2**n, 2)),
            }
            for kind, values in tables.items():
                label = f"table {kind} n={n} seed={seed}"
                check(label, [all_entry_points(m, TableGame(n, values), n, label) for m in versions])
                cases += 1

    # 6. laziness of compute_shapley_value: the game is mutated between the values that are drawn
    for n in range(2, 6):
        for seed in range(5):
            values = table(n, seed, "normal")
            results = []
            for mods in versions:
                game = mods["game"].IncompleteCooperativeGame(n)
                game.set_values(values.copy())
                iterator = mods["shapley"].compute_shapley_value(game)
                out = []
                for step in range(n + 1):
                    out.append(run(lambda: next(iterator)))
                    game._values[:, 1:] *= 1.5
                    game._values[step % 2**n, 1:] += 1.0
                results.append(out)
            check(f"lazy n={n} seed={seed}", results)
            cases += 1

    # 7. objects that are not games
    for bad in (None, 3, "game", object()):
        check(f"bad game {bad!r}", [[run(lambda: list(m["shapley"].compute_shapley_value(bad))),
                                     run(lambda: m["shapley"].compute_shapley_value_for_player(0, bad))]
                                    for m in versions])
        cases += 1
    print(f"EQUIVALENT ({cases} cases)")


def main():
    with tempfile.TemporaryDirectory() as tmp:
        _materialise_original(tmp)
        versions = [_load(tmp), _load(WT)]
        compare(versions)


if __name__ == "__main__":
    main()
