#!/usr/bin/env python
"""Differential test for refactoring 1 (regret.py: extracted helper in regret_min_iteration).

Run with cwd=/tmp/wt9/T09.  The ORIGINAL package is materialised from `git show HEAD:<path>` into a temporary
directory; the original and the refactored package are each driven by a worker subprocess (same script, `--worker`)
that executes an identical, seeded list of cases and pickles the normalised results.  The parent compares exactly.
"""
import hashlib
import os
import pickle
import subprocess
import sys
import tempfile

WT = "/tmp/wt9/T09"
TOUCHED = ["incomplete_cooperative/regret.py"]


# ----------------------------------------------------------------------------------------------------------------
# generic harness
# ----------------------------------------------------------------------------------------------------------------
def materialise_original(dest):
    """Write every file of HEAD:incomplete_cooperative into dest using `git show`."""
    names = subprocess.run(["git", "-C", WT, "ls-tree", "-r", "--name-only", "HEAD", "incomplete_cooperative"],
                           check=True, capture_output=True, text=True).stdout.split("\n")
    for name in filter(None, names):
        if "/tests/" in name:
            continue
        data = subprocess.run(["git", "-C", WT, "show", f"HEAD:{name}"], check=True, capture_output=True).stdout
        target = os.path.join(dest, name)
        os.makedirs(os.path.dirname(target), exist_ok=True)
        with open(target, "wb") as f:
            f.write(data)


def norm(x):
    """Turn a result into a picklable canonical form that keeps types, dtypes, shapes and raw bytes."""
    import numpy as np
    if type(x).__name__ == "Coalition" and hasattr(x, "id"):
        return ("Coalition", norm(x.id))
    if isinstance(x, np.ndarray):
        if x.dtype == object:
            return ("ndobj", x.shape, [norm(y) for y in x.ravel().tolist()])
        raw = np.ascontiguousarray(x).tobytes()
        if len(raw) > 2 ** 16:  # big tables (meta_id_to_rank spans 2**25 entries for 5 players): keep a digest only
            return ("ndhash", x.dtype.str, x.shape, hashlib.sha256(raw).hexdigest())
        return ("nd", x.dtype.str, x.shape, raw)
    if isinstance(x, np.generic):
        return ("npscalar", type(x).__name__, x.tobytes())
    if isinstance(x, (list, tuple)):
        return (type(x).__name__, [norm(y) for y in x])
    if isinstance(x, dict):
        return ("dict", [(norm(k), norm(v)) for k, v in x.items()])
    if isinstance(x, float):
        import struct
        return ("float", struct.pack("<d", x))
    if isinstance(x, (bool, int, str, bytes, type(None))):
        return (type(x).__name__, x)
    raise TypeError(f"cannot normalise {type(x)}")


def call(f, *args, **kwargs):
    """Call f and return the normalised result or the normalised exception."""
    try:
        return ("OK", norm(f(*args, **kwargs)))
    except BaseException as e:  # noqa
        return ("EXC", type(e).__name__, str(e))


def describe(x, limit=400):
    """Describe a normalised value for a counterexample."""
    import numpy as np
    if isinstance(x, tuple) and x and x[0] == "nd":
        return f"ndarray(dtype={x[1]}, shape={x[2]}, values={np.frombuffer(x[3], dtype=x[1]).reshape(x[2])!r})"[:limit]
    return repr(x)[:limit]


def main():
    changed = subprocess.run(["git", "-C", WT, "diff", "--name-only"], check=True, capture_output=True,
                             text=True).stdout.split()
    print("files differing from HEAD in the worktree:", changed)
    with tempfile.TemporaryDirectory(prefix="equiv_T09_") as tmp:
        orig_root = os.path.join(tmp, "orig")
        materialise_original(orig_root)
        outs = {}
        for label, root in (("orig", orig_root), ("new", WT)):
            out = os.path.join(tmp, f"{label}.pkl")
            env = dict(os.environ, OMP_NUM_THREADS="1", MKL_NUM_THREADS="1", PYTHONHASHSEED="0",
                       PYTHONDONTWRITEBYTECODE="1")
            env.pop("PYTHONPATH", None)
            proc = subprocess.run([sys.executable, os.path.abspath(__file__), "--worker", root, out], env=env, cwd=tmp)
            if proc.returncode != 0:
                if label == "orig":
                    raise SystemExit("the worker failed on the ORIGINAL source: the harness is broken")
                print("DIFFERENT\nthe worker crashed on the refactored source only (traceback above), exit status",
                      proc.returncode)
                sys.exit(1)
            with open(out, "rb") as f:
                outs[label] = pickle.load(f)
    orig, new = outs["orig"], outs["new"]
    if [k for k, _ in orig] != [k for k, _ in new]:
        for (ka, _), (kb, _) in zip(orig, new):
            if ka != kb:
                print("DIFFERENT\nfirst differing case label:", ka, "vs", kb)
                sys.exit(1)
        print("DIFFERENT\nnumber of cases differs:", len(orig), len(new))
        sys.exit(1)
    for (key, a), (_, b) in zip(orig, new):
        if a != b:
            print("DIFFERENT")
            print("case:", key)
            print("original  :", describe(a))
            print("refactored:", describe(b))
            sys.exit(1)
    digest = hashlib.sha256(pickle.dumps(orig)).hexdigest()[:16]
    print(f"{len(orig)} cases compared exactly (types, dtypes, shapes, raw bytes, exceptions); digest {digest}")
    print("EQUIVALENT")


# ----------------------------------------------------------------------------------------------------------------
# the cases
# ----------------------------------------------------------------------------------------------------------------
def worker(root, out):
    sys.path[:] = [root] + [p for p in sys.path if p not in ("", os.getcwd(), WT)]
    import numpy as np
    from itertools import combinations
    from pathlib import Path

    import incomplete_cooperative
    assert os.path.abspath(incomplete_cooperative.__file__).startswith(os.path.abspath(root) + os.sep), \
        (incomplete_cooperative.__file__, root)
    from incomplete_cooperative import regret as R
    from incomplete_cooperative.coalitions import Coalition
    assert os.path.abspath(R.__file__).startswith(os.path.abspath(root) + os.sep)

    results = []

    def rec(key, value):
        results.append((key, value))

    # module level functions
    for n in range(2, 7):
        for limit in range(0, 5):
            if n == 6 and limit > 2:
                continue
            rec(("meta_ids", n, limit), call(R.metacoalition_ids_by_coalition_size, n, limit))
        rec(("pid_map", n), call(R.get_coalition_player_id_map, n))
    for n in range(0, 30):
        for limit in range(-1, 6):
            rec(("up_to", n, limit), call(R.coalitions_up_to, n, limit))

    def state(rm, full=False):
        tables = [rm.meta_rank_to_id, rm.meta_id_to_rank, rm.coalitions_to_player_ids] if full else []
        return norm([rm.iteration, rm.cumulative_regret, rm.cumulative_strategy, rm.number_of_regret_minimizers,
                     rm.viable_metacoalitions, rm.plus, rm.number_of_players, rm.number_of_coalitions,
                     rm.limit_of_revealed] + tables)

    def dump_dir(path):
        return norm([(name, (Path(path) / name).read_bytes()) for name in sorted(os.listdir(path))])

    configs = [(3, lim) for lim in (1, 2, 3, 4, 60)] + [(4, lim) for lim in (1, 2, 3, 4)] + [(5, lim) for lim in (1, 2, 3)]
    for n, limit in configs:
        for plus in (False, True):
            for seed in range(4):
                rng = np.random.default_rng([n, limit, int(plus), seed])
                key = ("rm", n, limit, plus, seed)
                try:
                    rm = R.GameRegretMinimizer(n, limit, plus=plus)
                except BaseException as e:  # noqa
                    rec(key + ("construct",), ("EXC", type(e).__name__, str(e)))
                    continue
                rec(key + ("construct",), ("OK", state(rm, full=True)))
                n_coal = rm.number_of_coalitions
                depth = min(limit, n_coal)
                pid_to_coal = {int(pid): cid for cid, pid in enumerate(rm.coalitions_to_player_ids) if pid >= 0}
                leaves = [[Coalition(pid_to_coal[p]) for p in combo] for combo in combinations(range(n_coal), depth)]
                # a handful of inner nodes that are queried after every iteration
                inner = [[]] + [[Coalition(pid_to_coal[p]) for p in combo]
                               for d in range(1, depth) for combo in list(combinations(range(n_coal), d))[:3]]
                for it in range(5):
                    mode = (seed + it) % 4
                    if mode == 0:      # every leaf, float losses
                        used = leaves
                        losses = rng.random(len(used))
                    elif mode == 1:    # a random subset of the leaves in random order, some zero losses
                        idx = rng.permutation(len(leaves))[:max(1, len(leaves) // 2)]
                        used = [leaves[i] for i in idx]
                        losses = rng.random(len(used)) * (rng.random(len(used)) > 0.3)
                    elif mode == 2:    # integer losses, leaves extended by non-viable coalitions (ignored by the id)
                        used = [leaf + [Coalition(0), Coalition(1), Coalition(2 ** n - 1)] for leaf in leaves]
                        losses = rng.integers(0, 5, size=len(used))
                    else:              # large float32 losses
                        used = leaves
                        losses = (rng.random(len(used)) * 1e6).astype(np.float32)
                    rec(key + ("iter", it), call(rm.regret_min_iteration, losses, used))
                    rec(key + ("state", it), ("OK", state(rm)))
                    for j, node in enumerate(inner):
                        rec(key + ("avg", it, j), call(rm.get_average_strategy, node))
                        rec(key + ("rms", it, j), call(rm.regret_matching_strategy, node))
                        rec(key + ("rms_int", it, j), call(rm.regret_matching_strategy,
                                                           int(rm.get_metacoalition_id(node))))
                    if it == 2:        # save, load and continue with the loaded minimiser
                        with tempfile.TemporaryDirectory() as d:
                            rec(key + ("save", it), call(rm.save, Path(d) / "sub"))
                            rec(key + ("files", it), ("OK", dump_dir(Path(d) / "sub")))
                            rm = R.GameRegretMinimizer.load(Path(d) / "sub")
                        rec(key + ("loaded", it), ("OK", state(rm, full=True)))
                # wrong input: exceptions have to be the same, and so has the state left behind
                rec(key + ("bad_len",), call(rm.regret_min_iteration, np.ones(len(leaves) + 1), leaves))
                rec(key + ("bad_len_state",), ("OK", state(rm)))
                rec(key + ("empty",), call(rm.regret_min_iteration, np.ones(0), []))
                rec(key + ("empty_state",), ("OK", state(rm)))
                rec(key + ("nan",), call(rm.regret_min_iteration, np.full(len(leaves), np.nan), leaves))
                rec(key + ("nan_state",), ("OK", state(rm)))

    with open(out, "wb") as f:
        pickle.dump(results, f)


if __name__ == "__main__":
    if len(sys.argv) == 4 and sys.argv[1] == "--worker":
        worker(sys.argv[2], sys.argv[3])
    else:
        main()
