#!/usr/bin/env python
"""Differential equivalence check for patch_3 (coalitions.py / regret.py: match statements, json.loads(read_text())).

Usage:  cd <worktree with patch_3 applied> && /venv/bin/python /tmp/twin_out/X04/equiv_3.py [worktree]

The ORIGINAL package is taken from `git archive HEAD incomplete_cooperative`, the refactored one is the worktree
itself.  The same driver runs in two fresh interpreters; every outcome (results, exception type + message, object
state) is turned into a canonical, bit-exact form (arrays as dtype/shape/raw bytes) and compared.  Exit 0 iff equal.
"""
import os
import pickle
import subprocess
import sys
import tempfile
from pathlib import Path

DRIVER = r'''
import hashlib, itertools, os, pickle, shutil, sys
from pathlib import Path
import numpy as np

expected_root, out_path = sys.argv[1], sys.argv[2]
import incomplete_cooperative
assert os.path.realpath(incomplete_cooperative.__file__).startswith(os.path.realpath(expected_root) + os.sep), \
    (incomplete_cooperative.__file__, expected_root)

from incomplete_cooperative.coalitions import Coalition
from incomplete_cooperative import regret as R
from incomplete_cooperative.regret import (GameRegretMinimizer, get_coalition_player_id_map,
                                           metacoalition_ids_by_coalition_size, coalitions_up_to)


def canon(x):
    if isinstance(x, np.ndarray):
        raw = np.ascontiguousarray(x).tobytes()  # bit-exact; large tables are kept as their sha256 digest
        return ("nd", x.dtype.str, x.shape, raw if len(raw) <= 4096 else "sha256:" + hashlib.sha256(raw).hexdigest())
    if isinstance(x, np.generic):
        return ("ns", x.dtype.str, x.tobytes())
    if isinstance(x, float):
        return ("f", x.hex())
    if isinstance(x, (bool, int, str, bytes, type(None))):
        return (type(x).__name__, x)
    if isinstance(x, (list, tuple)):
        return (type(x).__name__, tuple(canon(y) for y in x))
    if isinstance(x, dict):
        return ("dict", tuple((canon(k), canon(v)) for k, v in x.items()))
    if isinstance(x, Coalition):
        return ("Coalition", canon(x.id))
    raise TypeError(f"cannot canonicalise {type(x)}")


LOG = []


def rec(label, fn, *a, **kw):
    try:
        LOG.append((label, "ok", canon(fn(*a, **kw))))
    except BaseException as e:  # noqa
        LOG.append((label, "exc", type(e).__name__, str(e)))


def state(m, tables=False):
    ret = {"it": m.iteration, "regret": m.cumulative_regret.copy(), "strategy": m.cumulative_strategy.copy(),
           "plus": m.plus, "n": m.number_of_players, "N": m.number_of_coalitions, "limit": m.limit_of_revealed,
           "nrm": m.number_of_regret_minimizers, "viable": m.viable_metacoalitions,
           "pid": m.coalitions_to_player_ids, "attrs": sorted(vars(m))}
    if tables or m.meta_id_to_rank.size <= 2048:  # the id -> rank table of (5, 3) has 2^25 entries: hash it rarely
        ret.update(r2i=m.meta_rank_to_id, i2r=m.meta_id_to_rank)
    return ret


# ---- coalitions.py: every operator and helper, all operand kinds
import types
from functools import partial
from incomplete_cooperative import coalitions as C
from incomplete_cooperative.coalitions import (all_coalitions, disjoint_coalitions, exclude_coalition,
                                               get_known_coalitions, get_sub_coalitions, get_super_coalitions,
                                               grand_coalition, minimal_game_coalitions, player_to_coalition)
from incomplete_cooperative.bounds import (compute_bounds_superadditive, compute_bounds_superadditive_cached,
                                           compute_bounds_superadditive_monotone_approx_cached)
from incomplete_cooperative.game import IncompleteCooperativeGame
from incomplete_cooperative.generators import covg_fn_generator, k_budget_generator, factory_generator
from incomplete_cooperative.graph_game import GraphCooperativeGame


class Duck:
    """Has an id, is no Coalition."""

    def __init__(self, id):
        self.id = id

    def __repr__(self):  # no memory address: messages must be comparable between the two interpreters
        return f"Duck({self.id})"


class OnlyPlayers:
    """Has a number of players, is no Game."""

    number_of_players = 3


class SubCoalition(Coalition):
    pass


class MyInt(int):
    pass


rec(("c-public",), lambda: sorted(k for k, v in vars(C).items()
                                  if not k.startswith("_") and getattr(v, "__module__", None) == C.__name__))
rec(("c-importable",), lambda: [hasattr(C, k) for k in (
    "Coalition", "Game", "IncompleteGame", "Iterable", "Iterator", "Player", "T", "TypeVar", "all_coalitions",
    "annotations", "disjoint_coalitions", "exclude_coalition", "get_known_coalitions", "get_sub_coalitions",
    "get_super_coalitions", "grand_coalition", "minimal_game_coalitions", "player_to_coalition", "powerset")])

OPERANDS = ([("coal", i) for i in range(0, 40, 3)] + [("sub", 5), ("npcoal", 6), ("duck", 5)]
            + [("int", i) for i in (0, 1, 2, 5, 9, 70, -1)] + [("bool", True), ("bool", False), ("myint", 3)]
            + [("np64", 2), ("np32", 1), ("float", 2.0), ("str", "a"), ("none", None), ("list", [1]), ("tuple", (0, 1))])


def make(kind, v):
    return {"coal": Coalition, "sub": SubCoalition, "npcoal": lambda x: Coalition(np.int64(x)), "duck": Duck,
            "myint": MyInt, "np64": np.int64, "np32": np.int32}.get(kind, lambda x: x)(v)


def show(x):
    if isinstance(x, Coalition):
        return ("C", type(x).__name__, type(x.id).__name__, canon(x.id))
    if isinstance(x, (list, tuple)):
        return [show(y) for y in x]
    return canon(x)


OPS = {
    "and": lambda a, b: a & b, "or": lambda a, b: a | b, "sub": lambda a, b: a - b, "add": lambda a, b: a + b,
    "eq": lambda a, b: a == b, "ne": lambda a, b: a != b, "req": lambda a, b: b == a, "in": lambda a, b: b in a,
    "disjoint": lambda a, b: disjoint_coalitions(a, b),
}
for lhs in list(range(0, 70, 7)) + [2**40 + 5, np.int64(11), np.int32(6), -1]:
    for kind, v in OPERANDS:
        for opname, op in OPS.items():
            if opname == "disjoint" and kind not in ("coal", "sub", "npcoal", "duck"):
                continue
            rec(("op", repr(lhs), kind, repr(v), opname), lambda: show(op(Coalition(lhs), make(kind, v))))
    c = Coalition(lhs)
    rec(("hash", repr(lhs)), lambda: hash(c))
    rec(("pickle", repr(lhs)), pickle.dumps, c, 4)
    if not isinstance(lhs, (int, np.integer)) or lhs >= 0:
        rec(("len", repr(lhs)), len, c)
        rec(("players", repr(lhs)), lambda: list(c.players))
        rec(("inverted", repr(lhs)), lambda: show(c.inverted(7)))
        rec(("inverted-game", repr(lhs)), lambda: show(c.inverted(IncompleteCooperativeGame(7))))
rec(("in-list",), lambda: [Coalition(3) in [Coalition(1), Coalition(3)], Coalition(3) in [1, 3], 3 in [Coalition(3)],
                           {Coalition(3): 1}[Coalition(3)], len({Coalition(3), Coalition(3), Coalition(4)})])
rec(("from_players",), lambda: [show(Coalition.from_players(p)) for p in
                                ([], [0], [1, 1, 3], (5, 2), range(4), {3, 4}, iter([6]), np.arange(3), [True, 2])])

games = {"icg4": IncompleteCooperativeGame(4), "icg0": IncompleteCooperativeGame(0),
         "graph3": GraphCooperativeGame(np.ones((3, 3))), "factory5": factory_generator(5, owner=0)}
PLAYERS_ARGS = [("int", i) for i in (0, 1, 2, 3, 5, -1, -2)] + [(k, None) for k in games] + [
    ("bool", True), ("np64", 3), ("float", 2.0), ("str", "3"), ("none", None), ("onlyplayers", None), ("myint", 2)]
for kind, v in PLAYERS_ARGS:
    def arg():
        return games[kind] if kind in games else OnlyPlayers() if kind == "onlyplayers" else make(kind, v)
    rec(("grand", kind, repr(v)), lambda: show(grand_coalition(arg())))
    rec(("all", kind, repr(v)), lambda: show(list(all_coalitions(arg()))))
    rec(("all-type", kind, repr(v)), lambda: type(all_coalitions(arg())).__name__)
    rec(("minimal", kind, repr(v)), lambda: show(list(minimal_game_coalitions(arg()))))

    def partial_minimal():
        it = minimal_game_coalitions(arg())
        return show([next(it), next(it)])
    rec(("minimal-lazy", kind, repr(v)), partial_minimal)
for cid in range(0, 32, 5):
    rec(("subs", cid), lambda: show(list(get_sub_coalitions(Coalition(cid)))))
    rec(("supers", cid), lambda: show(list(get_super_coalitions(Coalition(cid), 5))))
    rec(("exclude", cid), lambda: show(list(exclude_coalition(Coalition(cid), all_coalitions(5)))))
g = factory_generator(4, owner=1)
for cid in (3, 5, 6, 9):
    g.unset_value(Coalition(cid))
rec(("known",), lambda: show(list(get_known_coalitions(g))))

# ---- code that lives on these operators: bounds of incomplete games, histories of reveals
for n, seed in [(3, 1), (4, 2), (4, 3), (5, 4), (5, 5)]:
    rng = np.random.default_rng(seed)
    full = (covg_fn_generator if seed % 2 else k_budget_generator)(n, rng)
    vals = full.get_values()
    minimal = list(minimal_game_coalitions(n))
    hidden = [c for c in range(2**n) if Coalition(c) not in minimal]
    for name, comp in [("sa", compute_bounds_superadditive), ("sa_cached", compute_bounds_superadditive_cached),
                       ("sam2", partial(compute_bounds_superadditive_monotone_approx_cached, repetitions=2))]:
        ig = IncompleteCooperativeGame(n, comp)
        ig.set_known_values(full.get_values(minimal), minimal)
        rec(("bounds", n, seed, name, "min"), ig.compute_bounds)
        LOG.append((("bounds", n, seed, name, "min"), "state", canon(ig._values.copy())))
        for step, j in enumerate(rng.permutation(len(hidden))[:6]):
            ig.reveal_value(vals[hidden[j]], Coalition(hidden[j]))
            rec(("bounds", n, seed, name, step), ig.compute_bounds)
            LOG.append((("bounds", n, seed, name, step), "state", canon(ig._values.copy())))


# ---- regret.py: both kinds of `past_actions`, save / load

for n in list(range(0, 9)) + [-1, -3, "x", None, 2.0, np.int64(4), True]:
    rec(("pidmap", repr(n)), get_coalition_player_id_map, n)

rec(("public", ), lambda: sorted(k for k, v in vars(R).items()
                                 if not k.startswith("_") and getattr(v, "__module__", None) == R.__name__))
rec(("importable", ), lambda: [hasattr(R, k) for k in (
    "Coalition", "GameRegretMinimizer", "Iterable", "Path", "RMValue", "all_coalitions", "chain", "coalitions_up_to",
    "combinations", "get_coalition_player_id_map", "json", "metacoalition_ids_by_coalition_size", "np", "scipy")])


def viable(n):
    return [c for c in range(2**n) if bin(c).count("1") not in (0, 1, n)]


def leaves(n, limit):
    v = viable(n)
    return [list(map(Coalition, combo)) for combo in itertools.combinations(v, min(limit, len(v)))]


def probe(tag, m, rng):
    """Observe strategies at nodes, through both the int and the iterable entry."""
    n_nodes = m.number_of_regret_minimizers
    ranks = range(n_nodes) if n_nodes <= 60 else sorted(set(rng.integers(0, n_nodes, 40).tolist() + [0, n_nodes - 1]))
    v = viable(m.number_of_players)
    for r in ranks:
        mid = int(m.meta_rank_to_id[r])
        rec((tag, "rms-int", r), m.regret_matching_strategy, mid)
        past = [Coalition(v[p]) for p in Coalition(mid).players]
        rec((tag, "rms-list", r), m.regret_matching_strategy, past)
        rec((tag, "rms-list-rev", r), m.regret_matching_strategy, past[::-1] + [Coalition(1), Coalition(0)])
        rec((tag, "avg", r), m.get_average_strategy, past)
        rec((tag, "mid", r), m.get_metacoalition_id, iter(past))


def losses(kind, rng, size):
    if kind == "uniform":
        return rng.random(size)
    if kind == "ints":
        return rng.integers(0, 5, size)
    if kind == "zeros":
        return np.zeros(size)
    if kind == "sparse":
        return rng.random(size) * (rng.random(size) < 0.3)
    if kind == "f32big":
        return (rng.random(size) * 1e6).astype(np.float32)
    if kind == "signed":
        return rng.normal(size=size)
    if kind == "list":
        return rng.random(size).tolist()
    raise AssertionError(kind)


KINDS = ["uniform", "ints", "zeros", "sparse", "f32big", "signed", "list"]
configs = [(3, l) for l in range(0, 5)] + [(4, l) for l in range(0, 4)] + [(5, 1), (5, 2)]
seed = 0
for n, limit in configs:
    for plus in (False, True):
        seed += 1
        rng = np.random.default_rng(seed)
        tag = (n, limit, plus)
        try:
            m = GameRegretMinimizer(n, limit, plus)
        except BaseException as e:  # noqa
            LOG.append((tag, "ctor-exc", type(e).__name__, str(e)))
            continue
        LOG.append((tag, "ctor", canon(state(m, tables=True))))
        lv = leaves(n, limit)
        probe(tag + ("t0",), m, rng)
        iters = 7 if (n, limit) not in [(4, 10), (4, 12), (5, 3)] else 3
        for t in range(iters):
            kind = KINDS[(t + seed) % len(KINDS)]
            order = rng.permutation(len(lv))
            if t % 3 == 2 and len(lv) > 2:   # only part of the leaves carries a value
                order = order[: max(1, len(lv) // 2)]
            used = [[lv[j][k] for k in rng.permutation(len(lv[j]))] for j in order]
            if t % 2:  # coalitions of K_0 in the histories are ignored
                used = [u + [Coalition(0), Coalition(2**n - 1), Coalition(2)] for u in used]
            tl = losses(kind, rng, len(used))
            rec(tag + ("iter", t, kind), m.regret_min_iteration, tl, used)
            LOG.append((tag, "state", t, canon(state(m))))
            if t in (0, iters - 1):
                probe(tag + ("t", t), m, rng)
        # exceptional paths of an iteration: the counter moves first, arrays must stay as they were
        rec(tag + ("bad-shape",), m.regret_min_iteration, np.ones(len(lv) + 3), lv)
        LOG.append((tag, "state-bad-shape", canon(state(m))))
        too_big = [list(map(Coalition, viable(n)))] * len(lv)
        rec(tag + ("bad-node",), m.regret_min_iteration, np.ones(len(lv)), too_big)
        rec(tag + ("bad-coalition",), m.regret_min_iteration, np.ones(len(lv)), [[Coalition(2**n + 3)]] * len(lv))
        rec(tag + ("bad-type",), m.regret_min_iteration, np.ones(len(lv)), [3] * len(lv))
        LOG.append((tag, "state-exc", canon(state(m))))
        rec(tag + ("rms-npint",), m.regret_matching_strategy, np.int64(0))
        rec(tag + ("rms-bool",), m.regret_matching_strategy, False)
        rec(tag + ("rms-oob",), m.regret_matching_strategy, 10**9)
        # save / load / continue identically
        d = "scratch"  # relative to the per-side working directory: error messages are the same on both sides
        shutil.rmtree(d, ignore_errors=True)
        os.mkdir(d)
        if True:
            p = Path(d) / "a" / "b"
            rec(tag + ("save",), m.save, p)
            LOG.append((tag, "files", canon({f.name: f.read_bytes() for f in sorted(p.iterdir())})))
            m2 = GameRegretMinimizer.load(p)
            LOG.append((tag, "loaded", canon(state(m2))))
            for t in range(2):
                tl = losses("uniform", rng, len(lv))
                m.regret_min_iteration(tl, lv)
                m2.regret_min_iteration(tl, lv)
                LOG.append((tag, "cont", t, canon(state(m)), canon(state(m2))))
            rec(tag + ("load-missing",), GameRegretMinimizer.load, Path(d) / "nope")
            rec(tag + ("load-str",), GameRegretMinimizer.load, str(p))
            (p / "params.json").write_text('{"number_of_players": 3, "plus": false}')
            rec(tag + ("load-missing-key",), GameRegretMinimizer.load, p)
            (p / "params.json").write_text('{"number_of_players": 3, ')
            rec(tag + ("load-broken-json",), GameRegretMinimizer.load, p)
            (p / "params.json").write_bytes(b'{"number_of_players": 3, "limit_of_revealed": 1, "plus": "\xff\xfe"}')
            rec(tag + ("load-bad-encoding",), GameRegretMinimizer.load, p)
            (p / "params.json").write_text('{"number_of_players": 3, "limit_of_revealed": 2, "plus": 1, "iteration": 5, "x": 0}')
            rec(tag + ("load-extra-key",), lambda: canon(state(GameRegretMinimizer.load(p))))
            (p / "params.json").unlink()
            (p / "params.json").mkdir()
            rec(tag + ("load-directory",), GameRegretMinimizer.load, p)
        # an iteration with NaN / inf terminal values
        tl = losses("uniform", rng, len(lv))
        if len(tl):
            tl[0] = np.nan
            tl[-1] = np.inf
        rec(tag + ("iter-nan",), m.regret_min_iteration, tl, lv)
        LOG.append((tag, "state-nan", canon(state(m, tables=True))))

with open(out_path, "wb") as f:
    pickle.dump(LOG, f, protocol=4)
print(len(LOG))
'''


def start_side(root: Path, driver: Path, out: Path) -> subprocess.Popen:
    """Start the driver in a fresh interpreter that sees only `root` (and site-packages)."""
    env = dict(os.environ, PYTHONPATH=str(root), OMP_NUM_THREADS="1", PYTHONHASHSEED="0", PYTHONWARNINGS="ignore")
    return subprocess.Popen([sys.executable, str(driver), str(root), str(out)], env=env, cwd=str(out.parent),
                            stdout=subprocess.PIPE, stderr=subprocess.PIPE, text=True)


def finish_side(proc: subprocess.Popen, root: Path) -> int:
    stdout, stderr = proc.communicate()
    if proc.returncode != 0:
        print(stdout, stderr, sep="\n")
        raise SystemExit(f"driver failed on {root}")
    return int(stdout.strip().splitlines()[-1])


def main() -> int:
    worktree = Path(sys.argv[1] if len(sys.argv) > 1 else os.getcwd()).resolve()
    assert (worktree / "incomplete_cooperative").is_dir(), worktree
    with tempfile.TemporaryDirectory(prefix="equiv_X04_") as tmp_s:
        tmp = Path(tmp_s)
        orig = tmp / "orig"
        orig.mkdir()
        archive = subprocess.run(["git", "archive", "HEAD", "incomplete_cooperative"], cwd=worktree,
                                 capture_output=True, check=True).stdout
        subprocess.run(["tar", "-x", "-C", str(orig)], input=archive, check=True)
        driver = tmp / "driver.py"
        driver.write_text(DRIVER)
        (tmp / "o").mkdir()
        (tmp / "n").mkdir()
        p_orig = start_side(orig, driver, tmp / "o" / "out.pkl")  # the two sides run side by side
        p_new = start_side(worktree, driver, tmp / "n" / "out.pkl")
        n_orig = finish_side(p_orig, orig)
        n_new = finish_side(p_new, worktree)
        a = (tmp / "o" / "out.pkl").read_bytes()
        b = (tmp / "n" / "out.pkl").read_bytes()
        la, lb = pickle.loads(a), pickle.loads(b)
    bad = 0
    if len(la) != len(lb):
        print(f"different number of records: {len(la)} vs {len(lb)}")
        bad += 1
    for x, y in zip(la, lb):
        if x != y:
            bad += 1
            if bad <= 10:
                print("MISMATCH", x[:2], "\n   orig:", repr(x)[:300], "\n   new: ", repr(y)[:300])
    n_exc = sum(1 for x in la if len(x) > 1 and x[1] in ("exc", "ctor-exc"))
    print(f"records: {n_orig} / {n_new}, of which exceptions: {n_exc}; mismatches: {bad}; "
          f"pickles byte-equal: {a == b}")
    return 0 if bad == 0 else 1


if __name__ == "__main__":
    sys.exit(main())
