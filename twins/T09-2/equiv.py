#!/usr/bin/env python
"""Differential test for refactoring 2 (coalitions.py: renamed locals, generator expression -> loop, flattened else).

Run with cwd=/tmp/wt9/T09.  The ORIGINAL package is materialised from `git show HEAD:<path>` into a temporary
directory; the original and the refactored package are each driven by a worker subprocess (same script, `--worker`)
that executes an identical, seeded list of cases and pickles the normalised results.  The parent compares exactly.
"""
import hashlib
import os
import pickle
import subprocess
import sys
import tempfile

WT = "/tmp/wt9/T09"
TOUCHED = ["incomplete_cooperative/coalitions.py"]


# ----------------------------------------------------------------------------------------------------------------
# generic harness
# ----------------------------------------------------------------------------------------------------------------
def materialise_original(dest):
    """Write every file of HEAD:incomplete_cooperative into dest using `git show`."""
    names = subprocess.run(["git", "-C", WT, "ls-tree", "-r", "--name-only", "HEAD", "incomplete_cooperative"],
                           check=True, capture_output=True, text=True).stdout.split("\n")
    for name in filter(None, names):
        if "/tests/" in name:
            continue
        data = subprocess.run(["git", "-C", WT, "show", f"HEAD:{name}"], check=True, capture_output=True).stdout
        target = os.path.join(dest, name)
        os.makedirs(os.path.dirname(target), exist_ok=True)
        with open(target, "wb") as f:
            f.write(data)


def norm(x):
    """Turn a result into a picklable canonical form that keeps types, dtypes, shapes and raw bytes."""
    import numpy as np
    if type(x).__name__ == "Coalition" and hasattr(x, "id"):
        return ("Coalition", norm(x.id))
    if isinstance(x, np.ndarray):
        if x.dtype == object:
            return ("ndobj", x.shape, [norm(y) for y in x.ravel().tolist()])
        raw = np.ascontiguousarray(x).tobytes()
        if len(raw) > 2 ** 16:  # big tables (meta_id_to_rank spans 2**25 entries for 5 players): keep a digest only
            return ("ndhash", x.dtype.str, x.shape, hashlib.sha256(raw).hexdigest())
        return ("nd", x.dtype.str, x.shape, raw)
    if isinstance(x, np.generic):
        return ("npscalar", type(x).__name__, x.tobytes())
    if isinstance(x, (list, tuple)):
        return (type(x).__name__, [norm(y) for y in x])
    if isinstance(x, dict):
        return ("dict", [(norm(k), norm(v)) for k, v in x.items()])
    if isinstance(x, float):
        import struct
        return ("float", struct.pack("<d", x))
    if isinstance(x, (bool, int, str, bytes, type(None))):
        return (type(x).__name__, x)
    raise TypeError(f"cannot normalise {type(x)}")


def call(f, *args, **kwargs):
    """Call f and return the normalised result or the normalised exception."""
    try:
        return ("OK", norm(f(*args, **kwargs)))
    except BaseException as e:  # noqa
        return ("EXC", type(e).__name__, str(e))


def describe(x, limit=400):
    """Describe a normalised value for a counterexample."""
    import numpy as np
    if isinstance(x, tuple) and x and x[0] == "nd":
        return f"ndarray(dtype={x[1]}, shape={x[2]}, values={np.frombuffer(x[3], dtype=x[1]).reshape(x[2])!r})"[:limit]
    return repr(x)[:limit]


def main():
    changed = subprocess.run(["git", "-C", WT, "diff", "--name-only"], check=True, capture_output=True,
                             text=True).stdout.split()
    print("files differing from HEAD in the worktree:", changed)
    with tempfile.TemporaryDirectory(prefix="equiv_T09_") as tmp:
        orig_root = os.path.join(tmp, "orig")
        materialise_original(orig_root)
        outs = {}
        for label, root in (("orig", orig_root), ("new", WT)):
            out = os.path.join(tmp, f"{label}.pkl")
            env = dict(os.environ, OMP_NUM_THREADS="1", MKL_NUM_THREADS="1", PYTHONHASHSEED="0",
                       PYTHONDONTWRITEBYTECODE="1")
            env.pop("PYTHONPATH", None)
            proc = subprocess.run([sys.executable, os.path.abspath(__file__), "--worker", root, out], env=env, cwd=tmp)
            if proc.returncode != 0:
                if label == "orig":
                    raise SystemExit("the worker failed on the ORIGINAL source: the harness is broken")
                print("DIFFERENT\nthe worker crashed on the refactored source only (traceback above), exit status",
                      proc.returncode)
                sys.exit(1)
            with open(out, "rb") as f:
                outs[label] = pickle.load(f)
    orig, new = outs["orig"], outs["new"]
    if [k for k, _ in orig] != [k for k, _ in new]:
        for (ka, _), (kb, _) in zip(orig, new):
            if ka != kb:
                print("DIFFERENT\nfirst differing case label:", ka, "vs", kb)
                sys.exit(1)
        print("DIFFERENT\nnumber of cases differs:", len(orig), len(new))
        sys.exit(1)
    for (key, a), (_, b) in zip(orig, new):
        if a != b:
            print("DIFFERENT")
            print("case:", key)
            print("original  :", describe(a))
            print("refactored:", describe(b))
            sys.exit(1)
    digest = hashlib.sha256(pickle.dumps(orig)).hexdigest()[:16]
    print(f"{len(orig)} cases compared exactly (types, dtypes, shapes, raw bytes, exceptions); digest {digest}")
    print("EQUIVALENT")


# ----------------------------------------------------------------------------------------------------------------
# the cases
# ----------------------------------------------------------------------------------------------------------------
def worker(root, out):
    sys.path[:] = [root] + [p for p in sys.path if p not in ("", os.getcwd(), WT)]
    import numpy as np
    from itertools import islice

    import incomplete_cooperative
    assert os.path.abspath(incomplete_cooperative.__file__).startswith(os.path.abspath(root) + os.sep), \
        (incomplete_cooperative.__file__, root)
    from incomplete_cooperative import coalitions as C
    from incomplete_cooperative import generators as G
    from incomplete_cooperative import regret as R
    from incomplete_cooperative.bounds import BOUNDS
    from incomplete_cooperative.game import IncompleteCooperativeGame
    assert os.path.abspath(C.__file__).startswith(os.path.abspath(root) + os.sep)
    Coalition = C.Coalition

    results = []

    def rec(key, value):
        results.append((key, value))

    def drain(make):
        """Consume an iterable lazily; record every item and the exception that ends it (if any)."""
        items = []
        try:
            for item in make():
                items.append(norm(item))
        except BaseException as e:  # noqa
            return ("PARTIAL", items, type(e).__name__, str(e))
        return ("OK", items)

    id_kinds = {"int": int, "int64": np.int64, "int32": np.int32, "uint8": np.uint8}

    # --- single coalition: players, len, repr, hash, inverted, sub-/super-coalitions --------------------------
    for n in range(0, 7):
        for cid in range(2 ** n):
            for kind, conv in id_kinds.items():
                if kind == "uint8" and cid > 255:
                    continue
                c = Coalition(conv(cid))
                rec(("players", n, cid, kind), drain(lambda: c.players))
                rec(("len", n, cid, kind), call(len, c))
                rec(("hash", n, cid, kind), call(hash, c))
                rec(("repr", n, cid, kind), call(repr, c))
                rec(("inverted", n, cid, kind), call(c.inverted, n))
            c = Coalition(cid)
            rec(("sub", n, cid), drain(lambda: C.get_sub_coalitions(c)))
            rec(("super", n, cid), drain(lambda: C.get_super_coalitions(c, n)))
            rec(("eq_int", n, cid), norm([call(c.__eq__, p) for p in range(n + 1)]))
            rec(("contains_player", n, cid), norm([call(c.__contains__, p) for p in range(n + 1)]))
            rec(("sub_player", n, cid), norm([call(c.__sub__, p) for p in range(n + 1)]))
            rec(("add_player", n, cid), norm([call(c.__add__, p) for p in range(n + 1)]))
            rec(("and_or_player", n, cid), norm([[call(c.__and__, p), call(c.__or__, p)] for p in range(n + 1)]))
    # big ids (bitmasks over up to 25 viable coalitions are used by the regret minimiser), negative and odd ids
    rng = np.random.default_rng(2024)
    for j in range(300):
        cid = int(rng.integers(0, 2 ** 40))
        c = Coalition(cid)
        rec(("big_players", j), drain(lambda: c.players))
        rec(("big_len", j), call(len, c))
        c64 = Coalition(np.int64(cid))
        rec(("big_players64", j), drain(lambda: c64.players))
        rec(("big_len64", j), call(len, c64))
        rec(("big_inverted", j), call(c64.inverted, 41))
    for weird in (2 ** 70 + 5, True, False, np.bool_(True), 3.0, "x", None, [1]):
        c = Coalition(weird)
        rec(("weird_players", repr(weird)), drain(lambda: islice(c.players, 100)))
        rec(("weird_len", repr(weird)), call(len, c))

    # --- pairs of coalitions: algebra and predicates ------------------------------------------------------------
    for n in range(1, 6):
        for a in range(2 ** n):
            ca = Coalition(a)
            row = []
            for b in range(2 ** n):
                cb = Coalition(np.int64(b)) if (a + b) % 3 == 0 else Coalition(b)
                row.append([call(ca.__and__, cb), call(ca.__or__, cb), call(ca.__sub__, cb), call(ca.__contains__, cb),
                            call(ca.__eq__, cb), call(C.disjoint_coalitions, ca, cb)])
            rec(("pairs", n, a), norm(row))
            rec(("exclude", n, a), drain(lambda: C.exclude_coalition(ca, C.all_coalitions(n))))
    # operands of the wrong type
    for other in ("x", None, 1.5, np.int64(1), np.float64(1), [1], Coalition(1), True):
        c = Coalition(5)
        rec(("bad_sub", repr(other)), call(c.__sub__, other))
        rec(("bad_add", repr(other)), call(c.__add__, other))
        rec(("bad_eq", repr(other)), call(c.__eq__, other))

    # --- from_players ---------------------------------------------------------------------------------------------
    for j in range(400):
        n = int(rng.integers(0, 12))
        k = int(rng.integers(0, n + 3))
        players = [int(x) for x in rng.integers(0, max(n, 1), size=k)]
        variants = {
            "list": players, "tuple": tuple(players), "set": set(players), "gen": (p for p in players),
            "np64": np.array(players, dtype=np.int64), "np32list": [np.int32(p) for p in players],
            "np8list": [np.int8(p) for p in players], "range": range(k),
        }
        for name, value in variants.items():
            rec(("from_players", j, name), call(Coalition.from_players, value))
    for bad in ([0.5], ["a"], [None], 3, None, [[1]], [-1], [np.int8(7)], [np.int8(6), np.int8(6), np.int8(5)],
                [np.int64(62), np.int64(63)], [62, 63, 64], [np.uint8(3), 2]):
        rec(("from_players_bad", repr(bad)), call(Coalition.from_players, bad))

    # --- module level constructors and enumerations ---------------------------------------------------------------
    for n in list(range(0, 9)) + [np.int64(3), np.int32(4), True]:
        rec(("minimal", repr(n)), drain(lambda: C.minimal_game_coalitions(n)))
        rec(("grand", repr(n)), call(C.grand_coalition, n))
        rec(("all", repr(n)), drain(lambda: C.all_coalitions(n)))
    for bad in ("3", None, 2.0, -1, [3]):
        rec(("minimal_bad", repr(bad)), drain(lambda: islice(C.minimal_game_coalitions(bad), 50)))
        rec(("grand_bad", repr(bad)), call(C.grand_coalition, bad))
    for p in list(range(8)) + [np.int64(3), -1, 0.5, "a"]:
        rec(("player_to_coalition", repr(p)), call(C.player_to_coalition, p))
    # partially consumed / closed generators
    for n in range(0, 6):
        for take in range(0, n + 4):
            rec(("minimal_take", n, take), drain(lambda: islice(C.minimal_game_coalitions(n), take)))
        g = C.minimal_game_coalitions(n)
        first = norm(next(g))
        rec(("minimal_send", n), ("OK", [first, call(g.send, "ignored"), call(g.send, None), call(g.send, 5),
                                         call(g.throw, KeyError("boom")), call(next, g)]))

    # --- games: minimal_game_coalitions / get_known_coalitions on Game objects, and users of the module ----------
    gen_names = ["factory", "factory_cheerleader_next", "noisy_factory_exp", "graph", "graph_cycle", "xos", "xs",
                 "oxs", "k_budget_generator", "covg_fn_generator", "graph_random"]
    for name in gen_names:
        for n in (3, 4, 5):
            for seed in range(3):
                G._gen.bit_generator.state = np.random.default_rng([seed, n]).bit_generator.state
                gen_rng = np.random.default_rng([n, seed, 7])
                key = ("game", name, n, seed)
                try:
                    full = G.GENERATORS[name](n, gen_rng)
                except BaseException as e:  # noqa
                    rec(key + ("generate",), ("EXC", type(e).__name__, str(e)))
                    continue
                values = full.get_values()
                rec(key + ("values",), ("OK", norm(values)))
                rec(key + ("minimal",), drain(lambda: C.minimal_game_coalitions(full)))
                rec(key + ("grand",), call(C.grand_coalition, full))
                rec(key + ("all",), drain(lambda: C.all_coalitions(full)))
                for bname in ("superadditive", "superadditive_cached", "sam_apx_1"):
                    ig = IncompleteCooperativeGame(n, BOUNDS[bname])
                    known = list(C.minimal_game_coalitions(ig))
                    extra = [Coalition(int(x)) for x in rng.permutation(2 ** n)[:int(rng.integers(0, 2 ** n))]]
                    known_ids = sorted({c.id for c in known + extra})
                    known = [Coalition(i) for i in known_ids]
                    ig.set_known_values(values[known_ids], known)
                    rec(key + ("known", bname), drain(lambda: C.get_known_coalitions(ig)))
                    rec(key + ("bounds", bname), call(ig.compute_bounds))
                    rec(key + ("intervals", bname), call(ig.get_intervals))

    # --- regret minimiser ranking is built with Coalition.from_players / players ----------------------------------
    for n, limit in ((3, 1), (3, 2), (3, 3), (4, 1), (4, 2), (4, 3), (5, 1), (5, 2)):
        rec(("meta_ids", n, limit), call(R.metacoalition_ids_by_coalition_size, n, limit))
        rec(("pid_map", n), call(R.get_coalition_player_id_map, n))
        rm = R.GameRegretMinimizer(n, limit)
        pid_to_coal = {int(pid): cid for cid, pid in enumerate(rm.coalitions_to_player_ids) if pid >= 0}
        from itertools import combinations
        leaves = [[Coalition(pid_to_coal[p]) for p in combo]
                  for combo in combinations(range(rm.number_of_coalitions), min(limit, rm.number_of_coalitions))]
        for it in range(3):
            rec(("rm_iter", n, limit, it), call(rm.regret_min_iteration, rng.random(len(leaves)), leaves))
            rec(("rm_state", n, limit, it), norm([rm.cumulative_regret, rm.cumulative_strategy]))
            rec(("rm_avg", n, limit, it), call(rm.get_average_strategy, []))
            rec(("rm_avg1", n, limit, it), call(rm.get_average_strategy, leaves[0][:1]))

    with open(out, "wb") as f:
        pickle.dump(results, f)


if __name__ == "__main__":
    if len(sys.argv) == 4 and sys.argv[1] == "--worker":
        worker(sys.argv[2], sys.argv[3])
    else:
        main()
