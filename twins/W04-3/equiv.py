"""Differential test for patch_3 (coalitions.py: bodies of Coalition.__len__ / __contains__ moved to module-level functions).

Run with cwd=/tmp/wt12/W04.  Loads the ORIGINAL package from `git show HEAD:<path>` into a temporary directory and the
refactored package from the worktree, runs both on many inputs and compares results exactly.
"""
import importlib
import os
import subprocess
import sys
import tempfile
import warnings

import numpy as np

WT = os.getcwd()
MODULES = ["coalitions", "protocols", "game", "graph_game", "shapley", "exploitability", "bounds", "generators"]
warnings.simplefilter("ignore")


def _purge():
    for name in [m for m in sys.modules if m == "incomplete_cooperative" or m.startswith("incomplete_cooperative.")]:
        del sys.modules[name]


def _load(root):
    _purge()
    sys.path.insert(0, root)
    try:
        mods = {n: importlib.import_module("incomplete_cooperative." + n) for n in MODULES}
        assert os.path.realpath(mods["shapley"].__file__).startswith(os.path.realpath(root)), mods["shapley"].__file__
    finally:
        sys.path.remove(root)
        _purge()
    return mods


def _materialise_original(tmp):
    files = subprocess.check_output(["git", "-C", WT, "ls-tree", "-r", "--name-only", "HEAD", "incomplete_cooperative"],
                                    text=True).split()
    for path in files:
        if not path.endswith(".py"):
            continue
        target = os.path.join(tmp, path)
        os.makedirs(os.path.dirname(target), exist_ok=True)
        with open(target, "wb") as handle:
            handle.write(subprocess.check_output(["git", "-C", WT, "show", "HEAD:" + path]))


def same(a, b):
    """Exact comparison (type, dtype, shape, bits)."""
    if isinstance(a, BaseException) or isinstance(b, BaseException):
        return type(a) is type(b) and str(a) == str(b)
    if isinstance(a, tuple) and isinstance(b, tuple) or isinstance(a, list) and isinstance(b, list):
        return len(a) == len(b) and all(same(x, y) for x, y in zip(a, b))
    if type(a) is not type(b):
        return False
    if isinstance(a, np.ndarray):
        return a.dtype == b.dtype and a.shape == b.shape and np.array_equal(a, b, equal_nan=a.dtype.kind in "fc") \
            and a.tobytes() == b.tobytes()
    if isinstance(a, (np.floating, float)):
        return np.array_equal(np.asarray(a), np.asarray(b), equal_nan=True) and \
            np.asarray(a).tobytes() == np.asarray(b).tobytes()
    return a == b


def run(fn):
    try:
        return fn()
    except Exception as exc:  # noqa: BLE001
        return exc


def check(label, results):
    orig, new = results
    if not same(orig, new):
        print("DIFFERENT")
        print("case:", label)
        print("original :", repr(orig))
        print("refactored:", repr(new))
        sys.exit(1)


def plain(value):
    """Turn Coalitions (of either version) and iterables of them into comparable plain data, keeping the id types."""
    if type(value).__name__ == "Coalition":
        return ("Coalition", type(value.id).__name__, value.id)
    if isinstance(value, (map, filter)) or type(value).__name__ == "generator":
        return (type(value).__name__, [plain(v) for v in value])
    if isinstance(value, (list, tuple)):
        return type(value)(plain(v) for v in value)
    return value


# ids of different integer-like types; negative ids make `len` loop forever in BOTH versions and are left out there
def id_variants(i):
    yield "int", int(i)
    for kind, convert in (("int64", np.int64), ("uint8", lambda x: np.uint8(x % 256)), ("int32", np.int32)):
        try:
            yield kind, convert(i)
        except OverflowError:
            pass
    if i in (0, 1):
        yield "bool", bool(i)
        yield "np.bool", np.bool_(i)
    yield "float", float(i)
    yield "str", str(i)
    yield "none", None


def others(mods, n):
    """Operands for `in`, `&`, `|`, `==`, `-`, `+`."""
    Coalition = mods["coalitions"].Coalition
    for i in range(2**n):
        yield f"C({i})", Coalition(i)
    for p in range(-2, n + 2):
        yield f"player {p}", p
        yield f"np player {p}", np.int64(p)
    yield "True", True
    yield "False", False
    yield "1.0", 1.0
    yield "None", None
    yield "str", "0"
    yield "list", [0]
    yield "big", 70
    yield "C(np.int64(3))", Coalition(np.int64(3))
    yield "C(2**70)", Coalition(2**70 + 5)
    yield "C(float)", Coalition(2.0)
    # Coalition(-1) is only used where no message is formatted: its repr loops forever in BOTH versions
    yield "C(-1) no-repr", Coalition(-1)


def coalition_api(mods, n):
    """Exercise the whole public surface of coalitions.py for `n` players."""
    c = mods["coalitions"]
    Coalition = c.Coalition
    out = []
    for i in list(range(2**n)) + [2**40 + 3, 2**70 - 1, 2**100]:
        for kind, ident in id_variants(i):
            label = f"id={i} as {kind}"
            coalition = Coalition(ident)
            out.append((label + " len()", run(lambda: len(coalition))))
            out.append((label + " __len__", run(lambda: coalition.__len__())))
            out.append((label + " type of __len__", run(lambda: type(coalition.__len__()).__name__)))
            out.append((label + " bool", run(lambda: bool(coalition))))
            out.append((label + " players", run(lambda: list(coalition.players))))
            out.append((label + " hash", run(lambda: hash(coalition))))
            out.append((label + " id unchanged", (type(coalition.id).__name__, coalition.id)))
            if i < 2**n and kind in ("int", "int64"):
                for name, other in others(mods, n):
                    out.append((f"{label} contains {name}", run(lambda: other in coalition)))
                    out.append((f"{label} __contains__ {name}", run(lambda: coalition.__contains__(other))))
                    out.append((f"{label} & {name}", plain(run(lambda: coalition & other))))
                    out.append((f"{label} | {name}", plain(run(lambda: coalition | other))))
                    out.append((f"{label} - {name}", plain(run(lambda: coalition - other))))
                    if "no-repr" not in name:
                        out.append((f"{label} + {name}", plain(run(lambda: coalition + other))))
                    out.append((f"{label} == {name}", run(lambda: coalition == other)))
                out.append((label + " inverted", plain(run(lambda: coalition.inverted(n)))))
                out.append((label + " sub", plain(run(lambda: c.get_sub_coalitions(coalition)))))
                out.append((label + " super", plain(run(lambda: c.get_super_coalitions(coalition, n)))))
                out.append((label + " exclude", plain(run(lambda: c.exclude_coalition(coalition, c.all_coalitions(n))))))
                out.append((label + " exclude sizes",
                            run(lambda: list(map(len, c.exclude_coalition(coalition, c.all_coalitions(n)))))))
                out.append((label + " sorted by len", plain(run(lambda: sorted(c.all_coalitions(n), key=len)))))
                out.append((label + " disjoint", run(lambda: [c.disjoint_coalitions(coalition, o)
                                                              for o in c.all_coalitions(n)])))
    for players in ([], [0], [0, 0, 1], range(n), (n - 1,), [np.int64(1), 2], [True], [-1], [1.5], ["a"], None, 3):
        out.append((f"from_players {players!r}", plain(run(lambda: Coalition.from_players(players)))))
        out.append((f"len from_players {players!r}", run(lambda: len(Coalition.from_players(players)))))
    for arg in (n, np.int64(n), 0, -1, 1.0, None, "2"):
        out.append((f"grand {arg!r}", plain(run(lambda: c.grand_coalition(arg)))))
        out.append((f"all {arg!r}", plain(run(lambda: c.all_coalitions(arg)))))
        out.append((f"minimal {arg!r}", plain(run(lambda: list(c.minimal_game_coalitions(arg))))))
        out.append((f"player_to_coalition {arg!r}", plain(run(lambda: c.player_to_coalition(arg)))))
    game = mods["game"].IncompleteCooperativeGame(n)
    game.set_value(3, Coalition(2**n - 1))
    out.append(("grand(game)", plain(run(lambda: c.grand_coalition(game)))))
    out.append(("all(game)", plain(run(lambda: c.all_coalitions(game)))))
    out.append(("minimal(game)", plain(run(lambda: list(c.minimal_game_coalitions(game))))))
    out.append(("known(game)", plain(run(lambda: c.get_known_coalitions(game)))))
    # len / in on an object whose id changes while ... no: both read `id` exactly once per call
    reads = []

    class Spy(Coalition):
        @property
        def id(self):
            reads.append("read")
            return 5

        @id.setter
        def id(self, value):
            pass
    spy = Spy(0)
    out.append(("spy len", run(lambda: len(spy))))
    out.append(("spy contains", run(lambda: (0 in spy, 1 in spy, Coalition(5) in spy, spy in Coalition(7)))))
    out.append(("spy reads", list(reads)))
    return out


SPECIALS = np.array([0.0, -0.0, 1.0, -1.0, np.inf, -np.inf, np.nan, 1e308, -1e308, 1e-320, 0.1, 1 / 3, 1e16, -1e16])


def end_to_end(mods, n, seed, style):
    """Shapley values and exploitability (properties C05 / C06) on top of the coalition helpers."""
    rng = np.random.default_rng(seed)
    Coalition = mods["coalitions"].Coalition
    size = 2**n
    values = {"normal": lambda: rng.normal(size=size) * 10.0 ** rng.integers(-6, 7, size),
              "integers": lambda: rng.integers(-9, 10, size).astype(float),
              "specials": lambda: rng.choice(SPECIALS, size)}[style]()
    values[0] = 0.0
    out = []
    complete = mods["game"].IncompleteCooperativeGame(n)
    complete.set_values(values.copy())
    out.append(("shapley all", run(lambda: list(mods["shapley"].compute_shapley_value(complete)))))
    for player in range(-1, n + 1):
        out.append((f"shapley {player}", run(lambda: mods["shapley"].compute_shapley_value_for_player(player, complete))))
    out.append(("exploitability complete", run(lambda: mods["exploitability"].compute_exploitability(complete))))
    # incomplete game with arbitrary bounds
    spread = rng.random(size) * 3
    known = rng.random(size) < 0.4
    known[0] = True
    known[-1] = rng.random() < 0.85
    incomplete = mods["game"].IncompleteCooperativeGame(n)
    incomplete._values[:, 1] = values
    incomplete._values[:, 2] = np.where(known, values, values + spread)
    incomplete._values[:, 0] = known
    out.append(("exploitability incomplete", run(lambda: mods["exploitability"].compute_exploitability(incomplete))))
    for player in range(n):
        max_gain = mods["exploitability"].MaxGainGame(incomplete, player)
        out.append((f"mask {player}", max_gain._player_mask))
        out.append((f"max gain values {player}", run(lambda: max_gain.get_values())))
        out.append((f"max gain value {player}", run(lambda: [max_gain.get_value(Coalition(i)) for i in range(size)])))
        out.append((f"max gain shapley {player}",
                    run(lambda: mods["shapley"].compute_shapley_value_for_player(player, max_gain))))
    # superadditive bounds (uses len as the sort key, sub / super coalitions) and graph games (players)
    if n >= 2:
        full = mods["generators"].factory_generator(n, np.random.default_rng(seed), random_weights=True)
        known[[0, size - 1] + [2**i for i in range(n)]] = True
        ids = np.flatnonzero(known)
        game = mods["game"].IncompleteCooperativeGame(n, mods["bounds"].compute_bounds_superadditive)
        game.set_known_values(full.get_values()[ids], [Coalition(int(i)) for i in ids])
        out.append(("compute bounds", run(game.compute_bounds)))
        out.append(("bounds table", game._values.copy()))
        out.append(("exploitability superadditive", run(lambda: mods["exploitability"].compute_exploitability(game))))
        graph = mods["graph_game"].GraphCooperativeGame(rng.random((n, n)))
        out.append(("graph values", run(lambda: graph.get_values())))
        out.append(("graph shapley", run(lambda: list(mods["shapley"].compute_shapley_value(graph)))))
    return out


def compare(versions):
    assert versions[0]["coalitions"].__file__ != versions[1]["coalitions"].__file__
    assert not hasattr(versions[0]["coalitions"], "_size")
    assert hasattr(versions[1]["coalitions"], "_size") and hasattr(versions[1]["coalitions"], "_contains")
    cases = 0
    for n in range(0, 5):
        results = [coalition_api(mods, n) for mods in versions]
        assert len(results[0]) == len(results[1])
        for (label, a), (_, b) in zip(*results):
            check(f"api n={n} {label}", [a, b])
            cases += 1
    for style in ("normal", "integers", "specials"):
        for n in range(0, 7):
            for seed in range(8 if n < 6 else 3):
                results = [end_to_end(mods, n, seed, style) for mods in versions]
                assert len(results[0]) == len(results[1])
                for (label, a), (_, b) in zip(*results):
                    check(f"end to end style={style} n={n} seed={seed} {label}", [a, b])
                    cases += 1
    # every registered generator (they use `in`, `len` and `players` of coalitions); convex needs pyfmtools: fails in both
    names = list(versions[0]["generators"].GENERATORS)
    assert names == list(versions[1]["generators"].GENERATORS)
    for name in names:
        for n in (3, 4):
            for seed in range(2):
                games = []
                for mods in versions:
                    mods["generators"]._gen.bit_generator.state = np.random.default_rng(seed + 77).bit_generator.state
                    games.append(run(lambda: mods["generators"].GENERATORS[name](n, np.random.default_rng(seed))))
                if any(isinstance(g, BaseException) for g in games):
                    check(f"generator {name} n={n} seed={seed} error", games)
                    continue
                label = f"generator {name} n={n} seed={seed}"
                check(label + " values", [run(lambda g=g: g.get_values()) for g in games])
                check(label + " shapley", [run(lambda m=m, g=g: list(m["shapley"].compute_shapley_value(g)))
                                           for m, g in zip(versions, games)])
                cases += 2
    print(f"EQUIVALENT ({cases} cases)")


def main():
    with tempfile.TemporaryDirectory() as tmp:
        _materialise_original(tmp)
        versions = [_load(tmp), _load(WT)]
        compare(versions)


if __name__ == "__main__":
    main()
