"""Differential test for patch 2 (regret.py: loop-invariant `weight` hoisted, reversed(range), cached row of regret).

Run with cwd=/tmp/wt10/U06.  Loads the ORIGINAL package from `git show HEAD:` into a temp dir and the refactored one from
the worktree, drives both regret minimisers with identical inputs and compares every piece of state bit for bit.
"""
import atexit
import importlib
import itertools
import os
import shutil
import subprocess
import sys
import tempfile
from pathlib import Path

import numpy as np

WT = Path.cwd()
PKG = "incomplete_cooperative"
MODS = ("regret", "coalitions")


def _purge():
    for name in [m for m in sys.modules if m == PKG or m.startswith(PKG + ".")]:
        del sys.modules[name]


def _load(root):
    _purge()
    sys.path.insert(0, str(root))
    try:
        mods = {n: importlib.import_module(f"{PKG}.{n}") for n in MODS}
    finally:
        sys.path.remove(str(root))
    for m in mods.values():
        assert Path(m.__file__).is_relative_to(root), (m.__file__, root)
    _purge()
    return mods


def load_original():
    tmp = Path(tempfile.mkdtemp(prefix="icg_orig_"))
    atexit.register(shutil.rmtree, tmp, ignore_errors=True)
    listing = subprocess.run(["git", "-C", str(WT), "ls-tree", "-r", "--name-only", "HEAD", PKG],
                             check=True, capture_output=True, text=True).stdout.split()
    for rel in listing:
        if "/tests/" in rel or not rel.endswith(".py"):
            continue
        dest = tmp / rel
        dest.parent.mkdir(parents=True, exist_ok=True)
        dest.write_bytes(subprocess.run(["git", "-C", str(WT), "show", f"HEAD:{rel}"],
                                        check=True, capture_output=True).stdout)
    return _load(tmp)


def outcome(fn):
    try:
        return ("ok", fn())
    except BaseException as e:  # noqa
        return ("exc", type(e).__name__, str(e))


def same(x, y):
    if type(x) is not type(y):
        return False
    if isinstance(x, (tuple, list)):
        return len(x) == len(y) and all(same(p, q) for p, q in zip(x, y))
    if isinstance(x, dict):
        return list(x) == list(y) and all(same(x[k], y[k]) for k in x)
    if isinstance(x, (np.ndarray, np.generic)):
        xa, ya = np.asarray(x), np.asarray(y)
        return (xa.dtype == ya.dtype and xa.shape == ya.shape
                and bool(np.array_equal(xa, ya, equal_nan=True)) and xa.tobytes() == ya.tobytes())
    if isinstance(x, float):
        return x == y or (x != x and y != y)
    return x == y


def state(rm):
    return dict(iteration=rm.iteration, regret=rm.cumulative_regret.copy(), strategy=rm.cumulative_strategy.copy(),
                plus=rm.plus, nrm=rm.number_of_regret_minimizers, viable=rm.viable_metacoalitions,
                rank_to_id=rm.meta_rank_to_id.copy(), id_to_rank_size=rm.meta_id_to_rank.shape,
                id_to_rank=(rm.meta_id_to_rank.copy() if rm.meta_id_to_rank.size < 10 ** 6
                            else rm.meta_id_to_rank[rm.meta_rank_to_id]),
                pid_map=rm.coalitions_to_player_ids.copy())


def probe(mods, rm, n, rng):
    """Query every strategy entry point on the minimiser."""
    co = mods["coalitions"]
    out = []
    viable = [c for c in range(2 ** n) if bin(c).count("1") not in (0, 1, n)]
    for rank in range(rm.viable_metacoalitions):
        meta = int(rm.meta_rank_to_id[rank])
        if rank < rm.number_of_regret_minimizers:
            out.append(outcome(lambda: rm.regret_matching_strategy(meta)))
        if rank < 40 or rank % 17 == 0:
            coals = [co.Coalition(viable[p]) for p in range(len(viable)) if meta >> p & 1]
            out.append(outcome(lambda: rm.get_average_strategy(coals)))
            out.append(outcome(lambda: rm.regret_matching_strategy(coals)))
            # with non-viable coalitions mixed in and in shuffled order
            mixed = coals + [co.Coalition(0), co.Coalition(1), co.Coalition(2 ** n - 1)]
            order = rng.permutation(len(mixed))
            mixed = [mixed[i] for i in order]
            out.append(outcome(lambda: rm.get_average_strategy(mixed)))
            out.append(outcome(lambda: rm.get_metacoalition_id(mixed)))
    # out-of-range metacoalition id
    out.append(outcome(lambda: rm.regret_matching_strategy(10 ** 9)))
    return out


def drive(mods, n, limit, plus, seed, loss_kind, iterations, tmpdir):
    rg, co = mods["regret"], mods["coalitions"]
    rng = np.random.default_rng(seed)
    log = []
    made = outcome(lambda: rg.GameRegretMinimizer(n, limit, plus=plus))
    if made[0] == "exc":
        return [made]
    rm = made[1]
    log.append(state(rm))
    viable = [c for c in range(2 ** n) if bin(c).count("1") not in (0, 1, n)]
    depth = min(limit, len(viable))
    terminals = [list(map(co.Coalition, combo)) for combo in itertools.combinations(viable, depth)]
    log.append(probe(mods, rm, n, rng))
    for it in range(iterations):
        if loss_kind == "uniform":
            losses = rng.uniform(0, 1, len(terminals))
        elif loss_kind == "sparse":
            losses = rng.uniform(0, 1, len(terminals)) * (rng.uniform(size=len(terminals)) < 0.2)
        elif loss_kind == "signed":
            losses = rng.normal(size=len(terminals)) * 100
        elif loss_kind == "float32":
            losses = rng.uniform(0, 5, len(terminals)).astype(np.float32)
        elif loss_kind == "ints":
            losses = rng.integers(0, 4, len(terminals))
        elif loss_kind == "nan":
            losses = rng.uniform(0, 1, len(terminals))
            losses[rng.integers(len(terminals))] = np.nan
        elif loss_kind == "zeros":
            losses = np.zeros(len(terminals))
        else:
            raise AssertionError(loss_kind)
        order = rng.permutation(len(terminals))
        used = [terminals[i] for i in order]
        res = outcome(lambda: rm.regret_min_iteration(losses[order] if len(order) else losses, used))
        log.append(res)
        log.append(state(rm))
        if it % 2 == 0 or it == iterations - 1:
            log.append(probe(mods, rm, n, rng))
        if it == iterations // 2:
            # save / load round trip: file contents and continued run must agree too
            path = Path(tmpdir) / f"rm_{n}_{limit}_{int(plus)}_{seed}_{loss_kind}"
            log.append(outcome(lambda: rm.save(path)))
            log.append({p.name: p.read_bytes() for p in sorted(path.iterdir())})
            loaded = outcome(lambda: rg.GameRegretMinimizer.load(path))
            log.append(loaded[0])
            if loaded[0] == "ok":
                rm = loaded[1]
                log.append(state(rm))
            shutil.rmtree(path, ignore_errors=True)
    # wrong-sized inputs raise the same exception
    log.append(outcome(lambda: rm.regret_min_iteration(np.ones(len(terminals) + 1), terminals)))
    log.append(state(rm))
    return log


def configs():
    for n in ((3, 4) if os.environ.get("EQUIV_QUICK") else (3, 4, 5)):
        nc = 2 ** n - n - 2
        limits = {3: (0, 1, 2, 3, 4, 60), 4: (1, 2, 3), 5: (1, 2)}[n]
        for limit in limits:
            for plus in (False, True):
                kinds = ("uniform", "sparse", "signed", "float32", "ints", "nan", "zeros")
                seeds = {3: range(6), 4: range(3), 5: range(2)}[n]
                for kind in kinds:
                    for seed in seeds:
                        yield n, limit, plus, seed, kind, (6 if n < 5 else 4)
    # one big tree
    yield 5, 3, False, 0, "uniform", 3
    yield 5, 3, True, 1, "sparse", 3
    # sizes the minimiser cannot represent / odd arguments
    for n, limit in ((1, 1), (2, 1), (3, -1), (6, 1)):
        for plus in (False, True):
            yield n, limit, plus, 0, "uniform", 2


def main():
    orig = load_original()
    new = _load(WT)
    assert orig["regret"] is not new["regret"]
    compared = 0
    with tempfile.TemporaryDirectory(prefix="icg_rm_") as tmpdir:
        for cfg in configs():
            with np.errstate(all="ignore"):
                a = drive(orig, *cfg, tmpdir)
                b = drive(new, *cfg, tmpdir)
            if len(a) != len(b):
                print("DIFFERENT"); print(cfg, "log lengths", len(a), len(b)); return 1
            for step, (x, y) in enumerate(zip(a, b)):
                compared += len(x) if isinstance(x, list) else 1
                if not same(x, y):
                    print("DIFFERENT")
                    print("config (n, limit, plus, seed, losses, iterations):", cfg, "log step", step)
                    if isinstance(x, list):
                        for i, (p, q) in enumerate(zip(x, y)):
                            if not same(p, q):
                                print(" probe", i, "\n original  :", p, "\n refactored:", q)
                                break
                    else:
                        print(" original  :", x, "\n refactored:", y)
                    return 1
    print(f"compared {compared} observations over {len(list(configs()))} runs")
    print("EQUIVALENT")
    return 0


if __name__ == "__main__":
    os.environ.setdefault("OMP_NUM_THREADS", "1")
    sys.exit(main())
